//! C18: files with 1..N scripted blocks; scripts from /verif/tools/lua (absolute paths), contents with
//! Unicode / quotes / newlines, optional check-lua-pattern; any subset of the blocks failing.
use crate::core::{Case, Ctx};
use crate::rng::Rng;
use serde_json::{Value, json};

pub fn lua_dir() -> String {
    let exe = std::env::current_exe().expect("exe");
    // harness/target/debug/bwh -> /verif/tools/lua
    let root = exe.parent().and_then(|p| p.parent()).and_then(|p| p.parent()).and_then(|p| p.parent()).expect("root");
    root.join("tools").join("lua").display().to_string()
}

const CONTENT: &[&str] = &["alpha", "  beta  ", "x = \"quoted\"", "é→ü", "tab\there", "", "   ", "k=v1", "k=v2 trailing", "back\\slash", "<tag>", "a,b;c", "名前", "line with # hash"];
const PATTERNS: &[&str] = &[r"k=(?P<value>\w+)", r"k=\w+", r"(?s)alpha.*", r"nomatch\d{5}", "(", r"(?P<value>é.)", r"^\s+beta", r"k=(?P<value>\w+)|alpha", r"k=(?<value>\w+)", r"k=(?P<val>\w+)"];
const OK_SCRIPTS: &[&str] = &["echo.lua", "echo.lua", "echo.lua", "busy_echo.lua", "nil.lua", "str.lua"];
const BAD_SCRIPTS: &[&str] = &["syntax.lua", "runtime.lua", "novalidate.lua", "number.lua", "table.lua", "bool.lua", "toplevel.lua", "does_not_exist.lua"];

pub fn generate(_ctx: &mut Ctx, seed: u64, i: usize, max_blocks: usize) -> Case {
    let mut rng = Rng::new(seed, i as u64);
    let dir = lua_dir();
    let nfiles = 1 + rng.below(3);
    // the property quantifies over 1..40 scripted blocks: a share of the cases is large in every tier
    let total = if rng.chance(1, 8) { 30 + rng.below(11) } else { 1 + rng.below(max_blocks) };
    let failing = if rng.chance(1, 3) { 1 + rng.below(3) } else { 0 };
    let mut files = vec![];
    let mut asyncs: Vec<Value> = vec![];
    let mut patterns = vec![];
    let mut made = 0;
    let mut nfail = 0;
    for k in 0..nfiles {
        let (ext, c) = [("py", "# "), ("rs", "// "), ("js", "// "), ("sh", "# ")][rng.below(4)];
        let path = format!("{}l{k}.{ext}", ["", "src/", "a b/"][rng.below(3)]);
        let mut text = String::new();
        let here = if k + 1 == nfiles { total - made } else { (total - made).min(rng.below(total / nfiles + 2)) };
        for _ in 0..here {
            made += 1;
            let fail = nfail < failing && rng.chance(1, 2);
            let script = if fail { nfail += 1; *rng.pick(BAD_SCRIPTS) } else { *rng.pick(OK_SCRIPTS) };
            let script_path = format!("{dir}/{script}");
            let mut attrs = format!(" check-lua=\"{script_path}\"");
            if rng.chance(1, 2) { attrs += &format!(" name=\"n{made}\""); }
            if rng.chance(1, 3) { attrs += &format!(" note='{}'", ["x y", "é", "a=b", ""][rng.below(4)]); }
            if rng.chance(1, 4) { attrs += &format!(" severity=\"{}\"", ["warning", "info", "error", "Hint"][rng.below(4)]); }
            // one scripted block in four carries a rule of a synchronous validator on the SAME tag (detected together)
            if rng.chance(1, 4) { attrs += [" keep-sorted", " keep-unique", " line-count=\">=0\"", " line-count=\"<1\"", " keep-sorted=\"desc\""][rng.below(5)]; }
            if rng.chance(1, 3) {
                let p = *rng.pick(PATTERNS);
                attrs += &format!(" check-lua-pattern='{p}'");
                patterns.push(p.to_string());
            }
            text += &format!("{c}<block{attrs}>\n");
            for _ in 0..rng.below(4) { text += *rng.pick(CONTENT); text += "\n"; }
            text += &format!("{c}</block>\n");
            if rng.chance(1, 3) { text += "filler\n"; }
            let out = match script {
                "echo.lua" | "busy_echo.lua" => json!({"echo": true}),
                "nil.lua" => Value::Null,
                "str.lua" => json!({"data": {"script": script_path, "lua_error": "fixed message"}}),
                _ => json!({"err": "lua-error"}),
            };
            asyncs.push(json!({"v": "check-lua", "arg": script_path, "out": out}));
        }
        files.push((path, Some(text)));
    }
    // one case in three: a block of a synchronous validator that is violated (mostly of a severity that does not fail the run),
    // in a file of its own or appended to a scripted file - a failing script must still fail the run, a passing one must not hide it
    if rng.chance(1, 3) {
        let sev = ["warning", "info", "hint", "warning", "error"][rng.below(5)];
        let rule = ["keep-sorted", "keep-unique", "line-count=\"<1\""][rng.below(3)];
        let block = format!("# <block name=\"sync\" {rule} severity=\"{sev}\">\nb\na\nb\n# </block>\n");
        let hash: Vec<usize> = files.iter().enumerate().filter(|(_, f)| f.0.ends_with(".py") || f.0.ends_with(".sh")).map(|(k, _)| k).collect();
        if !hash.is_empty() && rng.chance(1, 2) {
            let k = *rng.pick(&hash);
            if let Some(t) = files[k].1.as_mut() { t.push_str(&block); }
        } else {
            files.push(("w.py".to_string(), Some(block)));
        }
    }
    let mut walk: Vec<String> = files.iter().map(|f| f.0.clone()).collect();
    rng.shuffle(&mut walk);
    Case {
        files,
        allow: walk.clone(),
        walk,
        scan: true,
        patterns,
        asyncs,
        meta: json!({"gen": "lua", "i": i, "blocks": total, "failing": nfail}),
        ..Default::default()
    }
}
