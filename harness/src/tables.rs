//! Exhaustive dumps of the Rust std character tables the model depends on.
use serde_json::json;

fn ranges(pred: impl Fn(char) -> bool) -> Vec<(u32, u32)> {
    let mut out: Vec<(u32, u32)> = vec![];
    for cp in 0..=0x10FFFFu32 {
        if let Some(c) = char::from_u32(cp) {
            if pred(c) {
                match out.last_mut() {
                    Some(last) if last.1 + 1 == cp => last.1 = cp,
                    _ => out.push((cp, cp)),
                }
            }
        }
    }
    out
}

pub fn run(_args: &[String]) -> anyhow::Result<()> {
    let alnum = ranges(|c| c.is_alphanumeric());
    let white = ranges(|c| c.is_whitespace());
    // non-ASCII chars whose lower-casing contains an ASCII letter (matters for `to_lowercase() == "asc"`)
    let mut lower_ascii = vec![];
    for cp in 0x80..=0x10FFFFu32 {
        if let Some(c) = char::from_u32(cp) {
            let l: String = c.to_lowercase().collect();
            if l.chars().any(|x| x.is_ascii_alphabetic()) {
                lower_ascii.push(json!([cp, l]));
            }
        }
    }
    // ASCII lower-casing agrees with the model's asciiLower
    let ascii_ok = (0u8..128).all(|b| {
        let c = b as char;
        c.to_lowercase().collect::<String>() == c.to_ascii_lowercase().to_string()
    });
    // the live tables of the implementation (the second tie of the generated Lean tables: the translator reads the source,
    // these are read from the running code): registered suffix -> grammar class (smallest suffix sharing the same parser
    // object), and the names of the validator detectors in order
    let parsers = blockwatch::language_parsers::language_parsers()?;
    let mut ext_live: Vec<(String, String)> = vec![];
    for (k, p) in parsers.iter() {
        let mut class: Vec<String> = parsers
            .iter()
            .filter(|(_, q)| std::rc::Rc::ptr_eq(p, q))
            .map(|(e, _)| e.to_string_lossy().into_owned())
            .collect();
        class.sort();
        ext_live.push((k.to_string_lossy().into_owned(), class[0].clone()));
    }
    ext_live.sort();
    // the live severity parser on every case variant of a fixed list of candidate names (and a few non-names)
    let mut severity_live: Vec<(String, Option<u8>)> = vec![];
    for base in ["Error", "Warning", "Info", "Hint", "Information", "Warn", "Err", "Fatal", "Note", "Off", "Debug", "Trace", "Critical", "None", "1", "2", "", " error", "error ", "Errор"] {
        let swapped: String = base.chars().map(|c| if c.is_ascii_uppercase() { c.to_ascii_lowercase() } else { c.to_ascii_uppercase() }).collect();
        let alternating: String = base.chars().enumerate().map(|(k, c)| if k % 2 == 0 { c.to_ascii_lowercase() } else { c.to_ascii_uppercase() }).collect();
        for s in [base.to_string(), base.to_ascii_lowercase(), base.to_ascii_uppercase(), swapped, alternating] {
            if severity_live.iter().any(|(t, _)| *t == s) { continue; }
            let v = <blockwatch::blocks::BlockSeverity as std::str::FromStr>::from_str(&s).ok().map(|v| v as u8);
            severity_live.push((s, v));
        }
    }
    let detectors_live: Vec<&str> = blockwatch::validators::DETECTOR_FACTORIES.iter().map(|(n, _)| *n).collect();
    println!(
        "{}",
        json!({"alnum": alnum, "white": white, "lower_to_ascii": lower_ascii, "ascii_lower_ok": ascii_ok,
               "ext_live": ext_live, "detectors_live": detectors_live, "severity_live": severity_live})
    );
    Ok(())
}
