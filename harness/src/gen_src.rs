//! Source-file generator with constructed ground truth, for each of the 39 registered suffixes:
//! files are assembled from the language's comment forms, code lines and string literals carrying
//! decoy tags; the generator knows which tags it wrote inside comments (C03, C05, C10, C12).
use crate::core::{Case, Ctx};
use crate::rng::Rng;
use serde_json::{Value, json};

pub struct L {
    pub exts: &'static [&'static str],
    pub line: &'static [&'static str],
    pub block: Option<(&'static str, &'static str)>,
    pub star: bool,
    pub code: &'static [&'static str],
    pub decoy: &'static [&'static str],
    pub header: &'static str,
    pub footer: &'static str,
    pub blank_between: bool,
}

const D: &str = "<block name='decoy'>";

pub const LANGS: &[L] = &[
    L { exts: &["py", "pyi"], line: &["#", "#", "#!"], block: None, star: false, code: &["x = 1", "def f():\n    return 2", ""], decoy: &["s = \"<block name='decoy'>\"", "t = '</block>'"], header: "", footer: "", blank_between: false },
    L { exts: &["rs"], line: &["//", "///", "//!"], block: Some(("/*", "*/")), star: true, code: &["const X: i32 = 1;", "fn f() {}", ""], decoy: &["const S: &str = \"<block name='decoy'>\";", "const T: &str = \"</block>\";"], header: "", footer: "", blank_between: false },
    L { exts: &["c", "h", "cc", "cpp"], line: &["//"], block: Some(("/*", "*/")), star: true, code: &["int x = 1;", "void f(void) {}", ""], decoy: &["const char *s = \"<block name='decoy'>\";", "const char *t = \"</block>\";"], header: "", footer: "", blank_between: false },
    L { exts: &["cs"], line: &["//", "///"], block: Some(("/*", "*/")), star: true, code: &["class A { }", ""], decoy: &["class B { string s = \"<block name='decoy'>\"; }"], header: "", footer: "", blank_between: false },
    L { exts: &["css"], line: &[], block: Some(("/*", "*/")), star: true, code: &["a { color: red; }", ""], decoy: &["a::before { content: \"<block name='decoy'>\"; }"], header: "", footer: "", blank_between: false },
    L { exts: &["go"], line: &["//"], block: Some(("/*", "*/")), star: true, code: &["var x = 1", "func f() {}", ""], decoy: &["var s = \"<block name='decoy'>\"", "var t = `</block>`"], header: "package main\n", footer: "", blank_between: false },
    L { exts: &["go.mod", "go.sum", "go.work"], line: &["//"], block: None, star: false, code: &["module example.com/x", "go 1.22", ""], decoy: &[], header: "", footer: "", blank_between: false },
    L { exts: &["html", "htm"], line: &[], block: Some(("<!--", "-->")), star: false, code: &["<p>text</p>", "<div>a</div>", ""], decoy: &["<p title=\"x\">&lt;block name='decoy'&gt;</p>", "<div><block name=\"decoy\"></block></div>"], header: "", footer: "", blank_between: false },
    L { exts: &["xml"], line: &[], block: Some(("<!--", "-->")), star: false, code: &["<a>t</a>", "<b/>", ""], decoy: &["<block name=\"decoy\"></block>", "<c><![CDATA[ <block name='decoy'> ]]></c>"], header: "<root>\n", footer: "</root>\n", blank_between: false },
    L { exts: &["java"], line: &["//"], block: Some(("/*", "*/")), star: true, code: &["class A {}", ""], decoy: &["class B { String s = \"<block name='decoy'>\"; }"], header: "", footer: "", blank_between: false },
    L { exts: &["js", "jsx"], line: &["//"], block: Some(("/*", "*/")), star: true, code: &["let x = 1;", "function f() {}", ""], decoy: &["let s = \"<block name='decoy'>\";", "let t = `</block>`;"], header: "", footer: "", blank_between: false },
    // TypeScript proper knows angle-bracket type assertions (`<T>expr`); under the TSX grammar the same text opens a JSX element
    L { exts: &["ts", "d.ts"], line: &["//"], block: Some(("/*", "*/")), star: true, code: &["let x: number = 1;", "function f(): void {}", "", "let el = <HTMLElement>document.body;", "const n = <number>(<unknown>x);"], decoy: &["let s: string = \"<block name='decoy'>\";"], header: "", footer: "", blank_between: false },
    L { exts: &["tsx"], line: &["//"], block: Some(("/*", "*/")), star: true, code: &["let x: number = 1;", "function f(): void {}", ""], decoy: &["let s: string = \"<block name='decoy'>\";"], header: "", footer: "", blank_between: false },
    L { exts: &["kt", "kts"], line: &["//"], block: Some(("/*", "*/")), star: true, code: &["val x = 1", "fun f() {}", ""], decoy: &["val s = \"<block name='decoy'>\""], header: "", footer: "", blank_between: false },
    L { exts: &["Makefile", "makefile", "mk"], line: &["#", "#", "#!"], block: None, star: false, code: &["X = 1", "all:\n\techo hi", ""], decoy: &["Y = \"<block name='decoy'>\""], header: "", footer: "", blank_between: false },
    L { exts: &["md", "markdown"], line: &["[//]: # ("], block: Some(("<!--", "-->")), star: false, code: &["Some text.", "# Title", ""], decoy: &["Inline `<block name='decoy'>` code.", "```\n<!-- <block name='decoy'> -->\n```"], header: "", footer: "", blank_between: true },
    L { exts: &["php", "phtml"], line: &["//", "#"], block: Some(("/*", "*/")), star: true, code: &["$x = 1;", "function f() {}", ""], decoy: &["$s = \"<block name='decoy'>\";"], header: "<?php\n", footer: "", blank_between: false },
    L { exts: &["rb"], line: &["#", "#", "#!"], block: Some(("=begin", "=end")), star: false, code: &["x = 1", "def f; end", ""], decoy: &["s = \"<block name='decoy'>\""], header: "", footer: "", blank_between: false },
    L { exts: &["sh", "bash"], line: &["#"], block: None, star: false, code: &["x=1", "f() { :; }", ""], decoy: &["s=\"<block name='decoy'>\"", "#! <block name='decoy'>"], header: "#!/bin/sh\n", footer: "", blank_between: false },
    L { exts: &["sql"], line: &["--"], block: Some(("/*", "*/")), star: true, code: &["SELECT 1;", ""], decoy: &["SELECT '<block name=\"decoy\">';"], header: "", footer: "", blank_between: false },
    L { exts: &["swift"], line: &["//"], block: Some(("/*", "*/")), star: true, code: &["let x = 1", "func f() {}", ""], decoy: &["let s = \"<block name='decoy'>\""], header: "", footer: "", blank_between: false },
    L { exts: &["toml"], line: &["#", "#", "#!"], block: None, star: false, code: &["x = 1", ""], decoy: &["s = \"<block name='decoy'>\""], header: "", footer: "", blank_between: false },
    L { exts: &["yaml", "yml"], line: &["#", "#", "#!"], block: None, star: false, code: &["x: 1", ""], decoy: &["s: \"<block name='decoy'>\""], header: "", footer: "", blank_between: false },
];

pub fn lang_for(ext: &str) -> &'static L {
    LANGS.iter().find(|l| l.exts.contains(&ext)).expect("language")
}

pub fn all_exts() -> Vec<&'static str> {
    LANGS.iter().flat_map(|l| l.exts.iter().copied()).collect()
}

/// a tag to be written into a comment
#[derive(Clone)]
pub struct TagSpec {
    pub text: String,          // the tag as written, e.g. `<block name="b0" keep-unique>`
    pub start: bool,
    pub name: Option<String>,
    pub attrs: Vec<(String, String)>,
}

const NAME_CHARS: &[&str] = &["a", "b", "Z", "0", "9", "-", "_", "é", "ж", "名", "ß"];
const VALUE_CHARS: &[&str] = &["a", "B", "1", " ", "#", ">", "<", "=", "/", "é", "→", "\t", ".", ":", ",", "&quot;", "x y", "</block>", "<block>", "\\", "\\", "x\\)", "y\\(x\\)",
    // the other kind of quote inside a quoted value (an odd or even number of them)
    "'", "don't", "\"", "\"q\"", "it's", "'' '"];
const SPACES: &[&str] = &[" ", "  ", "\t", " \t "];

fn rand_name(rng: &mut Rng) -> String {
    let n = 1 + rng.below(4);
    let mut s = String::from(*rng.pick(&["a", "k", "data", "x"]));
    for _ in 0..n { s += *rng.pick(NAME_CHARS); }
    s.replace("--", "-_")
}

/// a start tag with random extra attributes in random layouts; `rules` are appended verbatim
pub fn start_tag(rng: &mut Rng, name: Option<&str>, rules: &[(String, String)], multiline_ok: bool, fancy: bool) -> TagSpec {
    let mut attrs: Vec<(String, String)> = vec![];
    let mut text = String::from("<block");
    let sp = |rng: &mut Rng| -> String {
        if multiline_ok && rng.chance(1, 8) { "\n   ".to_string() } else { rng.pick(SPACES).to_string() }
    };
    let push = |rng: &mut Rng, text: &mut String, k: &str, v: Option<&str>, attrs: &mut Vec<(String, String)>| {
        *text += &sp(rng);
        *text += k;
        match v {
            None => attrs.push((k.to_string(), String::new())),
            Some(v) => {
                let eq = if fancy { ["=", " =", "= ", " = "][rng.below(4)] } else { "=" };
                *text += eq;
                let plain = !v.is_empty() && v.chars().all(|c| c.is_alphanumeric() || c == '-' || c == '_');
                if plain && fancy && rng.chance(1, 3) {
                    *text += v;
                } else if !v.contains('"') && (v.contains('\'') || rng.chance(2, 3)) {
                    *text += &format!("\"{v}\"");
                } else if !v.contains('\'') {
                    *text += &format!("'{v}'");
                } else {
                    // both quote kinds: drop double quotes from the value
                    let v2 = v.replace('"', "");
                    *text += &format!("\"{v2}\"");
                    attrs.push((k.to_string(), v2));
                    return;
                }
                attrs.push((k.to_string(), v.to_string()));
            }
        }
    };
    if let Some(n) = name { push(rng, &mut text, "name", Some(n), &mut attrs); }
    if fancy {
        for _ in 0..rng.below(4) {
            let k = rand_name(rng);
            if rng.chance(1, 4) {
                push(rng, &mut text, &k, None, &mut attrs);
            } else {
                let n = rng.below(4);
                let v: String = (0..n).map(|_| *rng.pick(VALUE_CHARS)).collect();
                push(rng, &mut text, &k, Some(&v), &mut attrs);
            }
        }
        if rng.chance(1, 6) && !attrs.is_empty() {
            // duplicate attribute: the last one wins
            let k = attrs[rng.below(attrs.len())].0.clone();
            if k != "name" { push(rng, &mut text, &k, Some("dup"), &mut attrs); }
        }
    }
    for (k, v) in rules { push(rng, &mut text, k, Some(v), &mut attrs); }
    // attribute names are case-sensitive: `Name`, `SEVERITY`, `Keep-Sorted` are attributes of their own (several spellings may
    // sit in one tag with different values) and never stand in for the built-in ones
    if (fancy && rng.chance(1, 3)) || (!rules.is_empty() && rng.chance(1, 6)) {
        let twins: [(&str, &[&str]); 6] = [("Name", &["Other", "x y"]), ("NAME", &["third"]), ("Severity", &["warning", "hint", "info"]),
                                            ("SEVERITY", &["error", "warning"]), ("sEVERITY", &["info"]), ("Keep-Sorted", &["desc"])];
        let first = rng.below(6);
        for d in 0..1 + rng.below(3) {
            let (k, vs) = twins[(first + d * 2) % 6];
            if attrs.iter().any(|a| a.0 == k) { continue; }
            let v = *rng.pick(vs);
            push(rng, &mut text, k, Some(v), &mut attrs);
        }
    }
    if fancy && rng.chance(1, 4) { text += *rng.pick(SPACES); }
    text += ">";
    TagSpec { text, start: true, name: name.map(String::from), attrs }
}

pub fn end_tag(rng: &mut Rng, fancy: bool) -> TagSpec {
    let text = if fancy && rng.chance(1, 3) {
        format!("<{}/{}block{}>", ["", " ", "\t"][rng.below(3)], ["", " "][rng.below(2)], ["", " ", "  "][rng.below(3)])
    } else {
        "</block>".to_string()
    };
    TagSpec { text, start: false, name: None, attrs: vec![] }
}

pub const OPEN_QUOTE_LOOKALIKES: &[&str] = &["<block name=\"x", "<block name='y", "<block a=1 b=\"2 >"];
pub const LOOKALIKES: &[&str] = &[
    "<blockquote>", "<block/>", "<Block>", "< block>", "<block", "</block x>", "<blocks>",
    "<block-x>", "<block name=>", "</ blok>", "<block name=\"q\"/>", "a < b > c", "<>", "<block\u{a0}name=\"nbsp\">", "</block", "<block name = >",
    "<BLOCK>", "</Block>", "<block name=\"a\" =\"b\">",
];

/// random Dyck word over `pairs` pairs: true = start, false = end
pub fn dyck(rng: &mut Rng, pairs: usize, max_depth: usize) -> Vec<bool> {
    let mut w = vec![];
    let (mut open, mut left) = (0usize, pairs);
    while left > 0 || open > 0 {
        let can_open = left > 0 && open < max_depth;
        if can_open && (open == 0 || rng.chance(1, 2)) {
            w.push(true); open += 1; left -= 1;
        } else {
            w.push(false); open -= 1;
        }
    }
    w
}

pub struct FileOut {
    pub text: String,
    pub expected: Vec<Value>,      // blocks the generator wrote in comments: name + attrs, in source order
    pub tags: Vec<(String, bool)>, // tags in source order (text, is_start)
    pub noise_has_tag: bool,
}

pub struct Opts {
    pub fancy: bool,
    pub rules: bool,
    pub crlf: bool,
    pub lookalikes: bool,
}

/// comment text around the given tags (noise free of block tags, unless look-alikes are requested)
fn comment_body(rng: &mut Rng, tags: &[&TagSpec], opts: &Opts) -> String {
    let noise = ["", "note", "é ü", "a > b", "x=1", "see <b>bold</b>", "<i>", "1 < 2", "→", "# x", "a // b"];
    let mut s = String::new();
    s += *rng.pick(&noise);
    if opts.lookalikes && rng.chance(1, 3) { s += " "; s += *rng.pick(LOOKALIKES); }
    for t in tags {
        s += " ";
        s += &t.text;
        if rng.chance(1, 3) { s += " "; s += *rng.pick(&noise); }
        if opts.lookalikes && rng.chance(1, 4) { s += " "; s += *rng.pick(LOOKALIKES); s += " "; }
    }
    if opts.lookalikes && rng.chance(1, 6) {
        // a start tag whose quote is never closed inside the comment (nothing with a quote follows)
        s += " ";
        s += *rng.pick(OPEN_QUOTE_LOOKALIKES);
    }
    s
}

const RULE_SETS: &[&[(&str, &str)]] = &[
    &[("line-count", "<0")],
    &[("keep-unique", "")],
    &[("keep-sorted", "asc")],
    &[("line-pattern", "^[a-z]+$")],
    &[("line-count", "<0"), ("keep-unique", "")],
    &[("keep-unique", "(?P<value>[a-z]+)")],
    &[("keep-sorted", "desc"), ("keep-sorted-pattern", "=(?P<value>\\w+)")],
    &[("line-count", ">=100"), ("severity", "warning")],
];
const CONTENT: &[&str] = &["b", "a", "  a", "b  ", "k=b", " k=a", "é=a", "zz", "", "  ", "A1", "x y"];

/// one generated file of language `l`
pub fn gen_file(rng: &mut Rng, l: &L, opts: &Opts, patterns: &mut Vec<String>) -> FileOut {
    gen_file_c(rng, l, opts, patterns, None)
}

/// `corrupt`: delete (0 mod 3), duplicate (1 mod 3) or defuse (2 mod 3) the tag selected by the number
pub fn gen_file_c(rng: &mut Rng, l: &L, opts: &Opts, patterns: &mut Vec<String>, corrupt: Option<usize>) -> FileOut {
    let pairs = if corrupt.is_some() { 1 + rng.below(4) } else { rng.below(5) };
    let word = dyck(rng, pairs, 3);
    let mut specs: Vec<TagSpec> = vec![];
    let mut expected = vec![];
    let mut counter = 0;
    let multiline_tag_ok = l.block.is_some() && l.exts[0] != "md";
    for is_start in &word {
        if *is_start {
            let name = format!("b{counter}");
            counter += 1;
            let mut rules: Vec<(String, String)> = if opts.rules && rng.chance(3, 4) {
                rng.pick(RULE_SETS).iter().map(|(k, v)| (k.to_string(), v.to_string())).collect()
            } else { vec![] };
            if opts.rules && rng.chance(1, 2) && !rules.iter().any(|(k, _)| k == "severity") && !rules.is_empty() {
                let sev = ["error", "warning", "info", "hint", "Warning", "HINT", "ERROR", "Info"][rng.below(8)];
                rules.push(("severity".to_string(), sev.to_string()));
            }
            if l.exts[0] == "md" && rules.iter().any(|(_, v)| v.contains('(')) {
                // parentheses would collide with the `[//]: # (…)` title delimiter
                rules = vec![("line-count".to_string(), "<0".to_string())];
            }
            for (k, v) in &rules {
                if (k.ends_with("pattern") || k == "keep-unique") && !v.is_empty() { patterns.push(v.clone()); }
            }
            let named = !opts.fancy || rng.chance(5, 6);
            let ml = multiline_tag_ok && rng.chance(1, 4);
            let t = start_tag(rng, if named { Some(&name) } else { None }, &rules, ml, opts.fancy);
            let mut m = serde_json::Map::new();
            for (k, v) in &t.attrs { m.insert(k.clone(), json!(v)); }
            expected.push(json!({"attrs": m, "tag": t.text}));
            specs.push(t);
        } else {
            specs.push(end_tag(rng, opts.fancy));
        }
    }
    if let Some(sel) = corrupt {
        let k = (sel / 3) % specs.len();
        match sel % 3 {
            0 => { specs.remove(k); }
            1 => { let d = specs[k].clone(); specs.insert(k, d); }
            // "commented out" / defused: the tag is left in place but no longer spells a tag
            // (only when nothing else in the tag's text could be read as a tag: attribute values may hold `<block>`)
            _ if specs[k].text.matches('<').count() != 1 || specs[k].text.matches("block").count() != 1 => { specs.remove(k); }
            _ => {
                let t = specs[k].text.clone();
                specs[k].text = if t.contains("<block") { t.replacen("<block", ["<blockx", "<-block", "< block", "&lt;block"][rng.below(4)], 1) }
                    else { t.replacen("block", ["blockx", "blocks", "bloc"][rng.below(3)], 1) };
            }
        }
    }
    // distribute tags over comments: each comment takes 1 (mostly) or 2-3 consecutive tags
    let nl = if opts.crlf { "\r\n" } else { "\n" };
    let mut text = String::from(l.header);
    // one file in twelve (of the languages without a mandatory first line) starts with a UTF-8 byte order mark
    if l.header.is_empty() && !["md", "yaml", "toml", "Makefile", "go.mod"].contains(&l.exts[0]) && rng.chance(1, 12) { text.push('\u{feff}'); }
    let mut i = 0;
    let put_code = |rng: &mut Rng, text: &mut String, inside: bool| {
        let k = rng.below(3);
        for _ in 0..k {
            let line = if inside && opts.rules { rng.pick(CONTENT).to_string() }
                else if !l.decoy.is_empty() && rng.chance(1, 4) { rng.pick(l.decoy).to_string() }
                else { rng.pick(l.code).to_string() };
            if inside && opts.rules && l.exts[0] == "md" && line.trim().is_empty() { continue; }
            // content lines of rule-bearing blocks must not break the grammar (tree-sitter's error recovery may
            // swallow a later comment): they are written as tag-free comment lines, or as plain text in markup
            let line = if inside && opts.rules && !line.trim().is_empty() {
                if l.exts[0] == "md" || l.exts[0] == "html" || l.exts[0] == "xml" { line }
                else if !l.line.is_empty() { format!("{}{} {}", &line[..line.len() - line.trim_start().len()], l.line[0], line.trim()) }
                else { format!("/* {} */", line.trim()) }
            } else { line };
            *text += &line.replace('\n', nl);
            *text += nl;
        }
        if l.blank_between { *text += nl; }
    };
    put_code(rng, &mut text, false);
    let mut depth = 0;
    // Markdown pairs its two comment families separately: one family per generated file
    let md_html = rng.chance(1, 2);
    while i < specs.len() {
        let take = if rng.chance(1, 5) { (2 + rng.below(2)).min(specs.len() - i) } else { 1 };
        let group: Vec<&TagSpec> = specs[i..i + take].iter().collect();
        let has_multiline = group.iter().any(|t| t.text.contains('\n'));
        let body = comment_body(rng, &group, opts);
        let use_block = if l.exts[0] == "md" { md_html } else { match (l.line.is_empty(), &l.block) {
            (true, _) => true,
            (false, None) => false,
            (false, Some(_)) => has_multiline || rng.chance(1, 3),
        } };
        let no_indent = ["md", "rb", "yaml", "toml", "Makefile", "go.mod"].contains(&l.exts[0]);
        let indent = if no_indent { "" } else { ["", "  ", "\t"][rng.below(3)] };
        // a genuine comment may sit inside the interpolated code of a string literal (below a `string` node of the syntax
        // tree): tags in it count like in any other comment
        let interp: Option<(&str, &str)> = match l.exts[0] {
            "js" => Some(("let q = `a ${ /*", "*/ 1 } b`;")),
            "ts" => Some(("let q: string = `a ${ /*", "*/ 1 } b`;")),
            _ => None,
        };
        if let (Some((po, pc)), false, true) = (interp, has_multiline, !body.contains('`') && !body.contains("${") && rng.chance(1, 5)) {
            text += &format!("{indent}{po} {body} {pc}{nl}");
        } else if use_block {
            let (o, c) = l.block.unwrap();
            if o == "=begin" {
                text += &format!("=begin{nl}{}{nl}=end{nl}", body.replace('\n', nl));
            } else {
                let container = if l.exts[0] == "md" && !has_multiline && rng.chance(1, 3) { ["> ", "- ", "  - ", "> > "][rng.below(4)] } else { "" };
                let style = if container.is_empty() { rng.below(4) } else { text += container; 0 };
                // decorated continuation lines; the blanks in front of the `*` may be any Unicode white space
                // (inside a multi-line TAG only ASCII blanks separate attributes, so the decoration stays ASCII there)
                let star = if l.star && rng.chance(1, 2) {
                    if has_multiline { " * " } else { [" * ", " * ", "\t* ", "\u{a0}* ", "\u{3000}*", " \u{a0} * ", "\u{2003}* "][rng.below(7)] }
                } else { "   " };
                match style {
                    0 => text += &format!("{indent}{o}{}{c}", body.replace('\n', nl)),
                    1 => text += &format!("{indent}{o} intro{nl}{indent}{star}{}{nl}{indent} {c}", body.replace('\n', &format!("{nl}{indent}{star}"))),
                    2 => text += &format!("{indent}{o}{}{nl}{indent}{star}trailing{nl}{indent}{star}more {c}", body.replace('\n', nl)),
                    _ => text += &format!("{indent}{o}{o2} {} {c}", body.replace('\n', nl), o2 = if o == "/*" { "*" } else { "" }),
                }
                // trailing code on the comment's last line (one-line block comment with trailing code)
                if rng.chance(1, 5) && o == "/*" && ["rs", "c", "js", "java", "ts", "go", "cs"].contains(&l.exts[0]) { text += " "; text += l.code[0]; }
                text += nl;
            }
        } else {
            let o = rng.pick(l.line);
            if *o == "[//]: # (" {
                let delim = rng.below(3);
                let b = body.replace(['(', ')', '"', '\''], " ");
                // keep the tag's own quotes out of the title delimiter's way: use the delimiter not used by the tags
                let tag_has_dq = body.contains('"');
                let tag_has_sq = body.contains('\'');
                let _ = b;
                let (od, cd) = match delim {
                    0 => ("(", ")"),
                    1 if !tag_has_dq => ("\"", "\""),
                    2 if !tag_has_sq => ("'", "'"),
                    _ => ("(", ")"),
                };
                // a title in parentheses may hold parentheses that are backslash-escaped (kept as written); others are blanked
                // (a parenthesis is escaped iff an odd number of backslashes stands directly before it)
                let only_escaped = {
                    let cs: Vec<char> = body.chars().collect();
                    (0..cs.len()).all(|i| {
                        if cs[i] != '(' && cs[i] != ')' { return true; }
                        let mut k = 0;
                        while k < i && cs[i - 1 - k] == '\\' { k += 1; }
                        k % 2 == 1
                    })
                };
                let body2 = if od == "(" && !only_escaped { body.replace(['(', ')'], " ") } else { body.clone() };
                // the title may start on the line after the destination
                let brk = if rng.chance(1, 4) { format!("{nl}  ") } else { " ".to_string() };
                text += &format!("{nl}[//]: #{brk}{od}{}{cd}{nl}{nl}", body2.replace('\n', " "));
            } else {
                text += &format!("{indent}{o} {}{nl}", body.replace('\n', " "));
            }
        }
        for t in &group { if t.start { depth += 1 } else { depth -= 1 } }
        i += take;
        if l.blank_between { text += nl; }
        put_code(rng, &mut text, depth > 0);
    }
    text += l.footer;
    FileOut { text, expected, tags: specs.iter().map(|t| (t.text.clone(), t.start)).collect(), noise_has_tag: false }
}

/// C03/C05/C10: well-formed files of one suffix
pub fn generate(_ctx: &mut Ctx, seed: u64, i: usize, mode: &str) -> Case {
    let mut rng = Rng::new(seed, i as u64);
    let exts = all_exts();
    let ext = exts[i % exts.len()];
    let l = lang_for(ext);
    let opts = Opts {
        fancy: mode == "tags" || rng.chance(1, 3),
        rules: mode == "diag" || (mode == "blocks" && rng.chance(1, 4)),
        crlf: rng.chance(1, 6),
        lookalikes: mode == "tags" || rng.chance(1, 4),
    };
    let mut patterns = vec![];
    let f = gen_file(&mut rng, l, &opts, &mut patterns);
    let base = ["f", "my.file", "x-1"][rng.below(3)];
    let path = if ["Makefile", "makefile", "go.mod", "go.sum", "go.work"].contains(&ext) && rng.chance(1, 2) {
        format!("dir/{ext}")
    } else {
        format!("src/{base}.{ext}")
    };
    Case {
        files: vec![(path.clone(), Some(f.text))],
        walk: vec![path.clone()],
        allow: vec![path],
        scan: true,
        patterns,
        meta: json!({"gen": "src", "mode": mode, "ext": ext, "i": i, "expected": f.expected, "ntags": f.tags.len()}),
        ..Default::default()
    }
}

/// C12: 1-3 files, one of which has one tag deleted or duplicated
/// files no grammar is registered for that share their LAST extension with a name registered as a whole (`go.work.sum` next
/// to `go.sum`, `notes.mod` next to `go.mod`): they hold damaged tags and must be ignored, and their presence - before or
/// after the registered file in the walk - must not change how the registered file is treated
pub fn add_decoys(rng: &mut Rng, files: &mut Vec<(String, Option<String>)>) {
    let mut extra = vec![];
    for (path, _) in files.iter() {
        let (dir, name) = match path.rfind('/') { Some(k) => (&path[..=k], &path[k + 1..]), None => ("", path.as_str()) };
        if !["go.mod", "go.sum", "go.work"].contains(&name) || !rng.chance(2, 3) { continue; }
        let last = name.rsplit('.').next().unwrap();
        let decoy = [format!("{dir}go.work.{last}"), format!("{dir}notes.{last}"), format!("x.{last}"), format!("{dir}ago.{last}")][rng.below(4)].clone();
        extra.push((decoy, Some("// <block name=\"decoy\">\nnot closed\n".to_string())));
    }
    for e in extra { if !files.iter().any(|f| f.0 == e.0) { files.push(e); } }
}

pub fn generate_unbalanced(_ctx: &mut Ctx, seed: u64, i: usize) -> Case {
    let mut rng = Rng::new(seed, i as u64);
    let exts = all_exts();
    let nfiles = 1 + rng.below(3);
    let bad = rng.below(nfiles);
    let mut files = vec![];
    let mut patterns = vec![];
    let mut bad_path = String::new();
    let mut op = "";
    for k in 0..nfiles {
        let ext = exts[(i + k * 7) % exts.len()];
        let l = lang_for(ext);
        let opts = Opts { fancy: rng.chance(1, 3), rules: rng.chance(1, 3), crlf: rng.chance(1, 6), lookalikes: rng.chance(1, 4) };
        let path = if ["Makefile", "makefile", "go.mod", "go.sum", "go.work"].contains(&ext) { format!("d{k}/{ext}") } else { format!("src/f{k}.{ext}") };
        // one damaged file in ten is a Markdown file using BOTH comment families, damaged in one family or in both in
        // opposite directions (a surplus start tag in one, a surplus end tag in the other - anywhere in the file): the two
        // families are paired separately, so the surplus tags never cancel
        if k == bad && rng.chance(1, 10) {
            let link = |t: &str| format!("[//]: # ({t})");
            let html = |t: &str| format!("<!-- {t} -->");
            let mut parts: Vec<String> = vec![
                format!("{}\n\nlinked text\n\n{}", link("<block name=\"l1\">"), link("</block>")),
                format!("{}\nhtml text\n{}", html("<block name=\"h1\">"), html("</block>")),
                "# Title\n\nSome text.".to_string(),
            ];
            match rng.below(4) {
                0 => { parts.push(link("<block name=\"open\">")); parts.push(html("</block>")); }
                1 => { parts.push(html("<block name=\"open\">")); parts.push(link("</block>")); }
                2 => { parts.push(link("<block name=\"open\">")); }
                _ => { parts.push(html("</block>")); }
            }
            rng.shuffle(&mut parts);
            op = "md-mixed-families";
            bad_path = format!("src/f{k}.md");
            files.push((bad_path.clone(), Some(parts.join("\n\n") + "\n")));
            continue;
        }
        let f = if k == bad {
            let sel = rng.below(1000);
            op = ["delete", "duplicate", "defuse"][sel % 3];
            bad_path = path.clone();
            gen_file_c(&mut rng, l, &opts, &mut patterns, Some(sel))
        } else {
            gen_file(&mut rng, l, &opts, &mut patterns)
        };
        files.push((path, Some(f.text)));
    }
    add_decoys(&mut rng, &mut files);
    let mut walk: Vec<String> = files.iter().map(|f| f.0.clone()).collect();
    rng.shuffle(&mut walk);
    // scan, list-like (no validators matter) and diff mode (every line of every file changed)
    let diff_mode = rng.chance(1, 3);
    // the diff names every file; it changes every line, or one line only (first / last / any), or a few lines: the damaged
    // tag may lie above or below everything the diff touches - the file is in scope all the same
    let style = rng.below(4);
    let changes = if diff_mode {
        Some(files.iter().map(|(p, t)| {
            let n = t.as_ref().unwrap().lines().count().max(1);
            let lines: Vec<usize> = match style {
                0 => (1..=n + 1).collect(),
                1 => vec![1],
                2 => vec![1 + rng.below(n)],
                _ => { let mut v: Vec<usize> = (0..1 + rng.below(3)).map(|_| 1 + rng.below(n)).collect(); v.sort(); v.dedup(); v }
            };
            (p.clone(), lines.into_iter().map(|l| (l, None)).collect())
        }).collect())
    } else { None };
    // diff mode may come with positional globs as well: they match some files, not the damaged one - which is still in scope
    // through the diff and still walked (it is a visible file of the tree)
    let with_globs = diff_mode && rng.chance(1, 3);
    let allow_some: Vec<String> = walk.iter().filter(|p| **p != bad_path && rng.chance(1, 2)).cloned().collect();
    Case {
        files,
        allow: if with_globs { allow_some } else if diff_mode { vec![] } else { walk.clone() },
        walk: if with_globs { walk } else if diff_mode { vec![] } else { walk },
        scan: !diff_mode || with_globs,
        changes,
        patterns,
        meta: json!({"gen": "unbalanced", "i": i, "bad": bad_path, "op": op, "diff_mode": diff_mode}),
        ..Default::default()
    }
}

pub const VALIDATORS: &[&str] = &["affects", "keep-sorted", "keep-unique", "line-pattern", "line-count", "check-ai", "check-lua"];

/// C11 / C14 / C20: 1-4 files of mixed languages, several rules per block, all severities;
/// with `flags` a random subset of the seven validators is given to --enable or --disable
pub fn generate_multi(_ctx: &mut Ctx, seed: u64, i: usize, flags: bool) -> Case {
    let mut rng = Rng::new(seed, i as u64);
    let exts = all_exts();
    let nfiles = 1 + rng.below(4);
    let mut files = vec![];
    let mut patterns = vec![];
    for k in 0..nfiles {
        let ext = exts[(i * 5 + k * 11) % exts.len()];
        let l = lang_for(ext);
        let opts = Opts { fancy: rng.chance(1, 5), rules: true, crlf: rng.chance(1, 8), lookalikes: rng.chance(1, 6) };
        let path = if ["Makefile", "makefile", "go.mod", "go.sum", "go.work"].contains(&ext) { format!("d{k}/{ext}") } else { format!("{}f{k}.{ext}", ["", "src/", "a b/"][rng.below(3)]) };
        let f = gen_file(&mut rng, l, &opts, &mut patterns);
        // one file in eight has a backslash in its NAME (an ordinary character of a Unix file name), and half of those have a
        // twin at the path the name would spell with a slash: two files, two report entries
        if rng.chance(1, 8) && !path.contains('/') {
            files.push((format!("gen\\{path}"), Some(f.text.clone())));
            if rng.chance(1, 2) { files.push((format!("gen/{path}"), Some(f.text))); }
            continue;
        }
        files.push((path, Some(f.text)));
    }
    add_decoys(&mut rng, &mut files);
    let mut walk: Vec<String> = files.iter().map(|f| f.0.clone()).collect();
    rng.shuffle(&mut walk);
    let (mut enabled, mut disabled) = (vec![], vec![]);
    if flags {
        let subset: Vec<String> = VALIDATORS.iter().filter(|_| rng.chance(1, 2)).map(|s| s.to_string()).collect();
        let mut subset = subset;
        if rng.chance(1, 4) && !subset.is_empty() { let d = subset[0].clone(); subset.push(d); } // repeated flag
        if rng.chance(1, 2) { enabled = subset } else { disabled = subset }
    }
    Case {
        files,
        allow: walk.clone(),
        walk,
        scan: true,
        patterns,
        enabled,
        disabled,
        meta: json!({"gen": "multi", "i": i, "flags": flags}),
        ..Default::default()
    }
}
