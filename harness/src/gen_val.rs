//! Generator for the rule validators (C06-C09, C10 key ranges, C13 malformed rules):
//! one file, one or two blocks, lines drawn from boundary alphabets.
use crate::core::{Case, Ctx};
use crate::rng::Rng;
use serde_json::{Value, json};

pub const LINES: &[&str] = &[
    "a", "b", "  b", "b  ", "ab", "B", "", "   ", "\t", "2", "10", "9.5", "-3", "0", "-0", "1e1", "x=2", "x=10 y",
    " x=3", "é", "z\u{3000}", "\u{a0}a", "aé b", "x=2 # c", "ab ", "a b", "10 ", "+5", ".5", "5.", "1.50", "1.5",
    // lines that are blank only by Unicode standards (`str::trim` / `char::is_whitespace`): NBSP, em space, ideographic
    // space, vertical tab, NEL, line separator - alone or mixed with ASCII blanks
    "\u{a0}", " \u{2003}\t", "\u{3000}\u{3000}", "\u{b}", "\u{85} ", "\u{2028}",
    // a lone carriage return INSIDE a line is an ordinary character of that line (`str::lines` breaks at \n and \r\n only)
    "ab\rcd", "x=1\rx=2", "a\r",
];
const DIRS: &[&str] = &["", "asc", "desc", "ASC", "Desc", "dEsC", "  "];
const BAD_DIRS: &[&str] = &[" asc", "up", "ascending", "asc ", "a", "descc"];
// the last two define a `value` group that does not take part in every match (alternation / optional): whole match then
const SORT_PATS: &[&str] = &[r"x=(?P<value>\d+)", r"\w+", r"(?P<value>[a-z]+)", r"^\S+", r"\d+(\.\d+)?",
    r"x=(?P<value>\d+)|^[a-z0-9.]+", r"^\s*(?:x=(?P<value>\d+))?\S*",
    // the short spelling of a named group, and groups that are NOT called `value` (whole match then)
    r"x=(?<value>\d+)", r"(?<value>[a-z]+)\d*", r"x=(?P<val>\d+)", r"x=(?P<value2>\d+) ?(?P<valu>\w*)",
    // a blank at the edge of the pattern is part of the pattern
    r" (?P<value>\w+)", r"\w+ ", "\t\\S+", r" "];
const BAD_PATS: &[&str] = &["(", "[a-", "(?P<value>", "*a"];
const FORMATS: &[&str] = &["numeric", "Numeric", "NUMERIC", "lexicographic", "Lexicographic", "", " numeric "];
const BAD_FORMATS: &[&str] = &["num", "numeric1", "alpha", "numericc"];
const LINE_PATS: &[&str] = &[r"^[a-z]+$", r"\d", r"^x=\d+", r"^\S+$", r"b", r"^$", r"^\s", r"a|b", r" b", r"a ", r" ", r"^.+$", r"^ab$", r"^cd$", r"^\w+=\d$"];
const UNIQ_PATS: &[&str] = &["", "", r"x=(?P<value>\d+)", r"^\w", r"(?P<value>[a-z]+)", r"\d+",
    r"x=(?P<value>\d+)|^[a-z0-9.]+", r"^\s*(?:x=(?P<value>\d+))?\S*",
    r"x=(?<value>\d+)", r"(?<value>[a-z]+)\d*", r"x=(?P<val>\d+)", r"x=(?P<value2>\d+) ?(?P<valu>\w*)",
    r" (?P<value>\w+)", r"\w+ ", r" ",
    // anchored at the end of the line (a line break must not be part of the line), and patterns that match the empty string
    r"^\w+$", r"x=(?P<value>\d+)$", r"^\d*", r"(?P<value>\d*)$"];
const OPS: &[&str] = &["<", "<=", "==", ">=", ">"];
const BAD_COUNTS: &[&str] = &["", " ", "5", "=5", "=<5", "<= five", "<=", "< -1", "<18446744073709551616", "== 5 6", "!=3", "<=5.0", "≤5"];
const SEVERITIES: &[&str] = &["error", "warning", "info", "hint", "Warning", "ERROR", "HiNt"];
const BAD_SEVERITIES: &[&str] = &["", "warn", "fatal", " error", "errors", "1", "2", "4", "0", "7", "42", "255", "007", "+3", "1.0", "error,warning", "e"];

pub struct Lang {
    pub ext: &'static str,
    pub open: &'static str,
    pub close: &'static str,
}
pub const LANGS: &[Lang] = &[
    Lang { ext: "py", open: "# ", close: "" },
    Lang { ext: "rs", open: "// ", close: "" },
    Lang { ext: "c", open: "/* ", close: " */" },
    Lang { ext: "html", open: "<!-- ", close: " -->" },
    Lang { ext: "sql", open: "-- ", close: "" },
    Lang { ext: "java", open: "// ", close: "" },
    Lang { ext: "rs", open: "/* ", close: " */" },
    Lang { ext: "ts", open: "/** ", close: " */" },
    Lang { ext: "xml", open: "<!-- ", close: " -->" },
];

fn quote(v: &str) -> String {
    if !v.contains('"') { format!("\"{v}\"") } else { format!("'{v}'") }
}

pub fn generate(_ctx: &mut Ctx, seed: u64, i: usize, kind: &str, always_malformed: bool) -> Case {
    let mut rng = Rng::new(seed, i as u64);
    let lang = rng.pick(LANGS);
    let mut attrs: Vec<(String, String)> = vec![];
    let mut patterns = vec![];
    let mut asyncs = vec![];
    let mut all_changed = false;
    let mut healthy_lua: Option<String> = None;
    let mut spellings = false;
    let malformed = always_malformed || rng.chance(1, 6);
    match kind {
        "affects" => {
            let v = if malformed { *rng.pick(&["nocolon", "a.py", " ", "", "x.py:a, y", ",", ":a,"]) } else { *rng.pick(&[":blk", "f.py:blk", " : blk ", ":blk,:blk"]) };
            attrs.push(("affects".into(), v.into()));
            all_changed = rng.chance(4, 5);
        }
        "check-lua" => {
            let dir = crate::gen_lua::lua_dir();
            let empties = [format!("{dir}/empty.lua"), format!("{dir}/comment_only.lua"), format!("{dir}/novalidate.lua")];
            let v: String = if rng.chance(1, 2) { rng.pick(&empties).clone() } else { rng.pick(&["", " ", "\t", "does/not/exist.lua", "missing.lua"]).to_string() };
            attrs.push(("check-lua".into(), v.clone()));
            if !v.trim().is_empty() { asyncs.push(json!({"v": "check-lua", "arg": v, "out": {"err": "lua-error"}})); }
            // a healthy scripted block earlier in the same run (its `validate` must not leak into the malformed one)
            if rng.chance(1, 2) {
                let ok = format!("{dir}/nil.lua");
                healthy_lua = Some(ok.clone());
                asyncs.push(json!({"v": "check-lua", "arg": ok, "out": Value::Null}));
            }
            if rng.chance(1, 3) { attrs.push(("check-lua-pattern".into(), "(".into())); }
        }
        "check-ai" => {
            let v = *rng.pick(&["", " ", "must be sorted", "x"]);
            attrs.push(("check-ai".into(), v.into()));
            if !v.trim().is_empty() { asyncs.push(json!({"v": "check-ai", "arg": v, "out": {"err": "ai-error"}})); }
        }
        "keep-sorted" => {
            let dir = if malformed && rng.chance(1, 3) { *rng.pick(BAD_DIRS) } else { *rng.pick(DIRS) };
            attrs.push(("keep-sorted".into(), dir.into()));
            if rng.chance(1, 2) {
                let p = if malformed && rng.chance(1, 3) { *rng.pick(BAD_PATS) } else { *rng.pick(SORT_PATS) };
                attrs.push(("keep-sorted-pattern".into(), p.into()));
                patterns.push(p.to_string());
            }
            if rng.chance(1, 2) {
                let f = if malformed && rng.chance(1, 3) { *rng.pick(BAD_FORMATS) } else { *rng.pick(FORMATS) };
                attrs.push(("keep-sorted-format".into(), f.into()));
            }
        }
        "keep-unique" => {
            if !malformed && rng.chance(1, 8) {
                // keys are TEXTS: a block that is also sorted as numbers may hold several spellings of one number in a row
                // (`1.1`, `1.10`; `2`, `2.0`, `+2`) - they are different keys, none of them is a duplicate
                attrs.push(("keep-unique".into(), "".into()));
                attrs.push(("keep-sorted".into(), ["", "asc"][rng.below(2)].into()));
                attrs.push(("keep-sorted-format".into(), "numeric".into()));
                spellings = true;
            } else {
                let p = if malformed && rng.chance(1, 2) { *rng.pick(BAD_PATS) } else { *rng.pick(UNIQ_PATS) };
                attrs.push(("keep-unique".into(), p.into()));
                if !p.is_empty() { patterns.push(p.to_string()); }
            }
        }
        "line-pattern" => {
            let p = if malformed && rng.chance(1, 2) { *rng.pick(BAD_PATS) } else { *rng.pick(LINE_PATS) };
            attrs.push(("line-pattern".into(), p.into()));
            patterns.push(p.to_string());
        }
        _ => {
            let v = if malformed {
                rng.pick(BAD_COUNTS).to_string()
            } else {
                let sp = |r: &mut Rng| ["", " ", "  ", "\t", "\u{a0}"][r.below(5)].to_string();
                let n = if rng.chance(1, 12) { 18446744073709551615u64 } else { rng.below(8) as u64 };
                let plus = if rng.chance(1, 10) { "+" } else { "" };
                format!("{}{}{}{}{}{}", sp(&mut rng), rng.pick(OPS), sp(&mut rng), plus, n, sp(&mut rng))
            };
            attrs.push(("line-count".into(), v));
        }
    }
    // one case in four of a synchronous rule: a healthy scripted block in the same run with every validator enabled - the
    // run then takes the branch of `run` that joins the sync and the async half; an error (or a violation) of the sync rule
    // must survive that
    let mut with_async = false;
    if !["check-lua", "check-ai"].contains(&kind) && rng.chance(1, 4) {
        let ok = format!("{}/nil.lua", crate::gen_lua::lua_dir());
        healthy_lua = Some(ok.clone());
        asyncs.push(json!({"v": "check-lua", "arg": ok, "out": Value::Null}));
        with_async = true;
    }
    if rng.chance(1, 3) {
        let s = if rng.chance(1, 5) { *rng.pick(BAD_SEVERITIES) } else { *rng.pick(SEVERITIES) };
        attrs.push(("severity".into(), s.into()));
    }
    if rng.chance(1, 2) || kind == "affects" { attrs.push(("name".into(), "blk".into())); }
    // numeric alphabets for numeric formats, to keep the not-a-number error rate low
    let numeric = attrs.iter().any(|(k, v)| k == "keep-sorted-format" && v.trim().eq_ignore_ascii_case("numeric"))
        && !attrs.iter().any(|(k, _)| k == "keep-sorted-pattern");
    let nlines = rng.below(7);
    let lines: Vec<String> = if spellings {
        let groups: [&[&str]; 5] = [&["1", "1.0", "+1", "01"], &["1.1", "1.10", "1.100"], &["2", "2.0", "+2", "2.00"], &["10", "1e1", "10.0"], &["100", "1e2"]];
        let mut out = vec![];
        for g in groups.iter() {
            if rng.chance(2, 3) {
                let mut picks: Vec<&str> = g.iter().filter(|_| rng.chance(1, 2)).copied().collect();
                if rng.chance(1, 4) && !picks.is_empty() { let d = picks[0]; picks.push(d); }   // sometimes a real duplicate
                out.extend(picks.into_iter().map(String::from));
            }
        }
        out
    } else { (0..nlines)
        .map(|_| {
            if numeric && rng.chance(9, 10) {
                ["2", "10", "9.5", "-3", "0", "-0", "1e1", " 7 ", "+5", ".5", "5.", "1.50", "1.5", "", "  ", "100", "-3.5", "nan", "inf", "-inf"][rng.below(20)].to_string()
            } else {
                rng.pick(LINES).to_string()
            }
        })
        .collect() };
    // one case in five: a second synchronous rule on the SAME tag (the detection loop meets two detectors firing on one block,
    // possibly the only block of the run carrying either), every validator enabled
    let mut companion = false;
    if !["check-lua", "check-ai", "affects"].contains(&kind) && rng.chance(1, 5) {
        let comps: [(&str, &str); 4] = [("keep-sorted", "asc"), ("keep-unique", ""), ("line-count", ">=0"), ("line-pattern", ".")];
        let first = rng.below(4);
        for d in 0..1 + rng.below(2) {
            let (k, v) = comps[(first + d) % 4];
            if k == kind || attrs.iter().any(|a| a.0 == k) { continue; }
            if k == "line-pattern" { patterns.push(v.to_string()); }
            attrs.push((k.to_string(), v.to_string()));
            // the companion may compare as numbers: different spellings of one number are different keys all the same
            if k == "keep-sorted" && rng.chance(1, 2) { attrs.push(("keep-sorted-format".to_string(), "numeric".to_string())); }
            companion = true;
        }
    }
    let tag = format!("<block{}>", attrs.iter().map(|(k, v)| format!(" {k}={}", quote(v))).collect::<String>());
    // the same tag with ANOTHER value of the rule (for a second file whose block sits at the same line and column)
    let alt_value: Option<String> = match kind {
        "line-count" => Some([">100", "<1", "==0", ">=3", "<=1"][rng.below(5)].to_string()),
        "keep-sorted" => Some(if attrs[0].1.trim().eq_ignore_ascii_case("desc") { "asc".to_string() } else { "desc".to_string() }),
        "line-pattern" => Some(rng.pick(LINE_PATS).to_string()),
        "keep-unique" => Some(rng.pick(UNIQ_PATS).to_string()),
        _ => None,
    };
    let tag_alt = alt_value.as_ref().map(|v| {
        let mut a2 = attrs.clone();
        a2[0].1 = v.clone();
        format!("<block{}>", a2.iter().map(|(k, v)| format!(" {k}={}", quote(v))).collect::<String>())
    });
    // layout: tag comment, optional same-line content for block-comment languages, content lines, end comment
    let mut src = String::new();
    let pre = rng.below(3);
    for k in 0..pre { src += &format!("{}filler {k}{}\n", lang.open, lang.close); }
    // one malformed case in four: a WELL-FORMED block of the same rule comes first in the file, violated, of low severity - its
    // diagnostic alone would not fail the run, and it must not end the validator's pass over the file
    if malformed && ["keep-sorted", "keep-unique", "line-pattern", "line-count"].contains(&kind) && rng.chance(1, 4) {
        let (val, body) = match kind {
            "keep-sorted" => ("asc", "b\na\n"),
            "keep-unique" => ("", "a\na\n"),
            "line-pattern" => ("^[a-z]+$", "A1\n"),
            _ => ("<1", "x\n"),
        };
        if kind == "line-pattern" { patterns.push(val.to_string()); }
        let sev = ["warning", "info", "hint"][rng.below(3)];
        src += &format!("{}<block {kind}=\"{val}\" severity=\"{sev}\">{}\n{body}{}</block>{}\n", lang.open, lang.close, lang.open, lang.close);
    }
    if let Some(ok) = &healthy_lua {
        // usually one or two healthy scripted blocks; one case in six has 20-40 of them (more than any pool of worker
        // threads or in-flight limit): the malformed block's error must still surface
        let many = 1 + rng.below(2);
        for k in 0..many {
            src += &format!("{}<block name=\"healthy{k}\" check-lua=\"{ok}\">{}\nfine\n{}</block>{}\n", lang.open, lang.close, lang.open, lang.close);
        }
    }
    let indent = ["", "  ", "\t"][rng.below(3)];
    let inline_first = !lang.close.is_empty() && rng.chance(1, 4);
    let nested = rng.chance(1, 6);
    let multi = !lang.close.is_empty() && rng.chance(2, 5);
    if multi {
        // the tag sits on a middle line of a multi-line comment that continues after it
        let before = rng.below(3);
        let after = rng.below(3);
        let star = if lang.open.starts_with("/*") && rng.chance(1, 2) { [" * ", " * ", "\u{a0}* ", "\u{3000}* "][rng.below(4)] } else { "   " };
        src += &format!("{indent}{}intro", lang.open);
        for k in 0..before { src += &format!("\n{indent}{star}line {k}"); }
        src += &format!("\n{indent}{star}{tag}");
        for k in 0..after { src += &format!("\n{indent}{star}trailing é {k}"); }
        if rng.chance(1, 2) { src += &format!("\n{indent}{}", lang.close.trim_start()); } else { src += lang.close; }
    } else {
        src += &format!("{indent}{}{tag}{}", lang.open, lang.close);
    }
    if inline_first { src += " "; } else { src += "\n"; }
    for (k, l) in lines.iter().enumerate() {
        if nested && k == 1 {
            src += &format!("{}<block name=\"inner\">{}\n{}</block>{}\n", lang.open, lang.close, lang.open, lang.close);
        }
        src += l;
        src += if rng.chance(1, 10) { "\r\n" } else { "\n" };
    }
    let inline_last = !lang.close.is_empty() && rng.chance(1, 5) && !lines.is_empty();
    if inline_last { src.pop(); if src.ends_with('\r') { src.pop(); } src += " "; }
    src += &format!("{indent}{}</block>{}\n", lang.open, lang.close);
    // one case in three: one or two more sibling blocks carrying the same rule with contents of their own, so that
    // several blocks of a file can violate (or err) in the same run
    if kind != "affects" && rng.chance(1, 3) {
        for _ in 0..1 + rng.below(2) {
            if rng.chance(1, 2) { src += "between\n"; }
            // half of the siblings carry ANOTHER value of the rule (another pattern, direction, bound) and repeat lines of the
            // first block: what one block accepted or recorded says nothing about the next one
            let other = rng.chance(1, 2);
            let sib_tag = match (&tag_alt, other) {
                (Some(t2), true) => {
                    if let Some(v) = &alt_value { if (kind == "line-pattern" || kind == "keep-unique") && !v.is_empty() { patterns.push(v.clone()); } }
                    t2.clone()
                }
                _ => tag.clone(),
            };
            src += &format!("{indent}{}{sib_tag}{}\n", lang.open, lang.close);
            if other { for l in lines.iter().take(3) { src += l; src += "\n"; } }
            for _ in 0..rng.below(6) {
                let l = if numeric && rng.chance(9, 10) { ["2", "10", "9.5", "-3", "0", "1e1", "+5", "100"][rng.below(8)].to_string() } else { rng.pick(LINES).to_string() };
                src += &l;
                src += "\n";
            }
            src += &format!("{indent}{}</block>{}\n", lang.open, lang.close);
        }
    }
    // one case in five: a further block with the same rule whose two tags share one comment (or sit in two comments glued
    // together): its content is the EMPTY string - zero lines, zero keys - whatever the blocks before it held
    if kind != "affects" && rng.chance(1, 5) {
        match rng.below(3) {
            0 => src += &format!("{}{tag}</block>{}\n", lang.open, lang.close),
            1 => src += &format!("{}{tag} and </block>{}\n", lang.open, lang.close),
            _ if !lang.close.is_empty() => src += &format!("{}{tag}{}{}</block>{}\n", lang.open, lang.close, lang.open, lang.close),
            _ => src += &format!("{}{tag} </block>{}\n", lang.open, lang.close),
        }
    }
    // one case in eight: such an empty-content block with the same rule BEFORE everything else (what is decided for a block
    // without content - no key, nothing to match, an unusable rule value that is not even looked at - must not be remembered
    // for the blocks after it)
    if kind != "affects" && rng.chance(1, 8) {
        let first = match rng.below(2) {
            0 => format!("{}{tag}</block>{}\n", lang.open, lang.close),
            _ => format!("{}{tag} and </block>{}\n", lang.open, lang.close),
        };
        src = first + &src;
    }
    // one case in six: an exact copy of everything written so far (same tags, same attributes, same content) appended to the
    // file, and one case in six: the same text again as a second file - a result, a key set or a compiled rule remembered
    // from one block must not leak into an identical block elsewhere (its own position, its own verdict)
    let mut twin_file: Option<String> = None;
    if kind != "affects" && kind != "check-lua" && kind != "check-ai" {
        if rng.chance(1, 6) { let copy = src.clone(); src += "between copies\n"; src += &copy; }
        if rng.chance(1, 6) {
            // the second file repeats the text; half of the time its rule has ANOTHER value at the same tag position
            twin_file = Some(match (&tag_alt, rng.chance(1, 2)) {
                (Some(t2), true) if t2.len() == tag.len() || !src.contains('\u{0}') => {
                    if let Some(v) = &alt_value { if kind == "line-pattern" || kind == "keep-unique" { if !v.is_empty() { patterns.push(v.clone()); } } }
                    src.replace(&tag, t2)
                }
                _ => src.clone(),
            });
        }
    }
    // one case in four: bystander blocks carrying OTHER synchronous rules, each violated, in the same file, and every
    // validator enabled - the diagnostics of several validators for one file have to be merged, none may displace another
    let mut enabled = vec![kind.to_string()];
    if kind != "affects" && rng.chance(1, 4) {
        let by: [(&str, &str, &str); 4] = [("keep-sorted", "asc", "b\na\n"), ("keep-unique", "", "a\na\n"), ("line-count", "<1", "x\n"), ("line-pattern", "^[a-z]+$", "A1\n")];
        let first = rng.below(4);
        for d in 0..1 + rng.below(2) {
            let (rule, val, body) = by[(first + d) % 4];
            if rule == kind { continue; }
            if rule == "line-pattern" { patterns.push(val.to_string()); }
            let sev = ["", "", " severity=\"warning\""][rng.below(3)];
            src += &format!("{}<block {rule}=\"{val}\"{sev}>{}\n{body}{}</block>{}\n", lang.open, lang.close, lang.open, lang.close);
        }
        enabled = vec![];
    }
    if with_async || companion { enabled = vec![]; }
    // one check-lua case in six: 20-40 more healthy scripted blocks AFTER the malformed one (more than any pool of worker
    // threads or in-flight limit; the malformed block's task is among the first to be spawned and to finish): its error
    // must still surface
    if let (Some(ok), "check-lua", true) = (&healthy_lua, kind, rng.chance(1, 6)) {
        for k in 0..20 + rng.below(21) {
            src += &format!("{}<block name=\"late{k}\" check-lua=\"{ok}\">{}\nfine\n{}</block>{}\n", lang.open, lang.close, lang.open, lang.close);
        }
    }
    // one file in twelve starts with a UTF-8 byte order mark: three bytes of line 1 like any others
    if rng.chance(1, 12) { src.insert(0, '\u{feff}'); }
    let path = format!("f.{}", lang.ext);
    let changes = if all_changed {
        Some([(path.clone(), (1..=src.lines().count() + 1).map(|l| (l, None)).collect())].into_iter().collect())
    } else { None };
    let mut files = vec![(path.clone(), Some(src))];
    let mut walk = vec![path.clone()];
    if let (Some(t), None) = (twin_file, &changes) {
        let p2 = format!("sub/g.{}", lang.ext);
        files.push((p2.clone(), Some(t)));
        walk.push(p2);
    }
    Case {
        files,
        walk: walk.clone(),
        allow: walk,
        scan: true,
        changes,
        enabled,
        patterns,
        asyncs,
        meta: json!({"gen": "val", "kind": kind, "i": i, "malformed": malformed, "nlines": nlines}),
        ..Default::default()
    }
}

// ------------------------------------------------------------------------------------------------
// exhaustive small-scope enumeration (the "exhaustively for every sequence of up to 5 lines ..." quantifiers of C06-C09):
// case `i` is decoded from mixed-radix digits: configuration first, then the length and the symbols of the line sequence

struct Space {
    alphabet: &'static [&'static str],
    configs: Vec<Vec<(&'static str, String)>>, // attribute lists
    patterns: Vec<&'static str>,
    inline_variants: usize,
}

fn space(kind: &str, maxlen: usize) -> Space {
    let mut configs = vec![];
    let mut patterns = vec![];
    match kind {
        "keep-sorted" => {
            for dir in ["asc", "desc", "", "ASC"] {
                for pat in ["", r"x=(?P<value>\d+)", r"\d+"] {
                    for fmt in ["", "numeric"] {
                        let mut a = vec![("keep-sorted", dir.to_string())];
                        if !pat.is_empty() { a.push(("keep-sorted-pattern", pat.to_string())); }
                        if !fmt.is_empty() { a.push(("keep-sorted-format", fmt.to_string())); }
                        configs.push(a);
                    }
                }
            }
            patterns = vec![r"x=(?P<value>\d+)", r"\d+"];
            // sequences of five lines: a smaller alphabet keeps the enumeration under a million cases
            let alphabet: &'static [&'static str] = if maxlen >= 5 { &["a", "b", "  b", "", "2", "10", "-3"] } else { &["a", "b", "  b", "ab", "", "2", "10", "9.5", "-3", "x=2", "x=10 y"] };
            Space { alphabet, configs, patterns, inline_variants: 1 }
        }
        "keep-unique" => {
            for pat in ["", r"x=(?P<value>\d+)", r"x=\d+ \w"] {
                configs.push(vec![("keep-unique", pat.to_string())]);
            }
            patterns = vec![r"x=(?P<value>\d+)", r"x=\d+ \w"];
            Space { alphabet: &["a", "  a", "a  ", "b", "", "   ", "x=1 k", "x=1 j", "zz", "x=2 k"], configs, patterns, inline_variants: 1 }
        }
        "line-pattern" => {
            for pat in [r"^[a-z]+$", r"[a-z]", r"^abc", r"\d$", r"^\s"] {
                configs.push(vec![("line-pattern", pat.to_string())]);
                patterns.push(pat);
            }
            Space { alphabet: &["abc", "ABC", "  abc", "abc  ", "", "   ", "abc1", "1abc", "é"], configs, patterns, inline_variants: 1 }
        }
        _ => {
            for op in OPS {
                for n in 0..7 {
                    configs.push(vec![("line-count", format!("{op}{n}"))]);
                }
            }
            Space { alphabet: &["x", "", "  ", "y z", "\u{a0}\u{2003}"], configs, patterns, inline_variants: 2 }
        }
    }
}

fn seqs_up_to(k: usize, len: usize) -> usize {
    (0..=len).map(|l| k.pow(l as u32)).sum()
}

/// number of cases of the exhaustive enumeration for `kind` with sequences of at most `maxlen` lines
pub fn exhaustive_count(kind: &str, maxlen: usize) -> usize {
    let sp = space(kind, maxlen);
    sp.configs.len() * sp.inline_variants * seqs_up_to(sp.alphabet.len(), maxlen)
}

pub fn generate_exhaustive(_ctx: &mut Ctx, kind: &str, maxlen: usize, i: usize) -> Case {
    let sp = space(kind, maxlen);
    let nseq = seqs_up_to(sp.alphabet.len(), maxlen);
    let cfg = &sp.configs[i % sp.configs.len()];
    let mut r = i / sp.configs.len();
    let inline_first = r % sp.inline_variants == 1;
    r /= sp.inline_variants;
    let mut s = r % nseq;
    let k = sp.alphabet.len();
    let mut len = 0;
    while s >= k.pow(len as u32) { s -= k.pow(len as u32); len += 1; }
    let mut lines = vec![];
    for _ in 0..len { lines.push(sp.alphabet[s % k]); s /= k; }
    let tag = format!("<block{}>", cfg.iter().map(|(k, v)| format!(" {k}={}", quote(v))).collect::<String>());
    // where the content sits relative to the tag comments, in turn over the line sequences (every configuration meets every
    // layout on a quarter of the sequences): 0 tags on lines of their own, 1 content begins on the start tag's line,
    // 2 the last content line ends on the end tag's line, 3 both (a whole block on one line when it has one line)
    let layout = if inline_first { 1 } else { (i / sp.configs.len() / sp.inline_variants) % 4 };
    // three comment styles in turn: `#` comments, `//` comments, block comments (layouts 1-3 need block comments)
    let (path, open, close) = if layout != 0 { ("f.c", "/* ", " */") } else { [("f.py", "# ", ""), ("f.rs", "// ", ""), ("f.c", "/* ", " */")][i % 3] };
    let mut src = format!("{open}{tag}{close}");
    src += if (layout == 1 || layout == 3) && !lines.is_empty() { " " } else { "\n" };
    for (k, l) in lines.iter().enumerate() {
        src += l;
        src += if (layout == 2 || layout == 3) && k + 1 == lines.len() { " " } else { "\n" };
    }
    src += &format!("{open}</block>{close}\n");
    Case {
        files: vec![(path.to_string(), Some(src))],
        walk: vec![path.to_string()],
        allow: vec![path.to_string()],
        scan: true,
        enabled: vec![kind.to_string()],
        patterns: sp.patterns.iter().map(|p| p.to_string()).collect(),
        meta: json!({"gen": "val-exhaustive", "kind": kind, "i": i, "nlines": len}),
        ..Default::default()
    }
}

// ------------------------------------------------------------------------------------------------
// every sequence of start / end tags up to a length (balanced or not), several tags per comment or one per comment

pub fn tagseq_count(maxlen: usize) -> usize {
    6 * (0..=maxlen).map(|l| 1usize << l).sum::<usize>()
}

pub fn generate_tagseq(_ctx: &mut Ctx, maxlen: usize, i: usize) -> Case {
    let layout = i % 6;
    let mut s = i / 6;
    let mut len = 0;
    while s >= (1usize << len) { s -= 1usize << len; len += 1; }
    let _ = maxlen;
    // layouts 4 and 5: line comments holding up to two *bare* tags glued together, the comment ending right after the last `>`
    let (path, open, close) = [("t.py", "# ", ""), ("t.rs", "// ", ""), ("t.c", "/* ", " */"), ("t.html", "<!-- ", " -->"), ("u.py", "# ", ""), ("u.js", "// ", "")][layout];
    let glued = layout >= 4;
    let mut src = String::from(if layout == 3 { "<p>x</p>\n" } else { "" });
    let mut k = 0;
    let mut j = 0;
    while j < len {
        // layouts 2 and 3 put up to two tags into one comment
        let group = if layout >= 2 && j + 1 < len && (s >> j) & 3 != 2 { 2 } else { 1 };
        let mut body = String::new();
        for g in 0..group {
            let is_start = (s >> (j + g)) & 1 == 0;
            if is_start { if glued && (j + g) % 2 == 1 { body += "<block>"; } else { body += &format!("<block name=\"n{k}\">"); } k += 1; } else { body += "</block>"; }
            if g + 1 < group && !glued { body += " and "; }
        }
        src += &format!("{open}{body}{close}\nline {j}\n");
        j += group;
    }
    Case {
        files: vec![(path.to_string(), Some(src))],
        walk: vec![path.to_string()],
        allow: vec![path.to_string()],
        scan: true,
        meta: json!({"gen": "tagseq", "i": i, "len": len, "word": (0..len).map(|j| if (s >> j) & 1 == 0 { '0' } else { '1' }).collect::<String>()}),
        ..Default::default()
    }
}
