//! C14 / C16: the option values `-E`, `-e`, `-d` through the real clap parser (`Args::try_parse_from`) and `Args::validate`
//! against the Lean model of flags.rs (`Bw.Flags.startup`): is the command line accepted, and with which sets / map.
use crate::gen_src::{all_exts, VALIDATORS};
use crate::rng::Rng;
use clap::Parser;
use serde_json::{Value, json};
use std::collections::{BTreeMap, BTreeSet, HashSet};
use std::ffi::OsString;

fn validator_value(rng: &mut Rng) -> String {
    let v = rng.pick(VALIDATORS).to_string();
    match rng.below(12) {
        0 => v.to_uppercase(),
        1 => format!(" {v}"),
        2 => format!("{v} "),
        3 => v[..v.len() - 1].to_string(),
        4 => v.split('-').next().unwrap_or("").to_string(),
        5 => String::new(),
        6 => format!("{v},{v}"),
        7 => v.replace('-', "_"),
        8 => "check".to_string(),
        _ => v,
    }
}

fn ext_value(rng: &mut Rng, exts: &[&'static str]) -> String {
    let keys = ["cxx", "c++", "hh", "py", "ts", "mod", "Makefile", "x.y", "", " k ", "a=b", "é"];
    let k = rng.pick(&keys).to_string();
    let target = match rng.below(10) {
        0 => "bar".to_string(),
        1 => rng.pick(exts).to_uppercase(),
        2 => String::new(),
        3 => format!(" {} ", rng.pick(exts)),
        4 => format!(".{}", rng.pick(exts)),
        5 => format!("{}=x", rng.pick(exts)),
        _ => rng.pick(exts).to_string(),
    };
    match rng.below(10) {
        0 => k,                                   // no `=`
        1 => format!("{k} = {target}"),
        2 => format!("{k}=={target}"),
        _ => format!("{k}={target}"),
    }
}

pub fn real(es: &[String], en: &[String], dis: &[String]) -> Value {
    let mut argv: Vec<String> = vec!["blockwatch".into()];
    // `--opt=value` keeps values that are empty or start with a blank attached to their option
    for e in es { argv.push(format!("--extension={e}")); }
    for v in en { argv.push(format!("--enable={v}")); }
    for v in dis { argv.push(format!("--disable={v}")); }
    let args = match blockwatch::flags::Args::try_parse_from(&argv) {
        Ok(a) => a,
        Err(_) => return json!({"err": "rejected"}),
    };
    let parsers = match blockwatch::language_parsers::language_parsers() {
        Ok(p) => p,
        Err(e) => return json!({"panic": format!("{e:#}")}),
    };
    let supported: HashSet<&OsString> = parsers.keys().collect();
    if args.validate(&supported).is_err() {
        return json!({"err": "rejected"});
    }
    let extra: BTreeMap<String, String> = args.extensions().into_iter().map(|(k, v)| (k.to_string_lossy().into_owned(), v.to_string_lossy().into_owned())).collect();
    let enabled: BTreeSet<String> = args.enabled_validators().into_iter().map(String::from).collect();
    let disabled: BTreeSet<String> = args.disabled_validators().into_iter().map(String::from).collect();
    json!({"ok": {"extra": extra, "enabled": enabled, "disabled": disabled}})
}

pub fn rows(seed: u64, n: usize) -> Vec<(Value, Value)> {
    let exts = all_exts();
    let mut out = Vec::with_capacity(n);
    for i in 0..n as u64 {
        let mut rng = Rng::new(seed, i);
        let mostly_valid = rng.chance(2, 3);
        let ne = rng.below(4);
        let es: Vec<String> = (0..ne).map(|_| if mostly_valid && rng.chance(4, 5) {
            format!("{}={}", ["cxx", "c++", "hh", "k", "cxx"][rng.below(5)], rng.pick(&exts))
        } else { ext_value(&mut rng, &exts) }).collect();
        let which = rng.below(4); // 0 none, 1 enable, 2 disable, 3 both
        let mk = |rng: &mut Rng| -> Vec<String> {
            (0..1 + rng.below(3)).map(|_| if mostly_valid && rng.chance(5, 6) { rng.pick(VALIDATORS).to_string() } else { validator_value(rng) }).collect()
        };
        let en = if which == 1 || which == 3 { mk(&mut rng) } else { vec![] };
        let dis = if which == 2 || which == 3 { mk(&mut rng) } else { vec![] };
        let r = std::panic::catch_unwind(|| real(&es, &en, &dis)).unwrap_or_else(|_| json!({"panic": true}));
        out.push((json!({"op": "flags", "E": es, "e": en, "d": dis, "meta": {"gen": "flags", "i": i}}), r));
    }
    out
}
