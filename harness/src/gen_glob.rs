//! C15: (glob set, path) pairs -> what the real flag parsing + `PathCheckerImpl` (globset) answer.
//! Globs are arbitrary concatenations of literal pieces, `?`, `*`, `**` and `/` (plus the documented forms);
//! paths are derived from a glob (wildcards expanded, then possibly mutated) or random, so both verdicts occur.
use crate::rng::Rng;
use blockwatch::blocks::{PathChecker, PathCheckerImpl};
use clap::Parser;
use serde_json::{Value, json};
use std::path::Path;

const LITS: &[&str] = &["a", "b", "src", "x.y", "n m", "é", ".", "rs", "py", ".rs", ".py", "]", ",", "!", "-", "main", "lib", "ß", "日本", "a/b", "/", "/", "/",
    // escaped characters: literals whatever they are (a lone backslash at the end of a glob would be an error: never generated)
    "\\[", "\\]", "\\*", "\\?", "\\{", "\\}", "\\\\", "\\a", "\\/", "\\[slug\\]", "\\é"];
const SPECIAL: &[&str] = &["*", "**", "?", "/", "**/", "/**", "/**/", "*.", "*"];

fn some_glob(rng: &mut Rng) -> String {
    if rng.chance(1, 3) {
        // documented forms
        let ext = *rng.pick(&["rs", "py", "y", "d.ts"]);
        let dir = *rng.pick(&["src", "a", "b", "b/b", "docs/x y", "v1.2"]);
        let name = *rng.pick(&["main.rs", "f.py", "x.y.rs", "n m.py", "Makefile"]);
        return match rng.below(7) {
            0 => format!("*.{ext}"),
            1 => format!("{dir}/**"),
            2 => format!("**/{name}"),
            3 => format!("{dir}/{name}"),
            4 => format!("**/*.{ext}"),
            5 => format!("{dir}/*.{ext}"),
            _ => "**".to_string(),
        };
    }
    let k = 1 + rng.below(6);
    let mut g = String::new();
    for _ in 0..k {
        if rng.chance(1, 2) { g.push_str(*rng.pick(SPECIAL)); } else { g.push_str(*rng.pick(LITS)); }
    }
    if g.starts_with('-') { g.insert(0, 'a'); }
    g
}

fn filler(rng: &mut Rng, allow_slash: bool) -> String {
    let k = rng.below(4);
    let mut s = String::new();
    for _ in 0..k {
        let p = *rng.pick(LITS);
        if !allow_slash && p.contains('/') { continue; }
        s.push_str(p);
    }
    s
}

/// a path obtained by expanding the wildcards of `g` (usually matches), then sometimes damaged
fn path_from(rng: &mut Rng, g: &str) -> String {
    let cs: Vec<char> = g.chars().collect();
    let mut out = String::new();
    let mut i = 0;
    while i < cs.len() {
        if cs[i] == '*' {
            while i < cs.len() && cs[i] == '*' { i += 1; }
            out.push_str(&filler(rng, true));
        } else if cs[i] == '?' {
            out.push(*rng.pick(&['a', '/', '.', 'z']));
            i += 1;
        } else if cs[i] == '\\' && i + 1 < cs.len() {
            // an escaped character stands for itself (one path in eight keeps the backslash instead: must not match)
            if rng.chance(1, 8) { out.push('\\'); }
            out.push(cs[i + 1]);
            i += 2;
        } else {
            out.push(cs[i]);
            i += 1;
        }
    }
    match rng.below(8) {
        0 => { out.pop(); }
        1 => { if !out.is_empty() { out.remove(0); } }
        2 => out.push_str(*rng.pick(LITS)),
        3 => out.insert_str(0, *rng.pick(LITS)),
        4 => out = out.replacen('/', "", 1),
        _ => {}
    }
    out
}

pub fn real(globs: &[String], ignores: &[String], path: &str) -> Value {
    let mut argv: Vec<String> = vec!["blockwatch".into()];
    for i in ignores { argv.push("--ignore".into()); argv.push(i.clone()); }
    argv.push("--".into());
    argv.extend(globs.iter().cloned());
    let args = match blockwatch::flags::Args::try_parse_from(&argv) {
        Ok(a) => a,
        Err(e) => return json!({"err": format!("clap: {}", e.kind())}),
    };
    let (gs, is) = match (args.globs(), args.ignored_globs()) {
        (Ok(g), Ok(i)) => (g, i),
        _ => return json!({"err": "invalid-glob"}),
    };
    let pc = PathCheckerImpl::new(gs, is);
    json!({"allow": pc.should_allow(Path::new(path)), "ignore": pc.should_ignore(Path::new(path))})
}

pub fn rows(seed: u64, n: usize) -> Vec<(Value, Value)> {
    let mut out = Vec::with_capacity(n);
    for i in 0..n as u64 {
        let mut rng = Rng::new(seed, i);
        let ng = 1 + rng.below(3);
        let globs: Vec<String> = (0..ng).map(|_| some_glob(&mut rng)).collect();
        let ni = rng.below(3);
        let ignores: Vec<String> = (0..ni).map(|_| some_glob(&mut rng)).collect();
        let path = if rng.chance(4, 5) {
            let all: Vec<&String> = globs.iter().chain(ignores.iter()).collect();
            let g = (*rng.pick(&all)).clone();
            path_from(&mut rng, &g)
        } else {
            filler(&mut rng, true)
        };
        // a file path never ends in a `.` / `..` component (globset's basename strategies read `Path::file_name`)
        let last = path.rsplit('/').next().unwrap_or("");
        if path.is_empty() || last == "." || last == ".." { continue; }
        let r = std::panic::catch_unwind(|| real(&globs, &ignores, &path)).unwrap_or_else(|_| json!({"panic": true}));
        out.push((json!({"op": "glob", "globs": globs, "ignores": ignores, "path": path, "meta": {"gen": "glob", "i": i}}), r));
    }
    out
}
