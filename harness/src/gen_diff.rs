//! Generator for diff mode (C01, C02, C20 partly): repositories as new-file texts with blocks, abstract
//! edit scripts rendered to unified diffs the way git writes them (change groups: removals before
//! additions; any context width), plus the ground truth of the edit script.
use crate::core::{Case, Ctx};
use crate::rng::Rng;
use serde_json::{Value, json};

#[derive(Clone, Debug, PartialEq)]
pub enum Seg {
    Keep(String),
    Del(String),
    Add(String),
}

/// render one file's segments as a unified diff section with `u` context lines
pub fn render(segs: &[Seg], u: usize, path: &str, new_file: bool, no_newline_at_end: bool) -> String {
    render_nl(segs, u, path, new_file, no_newline_at_end, false)
}

/// `new_nn` / `old_nn`: the new / the old version of the file lacks the final line break; git then writes the marker
/// `\ No newline at end of file` after the last line of that side - for the old side that is in the MIDDLE of the hunk
/// body when additions follow the last removed line
pub fn render_nl(segs: &[Seg], u: usize, path: &str, new_file: bool, new_nn: bool, old_nn: bool) -> String {
    let n = segs.len();
    let last_old = segs.iter().rposition(|s| !matches!(s, Seg::Add(_)));
    let last_new = segs.iter().rposition(|s| !matches!(s, Seg::Del(_)));
    // a kept last line stands for both sides: it cannot lack the line break on one side only
    let old_nn = old_nn && !new_file && !(last_old == last_new && !new_nn);
    let new_nn = new_nn || (old_nn && last_old == last_new);
    let changed: Vec<bool> = segs.iter().map(|s| !matches!(s, Seg::Keep(_))).collect();
    if !changed.iter().any(|c| *c) {
        return String::new();
    }
    let mut hunks: Vec<(usize, usize)> = vec![];
    let mut i = 0;
    while i < n {
        if changed[i] {
            let mut j = i;
            while j < n && changed[j] { j += 1; }
            let lo = i.saturating_sub(u);
            let hi = (j + u).min(n);
            match hunks.last_mut() {
                Some(last) if lo <= last.1 => last.1 = hi.max(last.1),
                _ => hunks.push((lo, hi)),
            }
            i = j;
        } else {
            i += 1;
        }
    }
    let mut out = if new_file {
        format!("diff --git a/{path} b/{path}\nnew file mode 100644\nindex 0000000..2222222\n--- /dev/null\n+++ b/{path}\n")
    } else {
        format!("diff --git a/{path} b/{path}\nindex 1111111..2222222 100644\n--- a/{path}\n+++ b/{path}\n")
    };
    for (lo, hi) in hunks {
        let old_before = segs[..lo].iter().filter(|s| !matches!(s, Seg::Add(_))).count();
        let new_before = segs[..lo].iter().filter(|s| !matches!(s, Seg::Del(_))).count();
        let old_len = segs[lo..hi].iter().filter(|s| !matches!(s, Seg::Add(_))).count();
        let new_len = segs[lo..hi].iter().filter(|s| !matches!(s, Seg::Del(_))).count();
        let os = if old_len == 0 { old_before } else { old_before + 1 };
        let ns = if new_len == 0 { new_before } else { new_before + 1 };
        let fmt = |s: usize, l: usize| if l == 1 { format!("{s}") } else { format!("{s},{l}") };
        out += &format!("@@ -{} +{} @@\n", fmt(os, old_len), fmt(ns, new_len));
        for (k, s) in segs[lo..hi].iter().enumerate() {
            match s {
                Seg::Keep(t) => out += &format!(" {t}\n"),
                Seg::Del(t) => out += &format!("-{t}\n"),
                Seg::Add(t) => out += &format!("+{t}\n"),
            }
            let idx = lo + k;
            if (new_nn && Some(idx) == last_new) || (old_nn && Some(idx) == last_old) {
                out += "\\ No newline at end of file\n";
            }
        }
    }
    out
}

pub struct BlockGeo {
    pub name: String,
    pub s: usize, // 1-based line of the start-tag comment in the new file
    pub e: usize, // 1-based line of the end-tag comment
    pub depth: usize,
}

pub struct FilePlan {
    pub path: String,
    pub comment: &'static str,
    pub lines: Vec<String>,
    pub blocks: Vec<BlockGeo>,
}

const RULES: &[&[(&str, &str)]] = &[
    &[], &[], &[("keep-sorted", "asc")], &[("keep-unique", "")], &[("line-count", "<3")], &[("line-pattern", "^[a-z0-9]+$")],
    &[("line-count", ">=1"), ("severity", "warning")], &[("keep-sorted", "desc"), ("severity", "info")],
];
const BODY: &[&str] = &["a", "b", "c", "a", "zz", "b2", "  a", "C", "", "x1", "é1", "жжж", "100"];

fn plan_file(rng: &mut Rng, path: &str, comment: &'static str, names: &mut usize, affects_pool: &[String], allow_nest: bool, lua: Option<&str>) -> FilePlan {
    let mut lines: Vec<String> = vec![];
    let mut blocks = vec![];
    for _ in 0..rng.below(3) { lines.push(format!("code {}", lines.len())); }
    let nblocks = 1 + rng.below(3);
    let mut used_names: Vec<String> = vec![];
    for _ in 0..nblocks {
        // one block in six repeats the name of an earlier block of the same file (a reference to that name is satisfied by
        // ANY modified block carrying it)
        let name = if !used_names.is_empty() && rng.chance(1, 6) { rng.pick(&used_names).clone() } else { let n = format!("b{}", *names); *names += 1; n };
        used_names.push(name.clone());
        let mut attrs = format!(" name=\"{name}\"");
        if lua.is_some() && rng.chance(1, 4) { attrs += &format!(" check-lua=\"{}\"", lua.unwrap()); }
        if !affects_pool.is_empty() && rng.chance(1, 2) {
            let k = 1 + rng.below(2);
            let refs: Vec<String> = (0..k).map(|_| rng.pick(affects_pool).clone()).collect();
            attrs += &format!(" affects=\"{}\"", refs.join(if rng.chance(1, 2) { ", " } else { "," }));
        }
        for (k, v) in *rng.pick(RULES) { attrs += &format!(" {k}=\"{v}\""); }
        let indent = ["", "  "][rng.below(2)];
        let noise = ["", "", "é ", "→→ ", "ж x "][rng.below(5)];
        // one start-tag line in eight is LONG (600 bytes of comment text after the tag): edits at both ends of such a line leave
        // the tag between them untouched
        let tail = if rng.chance(1, 8) { format!(" {}", "pad ".repeat(150)) } else { String::new() };
        lines.push(format!("{indent}{comment} {noise}<block{attrs}>{tail}"));
        let s = lines.len();
        let nbody = rng.below(5);
        // (where nesting proper is not wanted, one block in eight still shares its start-tag comment with a second tag)
        let share_only = !allow_nest && tail.is_empty() && rng.chance(1, 8);
        let nest_at = if allow_nest && rng.chance(1, 4) { Some(rng.below(nbody + 1)) } else if share_only { Some(0) } else { None };
        let mut inner: Option<BlockGeo> = None;
        for k in 0..=nbody {
            if nest_at == Some(k) {
                let iname = format!("b{}", *names);
                *names += 1;
                used_names.push(iname.clone());
                // an inner block that starts right away may have its start tag in the SAME comment as the outer one (two tags,
                // one line): its tag lies outside the outer tag and outside the outer content
                let is = if k == 0 && tail.is_empty() && (share_only || rng.chance(1, 2)) {
                    let irule = ["", " keep-sorted=\"desc\"", " keep-unique"][rng.below(3)];
                    lines[s - 1].push_str(&format!(" <block name=\"{iname}\"{irule}>"));
                    s
                } else {
                    lines.push(format!("{indent}  {comment} <block name=\"{iname}\">"));
                    lines.len()
                };
                for _ in 0..rng.below(3) { lines.push(rng.pick(BODY).to_string()); }
                lines.push(format!("{indent}  {comment} </block>"));
                inner = Some(BlockGeo { name: iname, s: is, e: lines.len(), depth: 1 });
            }
            if k < nbody { lines.push(rng.pick(BODY).to_string()); }
        }
        lines.push(format!("{indent}{comment} </block>"));
        blocks.push(BlockGeo { name, s, e: lines.len(), depth: 0 });
        if let Some(i) = inner { blocks.push(i); }
        for _ in 0..rng.below(3) { lines.push(format!("code {}", lines.len())); }
    }
    FilePlan { path: path.to_string(), comment, lines, blocks }
}

/// per new-file line: what the edit script does there
#[derive(Clone, Debug)]
enum LineOp {
    Keep,
    Add,
    Edit(String),
}

fn mutate_line(rng: &mut Rng, s: &str) -> String {
    let chars: Vec<char> = s.chars().collect();
    if chars.is_empty() { return "Q".to_string(); }
    let pos = rng.below(chars.len());
    let mut out: String = chars[..pos].iter().collect();
    match rng.below(6) {
        0 => { out.push('Q'); out.extend(chars[pos..].iter()); }
        1 => { out.extend(chars[pos + 1..].iter()); if out == s { out.push('Q'); } }
        // the old line had this character twice (`1000` -> `100`): the common prefix and suffix of old and new overlap
        2 => { out.push(chars[pos]); out.extend(chars[pos..].iter()); }
        // a multi-byte character replaced by its neighbour (same UTF-8 lead byte: `è` -> `é`); ASCII: the next letter
        3 => { out.push(char::from_u32(chars[pos] as u32 ^ 1).filter(|c| !c.is_control() && *c != '\n').unwrap_or('Q')); out.extend(chars[pos + 1..].iter()); }
        _ => { out.push(if chars[pos] == 'Q' { 'R' } else { 'Q' }); out.extend(chars[pos + 1..].iter()); }
    }
    if out == s { out.push('Q'); }
    out
}

pub struct Script {
    pub segs: Vec<Seg>,
    pub adds: Vec<usize>,       // new-file line numbers added or edited
    pub gaps: Vec<usize>,       // deletion gaps g: deleted lines sat between new lines g and g+1
    pub classes: Vec<Value>,    // targeted edits with their expectation
}

fn build_script(rng: &mut Rng, plan: &FilePlan, targeted: bool) -> Script {
    let n = plan.lines.len();
    let mut ops: Vec<LineOp> = vec![LineOp::Keep; n];
    let mut dels_before: Vec<Vec<String>> = vec![vec![]; n + 1]; // deleted lines before new line i (0-based), n = at EOF
    let mut classes = vec![];
    let mut reserved = vec![false; n + 2];
    let all_tag_lines: Vec<usize> = plan.blocks.iter().flat_map(|b| [b.s - 1, b.e - 1]).collect();
    if targeted && !plan.blocks.is_empty() {
        let b = rng.pick(&plan.blocks);
        let (s, e) = (b.s - 1, b.e - 1); // 0-based indices of the tag lines
        let class = rng.below(8);
        let mut reserve = |lo: usize, hi: usize, reserved: &mut Vec<bool>| { for k in lo.saturating_sub(1)..=(hi + 1).min(n) { reserved[k] = true; } };
        match class {
            0 if e > s + 1 => { let j = s + 1 + rng.below(e - s - 1); ops[j] = LineOp::Add; reserve(j, j, &mut reserved); classes.push(json!({"block": b.name, "s": b.s, "class": "inside-add", "content": true, "listed": true})); }
            1 if e > s + 1 => { let j = s + 1 + rng.below(e - s - 1); ops[j] = LineOp::Edit(mutate_line(rng, &plan.lines[j])); reserve(j, j, &mut reserved); classes.push(json!({"block": b.name, "s": b.s, "class": "inside-edit", "content": true, "listed": true})); }
            2 => { let j = s + 1 + rng.below(e - s); dels_before[j].push(format!("gone {}", rng.below(100))); if rng.chance(1, 2) { dels_before[j].push("gone too".into()); } reserve(j, j, &mut reserved); classes.push(json!({"block": b.name, "s": b.s, "class": "inside-del", "content": true, "listed": true})); }
            3 => {
                // attribute edit inside the start tag: selected, content not modified (if nothing else touches it)
                // (variants: a value shortened; the last attribute / a blank removed right before `>`, so that only the
                // closing `>` is marked; a character inserted right before `>`)
                let l = &plan.lines[s];
                let shared = plan.blocks.iter().filter(|x| x.s == b.s).count() > 1;
                let old = match if shared { 0 } else { rng.below(4) } {
                    1 if l.ends_with('>') => format!("{} gone=\"1\">", &l[..l.len() - 1]),
                    2 if l.ends_with('>') => format!("{} >", &l[..l.len() - 1]),
                    3 if l.ends_with("\">") => format!("{}>", &l[..l.len() - 2]),
                    _ => l.replace(&format!("name=\"{}\"", b.name), &format!("name=\"{}X\"", b.name)),
                };
                ops[s] = LineOp::Edit(old); reserve(s, s, &mut reserved);
                classes.push(json!({"block": b.name, "s": b.s, "class": "tag-attr-edit", "content": false, "listed": true}));
            }
            4 => {
                // edit of the comment text before the `<` on the tag's line: neither
                let mut old = plan.lines[s].replacen(plan.comment, &format!("{}XX", plan.comment), 1);
                // on a long tag line the far end of the line is edited as well (two separate edits around the tag)
                if old.ends_with("pad ") { old.truncate(old.len() - 2); old.push_str("X "); }
                ops[s] = LineOp::Edit(old); reserve(s, s, &mut reserved);
                classes.push(json!({"block": b.name, "s": b.s, "class": "tag-line-noise-edit", "content": false, "listed": false}));
            }
            5 => {
                // edit confined to the end-tag line: neither
                let old = format!("{} trailing", plan.lines[e]);
                ops[e] = LineOp::Edit(old); reserve(e, e, &mut reserved);
                classes.push(json!({"block": b.name, "s": b.s, "class": "end-tag-edit", "content": false, "listed": false}));
            }
            6 if s >= 2 => { let j = rng.below(s - 1); if !all_tag_lines.contains(&j) { ops[j] = LineOp::Edit(mutate_line(rng, &plan.lines[j])); classes.push(json!({"block": b.name, "s": b.s, "class": "outside-before", "far": true})); } }
            7 if e + 2 < n => { let j = e + 2 + rng.below(n - e - 2); if !all_tag_lines.contains(&j) { ops[j] = LineOp::Add; classes.push(json!({"block": b.name, "s": b.s, "class": "outside-after", "far": true})); } }
            _ => {}
        }
    }
    // random further changes (never adjacent to a reserved targeted edit)
    let p = rng.below(4); // out of 10
    // tag lines are only touched by the targeted, structure-preserving classes: replacing a tag line by
    // unrelated text would change the block structure of the old file and make the ground truth ill-defined
    let tag_lines: Vec<usize> = plan.blocks.iter().flat_map(|b| [b.s - 1, b.e - 1]).collect();
    for j in 0..=n {
        if reserved.get(j).copied().unwrap_or(false) { continue; }
        if rng.below(10) < p {
            let kind = if tag_lines.contains(&j) { 2 } else { rng.below(4) };
            match kind {
                0 if j < n => ops[j] = LineOp::Add,
                1 if j < n => ops[j] = LineOp::Edit(if rng.chance(1, 2) { mutate_line(rng, &plan.lines[j]) } else { format!("old {}", rng.below(100)) }),
                2 => { for _ in 0..1 + rng.below(3) { dels_before[j].push(format!("deleted {}", rng.below(100))); } }
                _ if j < n => { ops[j] = LineOp::Edit(format!("was {}", rng.below(10))); dels_before[j].push("and this".into()); }
                _ => {}
            }
        }
    }
    assemble(plan, &ops, &dels_before, classes)
}

/// the change groups of an edit script in git's order (within a group removals come before additions)
fn assemble(plan: &FilePlan, ops: &[LineOp], dels_before: &[Vec<String>], classes: Vec<Value>) -> Script {
    let n = plan.lines.len();
    // assemble segments in git order: within a change group removals come before additions
    let mut segs: Vec<Seg> = vec![];
    let mut pend_del: Vec<String> = vec![];
    let mut pend_add: Vec<String> = vec![];
    let mut adds = vec![];
    let mut gaps = vec![];
    let flush = |segs: &mut Vec<Seg>, d: &mut Vec<String>, a: &mut Vec<String>| {
        for x in d.drain(..) { segs.push(Seg::Del(x)); }
        for x in a.drain(..) { segs.push(Seg::Add(x)); }
    };
    for j in 0..n {
        if !dels_before[j].is_empty() {
            // a deletion in front of line j: if additions are pending the group continues (git would show -/+ mixed as one group)
            gaps.push(j); // between new lines j and j+1 (1-based: j = number of new lines before)
            pend_del.extend(dels_before[j].iter().cloned());
        }
        match &ops[j] {
            LineOp::Keep => { flush(&mut segs, &mut pend_del, &mut pend_add); segs.push(Seg::Keep(plan.lines[j].clone())); }
            LineOp::Add => { pend_add.push(plan.lines[j].clone()); adds.push(j + 1); }
            LineOp::Edit(old) => { pend_del.push(old.clone()); pend_add.push(plan.lines[j].clone()); adds.push(j + 1); }
        }
    }
    if !dels_before[n].is_empty() { gaps.push(n); pend_del.extend(dels_before[n].iter().cloned()); }
    flush(&mut segs, &mut pend_del, &mut pend_add);
    Script { segs, adds, gaps, classes }
}

const EXTS: &[(&str, &str)] = &[("py", "#"), ("rs", "//"), ("js", "//"), ("rb", "#"), ("sql", "--"), ("go", "//"), ("sh", "#")];

pub fn generate(_ctx: &mut Ctx, seed: u64, i: usize, mode: &str) -> Case {
    let mut rng = Rng::new(seed, i as u64);
    let nfiles = 1 + rng.below(3);
    let mut names = 0usize;
    let paths: Vec<(String, &'static str)> = (0..nfiles)
        .map(|k| {
            let (ext, c) = if rng.chance(1, 10) { EXTS[4] } else { EXTS[[0, 1, 2, 3, 5, 6][rng.below(6)]] };
            // one file in ten lives under a hidden directory: the directory walk never reaches it (it is not in `walk`), a
            // path argument may still match it, and a diff naming it puts it in scope all the same
            let dir = if rng.chance(1, 10) { [".ci/", ".github/workflows/", "src/.gen/"][rng.below(3)] } else { ["", "src/", "a/", "b/", "b/b/", "docs/x y/"][rng.below(6)] };
            // one file in eight has a name that is registered as a whole (no extension in the `Path::extension` sense)
            if rng.chance(1, 8) { (format!("{dir}m{k}/{}", ["Makefile", "makefile"][rng.below(2)]), "#") }
            else { (format!("{dir}f{k}.{ext}"), c) }
        })
        .collect();
    // reference shapes: same-file ":name", cross-file "path:name", missing targets, duplicates
    let mut pool: Vec<String> = vec![];
    for k in 0..6 {
        pool.push(format!(":b{k}"));
        let (p, _) = rng.pick(&paths).clone();
        pool.push(format!("{p}:b{k}"));
    }
    pool.push(":missing".into());
    pool.push("nofile.py:b0".into());
    pool.push(" : b1 ".into());
    let allow_nest = mode != "select";
    // mode `flags`: one block in four also carries a (passing) script rule, so that an asynchronous validator is in the run
    let lua_script = format!("{}/nil.lua", crate::gen_lua::lua_dir());
    let lua = if mode == "flags" { Some(lua_script.as_str()) } else { None };
    let mut plans: Vec<FilePlan> = paths.iter().map(|(p, c)| plan_file(&mut rng, p, c, &mut names, &pool, allow_nest, lua)).collect();
    let n_lua: usize = plans.iter().map(|p| p.lines.iter().filter(|l| l.contains(" check-lua=\"")).count()).sum();
    let asyncs: Vec<Value> = (0..n_lua).map(|_| json!({"v": "check-lua", "arg": lua_script, "out": Value::Null})).collect();
    // one file in six separates the tag word from its first attribute by a tab in EVERY tag of the file (any white space will do)
    for plan in plans.iter_mut() {
        if rng.chance(1, 6) {
            for l in plan.lines.iter_mut() { *l = l.replace("<block ", "<block\t"); }
        }
    }
    let u = [0usize, 0, 1, 3, 10][rng.below(5)];
    let mut diff = String::new();
    let mut files = vec![];
    let mut meta_files = vec![];
    let mut order: Vec<usize> = (0..plans.len()).collect();
    rng.shuffle(&mut order);
    let mut sections: Vec<String> = vec![String::new(); plans.len()];
    for (k, plan) in plans.iter().enumerate() {
        let untouched = rng.chance(1, 6);
        let new_file = !untouched && rng.chance(1, 12);
        let script = if untouched {
            Script { segs: plan.lines.iter().map(|l| Seg::Keep(l.clone())).collect(), adds: vec![], gaps: vec![], classes: vec![] }
        } else if new_file {
            Script { segs: plan.lines.iter().map(|l| Seg::Add(l.clone())).collect(), adds: (1..=plan.lines.len()).collect(), gaps: vec![], classes: vec![] }
        } else {
            let targeted = rng.chance(2, 3);
            build_script(&mut rng, plan, targeted)
        };
        let no_nl = rng.chance(1, 12);
        let old_nn = !new_file && rng.chance(1, 8);
        sections[k] = render_nl(&script.segs, u, &plan.path, new_file, no_nl, old_nn);
        let mut text: String = plan.lines.iter().map(|l| format!("{l}\n")).collect();
        if no_nl { text.pop(); }
        files.push((plan.path.clone(), Some(text)));
        meta_files.push(json!({
            "path": plan.path,
            "segs": script.segs.iter().map(|s| match s { Seg::Keep(_) => "k", Seg::Del(_) => "d", Seg::Add(_) => "a" }).collect::<String>(),
            "del_texts": script.segs.iter().filter_map(|s| if let Seg::Del(t) = s { Some(t.clone()) } else { None }).collect::<Vec<_>>(),
            "adds": script.adds, "gaps": script.gaps, "classes": script.classes,
            "blocks": plan.blocks.iter().map(|b| json!({"name": b.name, "s": b.s, "e": b.e, "depth": b.depth})).collect::<Vec<_>>(),
            "nlines": plan.lines.len(), "new_file": new_file, "no_newline": no_nl,
        }));
    }
    for k in order { diff += &sections[k]; }
    let with_globs = mode == "select" && rng.chance(1, 3) || (mode == "drift" || mode == "flags") && rng.chance(1, 6);
    let all: Vec<String> = files.iter().map(|f| f.0.clone()).collect();
    let walk: Vec<String> = all.iter().filter(|p| !p.split('/').any(|c| c.starts_with('.'))).cloned().collect();
    // path arguments may cover only some of the files: the others are walked but not allowed, and are still examined
    // through the diff (touched blocks only); hidden files may be matched by a path argument without being walked
    let allow: Vec<String> = if with_globs && rng.chance(1, 2) { all.iter().filter(|_| rng.chance(1, 2)).cloned().collect() } else { all.clone() };
    // mode `flags`: drift scenarios under a random subset of the validators given to --enable or --disable (the `affects`
    // verdict needs the blocks of files that carry no rule of a selected validator: plain named targets)
    let (mut enabled, mut disabled) = (vec![], vec![]);
    if mode == "flags" {
        let subset: Vec<String> = crate::gen_src::VALIDATORS.iter().filter(|_| rng.chance(1, 3)).map(|s| s.to_string()).collect();
        match rng.below(4) {
            // `affects` alone (or with one more): its targets live in files that carry no attribute of a selected validator
            0 => { enabled = vec!["affects".to_string()]; if rng.chance(1, 2) { enabled.push(rng.pick(crate::gen_src::VALIDATORS).to_string()); } }
            1 => { disabled = vec![rng.pick(&crate::gen_src::VALIDATORS[1..]).to_string()]; }
            2 => enabled = subset,
            _ => disabled = subset,
        }
    }
    Case {
        files,
        allow: if with_globs { allow.clone() } else { vec![] },
        walk: if with_globs { walk } else { vec![] },
        scan: with_globs,
        diff: Some(diff),
        enabled,
        disabled,
        asyncs,
        patterns: vec!["^[a-z0-9]+$".to_string()],
        meta: json!({"gen": "diff", "mode": mode, "i": i, "u": u, "files": meta_files, "globs": with_globs, "glob_files": if with_globs { json!(allow) } else { Value::Null }}),
        ..Default::default()
    }
}


// ------------------------------------------------------------------------------------------------
// exhaustive small-scope edit scripts: one fixed file with two linked blocks; every assignment of keep / add / edit to its
// five non-tag lines and of zero or one deleted line to each of its ten gaps (248 832 scripts), context width cycling
// through -U0 / -U1 / -U3; `stride` samples every stride-th script

pub fn exhaustive_diff_count(stride: usize) -> usize {
    (243 * 1024 + stride - 1) / stride
}

pub fn generate_exhaustive_diff(_ctx: &mut Ctx, stride: usize, k: usize, mode: &str) -> Case {
    let i = k * stride;
    let lines: Vec<String> = ["code 0", "# <block name=\"b0\" affects=\":b1\">", "x", "y", "# </block>", "code 5", "# <block name=\"b1\" keep-sorted=\"asc\">", "z", "# </block>"]
        .iter().map(|s| s.to_string()).collect();
    let plan = FilePlan {
        path: "f0.py".into(), comment: "#", lines,
        blocks: vec![BlockGeo { name: "b0".into(), s: 2, e: 5, depth: 0 }, BlockGeo { name: "b1".into(), s: 7, e: 9, depth: 0 }],
    };
    let n = plan.lines.len();
    let free = [0usize, 2, 3, 5, 7];
    let mut ops: Vec<LineOp> = vec![LineOp::Keep; n];
    let mut r = i % 243;
    for &j in &free {
        ops[j] = match r % 3 { 0 => LineOp::Keep, 1 => LineOp::Add, _ => LineOp::Edit(format!("old {j}")) };
        r /= 3;
    }
    let mut d = i / 243;
    let mut dels_before: Vec<Vec<String>> = vec![vec![]; n + 1];
    for j in 0..=n {
        if d & 1 == 1 { dels_before[j].push(format!("deleted {j}")); }
        d >>= 1;
    }
    let script = assemble(&plan, &ops, &dels_before, vec![]);
    let u = [0usize, 1, 3][k % 3];
    let diff = render(&script.segs, u, &plan.path, false, false);
    let text: String = plan.lines.iter().map(|l| format!("{l}\n")).collect();
    let meta_files = vec![json!({
        "path": plan.path,
        "segs": script.segs.iter().map(|s| match s { Seg::Keep(_) => "k", Seg::Del(_) => "d", Seg::Add(_) => "a" }).collect::<String>(),
        "del_texts": script.segs.iter().filter_map(|s| if let Seg::Del(t) = s { Some(t.clone()) } else { None }).collect::<Vec<_>>(),
        "adds": script.adds, "gaps": script.gaps, "classes": script.classes,
        "blocks": plan.blocks.iter().map(|b| json!({"name": b.name, "s": b.s, "e": b.e, "depth": b.depth})).collect::<Vec<_>>(),
        "nlines": plan.lines.len(), "new_file": false, "no_newline": false,
    })];
    Case {
        files: vec![(plan.path.clone(), Some(text))],
        scan: false,
        diff: Some(diff),
        meta: json!({"gen": "diff", "mode": mode, "i": i, "u": u, "files": meta_files, "globs": false, "exhaustive": true}),
        ..Default::default()
    }
}
