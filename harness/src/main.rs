fn main() { println!("{:?}", blockwatch::verif_hooks::tags("x <block a=1> y </block>")); }
