mod core;
mod gen_diff;
mod gen_flags;
mod gen_glob;
mod gen_lookup;
mod gen_lua;
mod gen_soup;
mod gen_src;
mod gen_tags;
mod gen_val;
mod rng;
mod tables;
mod ts;

fn main() -> anyhow::Result<()> {
    let args: Vec<String> = std::env::args().collect();
    std::panic::set_hook(Box::new(|_| {}));
    // in-process runs build one tokio runtime per case: four workers each (the binary is run with 1 / 4 / 16 workers separately)
    if std::env::var_os("TOKIO_WORKER_THREADS").is_none() {
        unsafe { std::env::set_var("TOKIO_WORKER_THREADS", "4"); }
    }
    let a = core::parse_args(&args[2.min(args.len())..]);
    match args.get(1).map(String::as_str) {
        Some("tables") => tables::run(&args[2..]),
        Some("val") => {
            let kind = a.rest.first().cloned().unwrap_or_else(|| "keep-sorted".into());
            let malformed = a.rest.iter().any(|s| s == "malformed");
            let rows = core::par_cases(a.n, a.seed, |ctx, seed, i| gen_val::generate(ctx, seed, i, &kind, malformed));
            core::write_out(&a.out, &rows)
        }
        Some("exhaustive") => {
            // bwh exhaustive <kind> <maxlen> [--n limit]: every configuration x every line sequence up to maxlen
            let kind = a.rest.first().cloned().unwrap_or_else(|| "keep-sorted".into());
            let maxlen: usize = a.rest.get(1).and_then(|s| s.parse().ok()).unwrap_or(3);
            let total = gen_val::exhaustive_count(&kind, maxlen);
            let rows = core::par_cases(total, a.seed, |ctx, _seed, i| gen_val::generate_exhaustive(ctx, &kind, maxlen, i));
            core::write_out(&a.out, &rows)
        }
        Some("exdiff") => {
            // bwh exdiff <stride> [mode]: the exhaustive small-scope edit scripts (every stride-th one)
            let stride: usize = a.rest.first().and_then(|s| s.parse().ok()).unwrap_or(8);
            let mode = a.rest.get(1).cloned().unwrap_or_else(|| "drift".into());
            let total = gen_diff::exhaustive_diff_count(stride);
            let rows = core::par_cases(total, a.seed, |ctx, _seed, k| gen_diff::generate_exhaustive_diff(ctx, stride, k, &mode));
            core::write_out(&a.out, &rows)
        }
        Some("tagseq") => {
            // bwh tagseq <maxlen>: every word over {start tag, end tag} of at most maxlen tags, in four comment layouts
            let maxlen: usize = a.rest.first().and_then(|s| s.parse().ok()).unwrap_or(8);
            let total = gen_val::tagseq_count(maxlen);
            let rows = core::par_cases(total, a.seed, |ctx, _seed, i| gen_val::generate_tagseq(ctx, maxlen, i));
            core::write_out(&a.out, &rows)
        }
        Some("replay") => {
            let no_impl = a.rest.iter().any(|s| s == "--no-impl");
            let path = a.rest.iter().find(|s| !s.starts_with("--")).cloned().unwrap_or_else(|| "cases.jsonl".into());
            core::replay(&path, &a.out, no_impl)
        }
        Some("diff") => {
            let mode = a.rest.first().cloned().unwrap_or_else(|| "drift".into());
            let rows = core::par_cases(a.n, a.seed, |ctx, seed, i| gen_diff::generate(ctx, seed, i, &mode));
            core::write_out(&a.out, &rows)
        }
        Some("soup") => {
            let rows = core::par_cases(a.n, a.seed, |ctx, seed, i| gen_soup::generate(ctx, seed, i));
            core::write_out(&a.out, &rows)
        }
        Some("lua") => {
            let max_blocks = if a.tier == "thorough" { 40 } else { 12 };
            let rows = core::par_cases(a.n, a.seed, |ctx, seed, i| gen_lua::generate(ctx, seed, i, max_blocks));
            core::write_out(&a.out, &rows)
        }
        Some("linediff") => {
            // one JSON object {"old", "new"} per line of the given file -> the real line_diff ranges and similar's ops
            let path = a.rest.first().cloned().unwrap_or_default();
            let text = std::fs::read_to_string(&path)?;
            for line in text.lines() {
                let j: serde_json::Value = serde_json::from_str(line)?;
                let (old, new) = (j["old"].as_str().unwrap_or(""), j["new"].as_str().unwrap_or(""));
                let rs: Vec<Vec<usize>> = blockwatch::diff_parser::verif_line_diff(old, new).into_iter().map(|r| vec![r.start, r.end]).collect();
                println!("{}", serde_json::json!({"ranges": rs, "entry": core::ops_entry(old, new)}));
            }
            Ok(())
        }
        Some("glob") => core::write_out(&a.out, &gen_glob::rows(a.seed, a.n)),
        Some("tags") => {
            let maxlen: usize = a.rest.first().and_then(|s| s.parse().ok()).unwrap_or(3);
            core::write_out(&a.out, &gen_tags::rows(maxlen))
        }
        Some("flags") => core::write_out(&a.out, &gen_flags::rows(a.seed, a.n)),
        Some("lookup") => core::write_out(&a.out, &gen_lookup::rows(a.seed, a.n)),
        Some("multi") => {
            let flags = a.rest.first().map(|s| s == "flags").unwrap_or(false);
            let rows = core::par_cases(a.n, a.seed, |ctx, seed, i| gen_src::generate_multi(ctx, seed, i, flags));
            core::write_out(&a.out, &rows)
        }
        Some("unbalanced") => {
            let rows = core::par_cases(a.n, a.seed, |ctx, seed, i| gen_src::generate_unbalanced(ctx, seed, i));
            core::write_out(&a.out, &rows)
        }
        Some("src") => {
            let mode = a.rest.first().cloned().unwrap_or_else(|| "blocks".into());
            let rows = core::par_cases(a.n, a.seed, |ctx, seed, i| gen_src::generate(ctx, seed, i, &mode));
            core::write_out(&a.out, &rows)
        }
        _ => {
            eprintln!("usage: bwh <component> [--seed S] [--n N] [--out DIR] [--tier T] [args]");
            std::process::exit(2);
        }
    }
}
