//! C05: the tag scanner alone (`WinnowBlockTagParser`, through the `verif_hooks::tags` wrapper) on comment texts assembled
//! from tag pieces WITHOUT separators: every sequence of at most `maxlen` pieces (exhaustive), so that a tag may be the
//! very first / very last bytes of the text, glued to another tag, or cut short.
use serde_json::{Value, json};

pub const PIECES: &[&str] = &[
    "<block>", "</block>", "<block a>", "<block a=1 b='x>y'>", "</ block >", "<block name=\"n\">", "<block/>", "<blockx>",
    "<", ">", " ", "x", "é", "\n", "<block a=\"q", "</block", "<block d=\"c:\\\" e='\\'>",
];

pub fn count(maxlen: usize) -> usize {
    (0..=maxlen).map(|l| PIECES.len().pow(l as u32)).sum()
}

pub fn text_of(mut i: usize) -> String {
    let k = PIECES.len();
    let mut len = 0;
    while i >= k.pow(len as u32) { i -= k.pow(len as u32); len += 1; }
    let mut s = String::new();
    for _ in 0..len { s += PIECES[i % k]; i /= k; }
    s
}

/// the scanner's output in the model's shape: start tags with range and attributes (sorted), end tags with their start
pub fn real(text: &str) -> Value {
    let out = std::panic::catch_unwind(|| blockwatch::verif_hooks::tags(text));
    match out {
        Err(_) => json!({"panic": true}),
        Ok(tags) => Value::Array(tags.into_iter().map(|t| {
            match t["k"].as_str() {
                Some("start") => json!({"k": "start", "s": t["s"], "e": t["e"], "attrs": t["attrs"]}),
                Some("end") => json!({"k": "end", "s": t["s"]}),
                _ => json!({"k": "err"}),
            }
        }).collect()),
    }
}

pub fn rows(maxlen: usize) -> Vec<(Value, Value)> {
    (0..count(maxlen)).map(|i| {
        let text = text_of(i);
        let r = real(&text);
        (json!({"op": "tags", "text": text, "meta": {"gen": "tags", "i": i}}), r)
    }).collect()
}
