//! Case construction, the in-process run of the real code, canonical outcomes, parallel driver.
use crate::ts;
use blockwatch::blocks::{FileSystem, PathChecker, parse_blocks};
use blockwatch::diff_parser::{LineChange, line_changes_from_diff};
use blockwatch::validators;
use serde_json::{Map, Value, json};
use std::collections::{BTreeMap, BTreeSet, HashMap, HashSet};
use std::ffi::OsString;
use std::panic::{AssertUnwindSafe, catch_unwind};
use std::path::{Path, PathBuf};
use std::sync::Arc;

pub struct Fs {
    pub files: Vec<(String, Option<String>)>, // walk order; None = unreadable
}
impl FileSystem for Fs {
    fn read_to_string(&self, p: &Path) -> anyhow::Result<String> {
        let key = p.display().to_string();
        match self.files.iter().find(|(k, _)| *k == key) {
            Some((_, Some(t))) => Ok(t.clone()),
            _ => Err(anyhow::anyhow!("Failed to read file \"{key}\"")),
        }
    }
    fn walk(&self) -> impl Iterator<Item = anyhow::Result<PathBuf>> {
        self.files.iter().map(|(k, _)| Ok(PathBuf::from(k)))
    }
}
pub struct Pc {
    pub allow: HashSet<String>,
    pub ignore: HashSet<String>,
}
impl PathChecker for Pc {
    fn should_allow(&self, p: &Path) -> bool {
        self.allow.contains(&p.display().to_string())
    }
    fn should_ignore(&self, p: &Path) -> bool {
        self.ignore.contains(&p.display().to_string())
    }
}

#[derive(Clone, Default)]
pub struct Case {
    pub files: Vec<(String, Option<String>)>,
    pub walk: Vec<String>,
    pub allow: Vec<String>,
    pub ignore: Vec<String>,
    pub scan: bool,
    pub changes: Option<BTreeMap<String, Vec<(usize, Option<Vec<(usize, usize)>>)>>>,
    pub diff: Option<String>,
    pub extra: BTreeMap<String, String>,
    pub enabled: Vec<String>,
    pub disabled: Vec<String>,
    pub patterns: Vec<String>,
    pub asyncs: Vec<Value>,
    pub meta: Value,
}

pub struct Ctx {
    pub grammars: HashMap<&'static str, ts::Grammar>,
}
impl Ctx {
    pub fn new() -> Self {
        Ctx { grammars: ts::grammars() }
    }
}

fn extra_os(extra: &BTreeMap<String, String>) -> HashMap<OsString, OsString> {
    extra.iter().map(|(k, v)| (OsString::from(k), OsString::from(v))).collect()
}

/// which registered suffix class the real lookup picks for `path` (None = no grammar)
pub fn impl_class(_ctx: &mut Ctx, path: &str, extra: &BTreeMap<String, String>) -> Option<Vec<String>> {
    let parsers = blockwatch::language_parsers::language_parsers().expect("parsers");
    blockwatch::blocks::verif_parser_class(Path::new(path), &parsers, &extra_os(extra))
}

fn op_json(op: &similar::DiffOp) -> Value {
    use similar::DiffOp::*;
    match *op {
        Equal { old_index, new_index, len } => json!(["equal", old_index, new_index, len]),
        Delete { old_index, old_len, new_index } => json!(["delete", old_index, old_len, new_index]),
        Insert { old_index, new_index, new_len } => json!(["insert", old_index, new_index, new_len]),
        Replace { old_index, old_len, new_index, new_len } => json!(["replace", old_index, old_len, new_index, new_len]),
    }
}

pub fn ops_entry(old: &str, new: &str) -> Value {
    let diff = similar::TextDiff::from_chars(old, new);
    json!({"old": old, "new": new, "ops": diff.ops().iter().map(op_json).collect::<Vec<_>>()})
}

/// character-diff oracle entries for every (removed line, added line) pair of a diff text: the walk
/// may pair a removed line with any later added line (pending removals survive non-context lines)
pub fn ops_for_diff(diff: &str) -> Vec<Value> {
    let mut out = vec![];
    let mut seen = HashSet::new();
    let mut rem: Vec<&str> = vec![];
    for line in diff.lines() {
        if let Some(r) = line.strip_prefix('-') {
            rem.push(r);
        } else if let Some(a) = line.strip_prefix('+') {
            for r in rem.iter() {
                if seen.insert((r.to_string(), a.to_string())) {
                    out.push(ops_entry(r, a));
                }
            }
        } else if line.starts_with("diff --git ") {
            rem.clear();
        }
    }
    out
}

fn regex_entry(p: &str, texts: &BTreeSet<String>) -> Value {
    // `mi[k]` is the outcome on the k-th text of the case's `regex_texts` (shared by all patterns)
    match regex::Regex::new(p) {
        Err(_) => json!({"p": p, "ok": false, "mi": []}),
        Ok(re) => {
            let m: Vec<Value> = texts
                .iter()
                .map(|t| match re.captures(t) {
                    None => Value::Null,
                    Some(c) => {
                        let w = c.get(0).unwrap();
                        match c.name("value") {
                            Some(v) => json!([w.start(), w.end(), v.start(), v.end()]),
                            None => json!([w.start(), w.end()]),
                        }
                    }
                })
                .collect();
            json!({"p": p, "ok": true, "mi": m})
        }
    }
}

/// the suffix the *harness* uses to pick a grammar for its own tree-sitter walk: taken from the
/// real lookup's class (so the node list is the one the implementation's grammar produces)
fn ext_for(ctx: &mut Ctx, path: &str, extra: &BTreeMap<String, String>) -> Option<String> {
    // any member of the class the harness has a grammar for: the class is the set of suffixes sharing one parser object, so
    // a further suffix registered for an existing grammar (`mjs` next to `js`) changes nothing here
    let class = impl_class(ctx, path, extra)?;
    class.into_iter().find(|e| ctx.grammars.contains_key(e.as_str()))
}

pub fn case_json(ctx: &mut Ctx, case: &Case) -> Value {
    let mut files = vec![];
    let mut texts: BTreeSet<String> = BTreeSet::new();
    for (path, text) in &case.files {
        let mut nodes_json = vec![];
        let mut tree_json = Value::Null;
        if let Some(t) = text {
            if let Some(ext) = ext_for(ctx, path, &case.extra) {
                let nodes = ts::nodes(&ext, &ctx.grammars, t);
                tree_json = ts::tree(&ext, &ctx.grammars, t).unwrap_or(Value::Null);
                // candidate contents: between the end of comment i and the start of comment j > i
                // (a block's content starts after a comment holding a start tag and ends before one holding an end tag)
                if !case.patterns.is_empty() {
                    // deliberately loose (end tags may be spelled `< / block >`): any comment mentioning `block`
                    let has = |k: usize, needles: &[&str]| t.get(nodes[k].0..nodes[k].1).map(|c| needles.iter().all(|n| c.contains(n))).unwrap_or(true);
                    let starts: Vec<bool> = (0..nodes.len()).map(|k| has(k, &["<", "block"])).collect();
                    let ends: Vec<bool> = (0..nodes.len()).map(|k| has(k, &["<", "/", "block"])).collect();
                    for i in 0..nodes.len() {
                        if !starts[i] { continue; }
                        for j in (i + 1)..nodes.len() {
                            if !ends[j] { continue; }
                            if nodes[i].1 <= nodes[j].0 {
                                let content = &t[nodes[i].1..nodes[j].0];
                                texts.insert(content.to_string());
                                for l in content.lines() {
                                    texts.insert(l.to_string());
                                    texts.insert(l.trim().to_string());
                                }
                            }
                        }
                    }
                }
                nodes_json = nodes.iter().map(|(s, e, k)| json!([s, e, k])).collect();
            }
        }
        let mut fj = json!({"path": path, "text": text, "nodes": nodes_json});
        if !tree_json.is_null() { fj["tree"] = tree_json; }
        files.push(fj);
    }
    let regex: Vec<Value> = case.patterns.iter().collect::<BTreeSet<_>>().into_iter().map(|p| regex_entry(p, &texts)).collect();
    let mut j = json!({
        "op": "pipeline", "files": files, "walk": case.walk, "allow": case.allow, "ignore": case.ignore,
        "scan": case.scan, "extra": case.extra, "enabled": case.enabled, "disabled": case.disabled,
        "regex": regex, "regex_texts": texts.iter().collect::<Vec<_>>(), "async": case.asyncs, "meta": case.meta,
    });
    if let Some(d) = &case.diff {
        j["diff"] = json!(d);
        j["ops"] = json!(ops_for_diff(d));
    } else if let Some(ch) = &case.changes {
        let mut m = Map::new();
        for (p, lcs) in ch {
            m.insert(p.clone(), Value::Array(lcs.iter().map(|(l, r)| json!({"line": l, "ranges": r.as_ref().map(|v| v.iter().map(|x| json!([x.0, x.1])).collect::<Vec<_>>())})).collect()));
        }
        j["changes"] = Value::Object(m);
    }
    j
}

fn first_number_after(msg: &str, marker: &str) -> Option<u64> {
    let i = msg.find(marker)? + marker.len();
    let digits: String = msg[i..].chars().take_while(|c| c.is_ascii_digit()).collect();
    digits.parse().ok()
}

fn quoted_after(msg: &str, marker: &str) -> Option<String> {
    let i = msg.find(marker)? + marker.len();
    let rest = &msg[i..];
    let end = rest.find('"')?;
    Some(rest[..end].to_string())
}

pub fn classify_parse_error(msg: &str) -> Value {
    // `kind`, `file` and `line` are read off the wording where it is recognised; the message itself always travels along, so
    // that a reworded error can still be matched by the file path it names (wording is not an observable of any property)
    let file = quoted_after(msg, "Failed to parse file \"").or_else(|| quoted_after(msg, "Failed to read file \""));
    let mut v = if msg.contains("is not closed") {
        json!({"file": file, "kind": "unclosed", "line": first_number_after(msg, "Block at line ")})
    } else if msg.contains("Unexpected closed block") {
        json!({"file": file, "kind": "unexpected-close", "line": first_number_after(msg, "Unexpected closed block at line ")})
    } else if msg.contains("Failed to read file") {
        json!({"file": file, "kind": "read"})
    } else if msg.contains("Unexpected hunk found") {
        json!({"kind": "diff-unexpected-hunk"})
    } else if msg.contains("Target without source") {
        json!({"kind": "diff-target-without-source"})
    } else {
        json!({"kind": "other"})
    };
    v["msg"] = json!(msg);
    v
}

pub fn classify_run_error(msg: &str) -> &'static str {
    if msg.contains("keep-sorted expected values") { "bad-direction" }
    else if msg.contains("keep-sorted-format has an unsupported") { "bad-format" }
    else if msg.contains("Invalid keep-sorted-pattern") || msg.contains("Invalid keep-unique regex") || msg.contains("line-pattern expected a valid regular expression") { "bad-regex" }
    else if msg.contains("is not a valid number") { "not-a-number" }
    else if msg.contains("line-count expected a comparator") { "bad-constraint" }
    else if msg.contains("Invalid \"affects\" attribute value") { "bad-affects" }
    else if msg.contains("Failed to parse \"severity\" attribute") { "bad-severity" }
    else if msg.contains("check-lua requires a non-empty script path") { "empty-lua-path" }
    else if msg.contains("check-ai requires a non-empty condition") { "empty-ai-condition" }
    else if msg.contains("check-lua") { "lua-error" }
    else if msg.contains("check-ai") || msg.contains("API key") { "ai-error" }
    else { "other" }
}

fn data_json(d: &Value) -> Value {
    let mut m = Map::new();
    if let Some(o) = d.as_object() {
        for (k, v) in o {
            m.insert(k.clone(), match v {
                Value::String(s) => json!(s),
                other => json!(other.to_string()),
            });
        }
    }
    Value::Object(m)
}

fn diag_json(file: &Path, d: &Value) -> Value {
    let r = &d["range"];
    json!({
        "file": file.display().to_string(), "code": d["code"],
        "range": [r["start"]["line"], r["start"]["character"], r["end"]["line"], r["end"]["character"]],
        "severity": d["severity"], "data": data_json(d.get("data").unwrap_or(&Value::Null)),
    })
}

/// runs the real code on the case; every observable in canonical (order-free) form
pub fn run_impl(_ctx: &mut Ctx, case: &Case) -> Value {
    let fs = WalkLimited { inner: Fs { files: case.files.clone() }, walk: case.walk.clone() };
    let pc = Pc { allow: case.allow.iter().cloned().collect(), ignore: case.ignore.iter().cloned().collect() };
    let parsers = blockwatch::language_parsers::language_parsers().expect("parsers");
    let result = catch_unwind(AssertUnwindSafe(|| -> Value {
        let changes: HashMap<PathBuf, Vec<LineChange>> = if let Some(d) = &case.diff {
            match line_changes_from_diff(d) {
                Ok(c) => c,
                Err(e) => return json!({"ctx": {"err": [classify_parse_error(&format!("{e:#}"))]}, "exit": 1}),
            }
        } else if let Some(ch) = &case.changes {
            ch.iter().map(|(p, l)| (PathBuf::from(p), l.iter().map(|(line, r)| LineChange { line: *line, ranges: r.as_ref().map(|v| v.iter().map(|x| x.0..x.1).collect()) }).collect())).collect()
        } else {
            HashMap::new()
        };
        let mut changes_json = Map::new();
        for (p, l) in &changes {
            changes_json.insert(p.display().to_string(), Value::Array(l.iter().map(|c| json!({"line": c.line, "ranges": c.ranges.as_ref().map(|r| r.iter().map(|x| json!([x.start, x.end])).collect::<Vec<_>>())})).collect()));
        }
        let blocks = match parse_blocks(changes, case.scan, &fs, &pc, parsers, extra_os(&case.extra)) {
            Ok(b) => b,
            Err(e) => return json!({"changes": changes_json, "ctx": {"err": [classify_parse_error(&format!("{e:#}"))]}, "exit": 1}),
        };
        let vctx = validators::ValidationContext::new(blocks);
        let dump = blockwatch::verif_hooks::context_dump(&vctx);
        let enabled: HashSet<&str> = case.enabled.iter().map(String::as_str).collect();
        let disabled: HashSet<&str> = case.disabled.iter().map(String::as_str).collect();
        let (s, a) = match validators::detect_validators(&vctx, validators::DETECTOR_FACTORIES, &disabled, &enabled) {
            Ok(x) => x,
            Err(e) => return json!({"changes": changes_json, "ctx": {"files": dump}, "run": {"err": [classify_run_error(&format!("{e:#}"))]}, "exit": 1}),
        };
        let detected = s.len() + a.len();
        // a run with async validators builds its own tokio runtime (one thread per core): sixteen of those being set up
        // and torn down concurrently in one process contend on the address-space lock and get ten times slower, so
        // such runs take turns (the runs themselves still use the full runtime; the binary is exercised separately)
        static ASYNC_TURN: std::sync::Mutex<()> = std::sync::Mutex::new(());
        let _turn = if a.is_empty() { None } else { Some(ASYNC_TURN.lock().unwrap_or_else(|e| e.into_inner())) };
        match validators::run(Arc::new(vctx), s, a) {
            Err(e) => json!({"changes": changes_json, "ctx": {"files": dump}, "detected_count": detected, "run": {"err": [classify_run_error(&format!("{e:#}"))], "msg": format!("{e:#}")}, "exit": 1}),
            Ok(v) => {
                let mut diags = vec![];
                let mut has_error = false;
                for (f, vs) in &v {
                    for x in vs {
                        let d = serde_json::to_value(x.as_simple_diagnostic()).unwrap();
                        if d["severity"] == json!(1) { has_error = true; }
                        diags.push(diag_json(f, &d));
                    }
                }
                // the keys of the map `run` returns: the files `main` prints in the report (a key with an empty list included)
                let mut report_files: Vec<String> = v.keys().map(|f| f.display().to_string()).collect();
                report_files.sort();
                json!({"changes": changes_json, "ctx": {"files": dump}, "detected_count": detected, "run": {"diags": diags, "files": report_files}, "exit": if has_error { 1 } else { 0 }})
            }
        }
    }));
    match result {
        Ok(v) => v,
        Err(p) => {
            let msg = p.downcast_ref::<String>().cloned().or_else(|| p.downcast_ref::<&str>().map(|s| s.to_string())).unwrap_or_default();
            json!({"panic": msg})
        }
    }
}

/// a file system whose `walk` lists only the walked files (in the case's order) but which can read
/// every case file (diff-only files are read by path)
struct WalkLimited {
    inner: Fs,
    walk: Vec<String>,
}
impl FileSystem for WalkLimited {
    fn read_to_string(&self, p: &Path) -> anyhow::Result<String> {
        self.inner.read_to_string(p)
    }
    fn walk(&self) -> impl Iterator<Item = anyhow::Result<PathBuf>> {
        self.walk.iter().map(|k| Ok(PathBuf::from(k)))
    }
}

/// generate `n` cases in parallel (case `i` depends only on (seed, i)); returns (case, impl) lines in order
pub fn par_cases<F>(n: usize, seed: u64, generator: F) -> Vec<(Value, Value)>
where
    F: Fn(&mut Ctx, u64, usize) -> Case + Sync,
{
    let threads = std::thread::available_parallelism().map(|x| x.get()).unwrap_or(4).min(16);
    let results: Vec<std::sync::Mutex<Option<(Value, Value)>>> = (0..n).map(|_| std::sync::Mutex::new(None)).collect();
    let next = std::sync::atomic::AtomicUsize::new(0);
    // watchdog: a case that keeps the implementation busy for longer than the limit is a hang; it is written to
    // $BWH_HANG_FILE (regenerated from its index) and the process exits with status 3
    use std::sync::atomic::{AtomicU64, AtomicUsize, Ordering};
    let limit_ms: u64 = std::env::var("BWH_CASE_LIMIT_S").ok().and_then(|s| s.parse().ok()).unwrap_or(90u64) * 1000;
    let ticks = AtomicU64::new(0);
    let cur: Vec<AtomicUsize> = (0..threads).map(|_| AtomicUsize::new(usize::MAX)).collect();
    let since: Vec<AtomicU64> = (0..threads).map(|_| AtomicU64::new(0)).collect();
    let done = std::sync::atomic::AtomicBool::new(false);
    std::thread::scope(|s| {
        s.spawn(|| {
            // time is counted in the watchdog's own 250 ms ticks, not on the wall clock: when the whole machine stalls (a paused
            // virtual machine, a burst of other work) the ticks stall with it and no case looks hung
            while !done.load(Ordering::Relaxed) {
                std::thread::sleep(std::time::Duration::from_millis(250));
                let now = ticks.fetch_add(1, Ordering::Relaxed) * 250 + 250;
                for t in 0..threads {
                    let i = cur[t].load(Ordering::Relaxed);
                    if i != usize::MAX && now.saturating_sub(since[t].load(Ordering::Relaxed)) > limit_ms {
                        let mut ctx = Ctx::new();
                        let case = generator(&mut ctx, seed, i);
                        let cj = case_json(&mut ctx, &case);
                        if let Ok(path) = std::env::var("BWH_HANG_FILE") {
                            let _ = std::fs::write(&path, serde_json::json!({"index": i, "limit_s": limit_ms / 1000, "case": cj}).to_string());
                        }
                        eprintln!("bwh: case {i} did not finish within {} s", limit_ms / 1000);
                        std::process::exit(3);
                    }
                }
            }
        });
        let workers: Vec<_> = (0..threads).map(|t| {
            let (cur, since, next, results, generator, ticks) = (&cur, &since, &next, &results, &generator, &ticks);
            s.spawn(move || {
                let mut ctx = Ctx::new();
                loop {
                    let i = next.fetch_add(1, Ordering::Relaxed);
                    if i >= n { break; }
                    let case = generator(&mut ctx, seed, i);
                    let cj = case_json(&mut ctx, &case);
                    since[t].store(ticks.load(Ordering::Relaxed) * 250, Ordering::Relaxed);
                    cur[t].store(i, Ordering::Relaxed);
                    let ij = run_impl(&mut ctx, &case);
                    cur[t].store(usize::MAX, Ordering::Relaxed);
                    *results[i].lock().unwrap() = Some((cj, ij));
                }
            })
        }).collect();
        for w in workers { let _ = w.join(); }
        done.store(true, Ordering::Relaxed);
    });
    results.into_iter().map(|m| m.into_inner().unwrap().unwrap()).collect()
}

pub fn write_out(dir: &str, rows: &[(Value, Value)]) -> anyhow::Result<()> {
    use std::io::Write;
    std::fs::create_dir_all(dir)?;
    let mut c = std::io::BufWriter::new(std::fs::File::create(format!("{dir}/cases.jsonl"))?);
    let mut o = std::io::BufWriter::new(std::fs::File::create(format!("{dir}/impl.jsonl"))?);
    for (cj, ij) in rows {
        writeln!(c, "{cj}")?;
        writeln!(o, "{ij}")?;
    }
    Ok(())
}

/// rebuild a `Case` from its JSON form (a generated pipeline case, or a raw case written by check.py)
pub fn case_from_json(j: &Value) -> Case {
    let strs = |k: &str| -> Vec<String> {
        j.get(k).and_then(|v| v.as_array()).map(|a| a.iter().filter_map(|x| x.as_str().map(String::from)).collect()).unwrap_or_default()
    };
    let files: Vec<(String, Option<String>)> = j.get("files").and_then(|v| v.as_array()).map(|a| {
        a.iter().map(|f| (f["path"].as_str().unwrap_or("").to_string(), f["text"].as_str().map(String::from))).collect()
    }).unwrap_or_default();
    let changes = j.get("changes").and_then(|v| v.as_object()).map(|m| {
        m.iter().map(|(p, l)| {
            (p.clone(), l.as_array().map(|a| a.iter().map(|c| {
                (c["line"].as_u64().unwrap_or(0) as usize,
                 c["ranges"].as_array().map(|rs| rs.iter().map(|r| (r[0].as_u64().unwrap_or(0) as usize, r[1].as_u64().unwrap_or(0) as usize)).collect()))
            }).collect()).unwrap_or_default())
        }).collect()
    });
    let mut patterns = strs("patterns");
    if let Some(rx) = j.get("regex").and_then(|v| v.as_array()) {
        for e in rx { if let Some(p) = e["p"].as_str() { patterns.push(p.to_string()); } }
    }
    Case {
        files,
        walk: strs("walk"),
        allow: strs("allow"),
        ignore: strs("ignore"),
        scan: j.get("scan").and_then(|v| v.as_bool()).unwrap_or(true),
        changes,
        diff: j.get("diff").and_then(|v| v.as_str()).map(String::from),
        extra: j.get("extra").and_then(|v| v.as_object()).map(|m| m.iter().filter_map(|(k, v)| v.as_str().map(|s| (k.clone(), s.to_string()))).collect()).unwrap_or_default(),
        enabled: strs("enabled"),
        disabled: strs("disabled"),
        patterns,
        asyncs: j.get("async").and_then(|v| v.as_array()).cloned().unwrap_or_default(),
        meta: j.get("meta").cloned().unwrap_or(Value::Null),
    }
}

/// `bwh replay --out DIR cases.jsonl`: re-run recorded / hand-written cases
pub fn replay(path: &str, out: &str, no_impl: bool) -> anyhow::Result<()> {
    let text = std::fs::read_to_string(path)?;
    let mut ctx = Ctx::new();
    let mut rows = vec![];
    for line in text.lines() {
        if line.trim().is_empty() { continue; }
        let j: Value = serde_json::from_str(line)?;
        let strs = |k: &str| -> Vec<String> {
            j.get(k).and_then(|v| v.as_array()).map(|a| a.iter().filter_map(|x| x.as_str().map(String::from)).collect()).unwrap_or_default()
        };
        match j.get("op").and_then(|v| v.as_str()) {
            Some("glob") => {
                let ij = if no_impl { json!({"skipped": true}) } else { crate::gen_glob::real(&strs("globs"), &strs("ignores"), j["path"].as_str().unwrap_or("")) };
                rows.push((j.clone(), ij));
                continue;
            }
            Some("tags") => {
                let ij = if no_impl { json!({"skipped": true}) } else { crate::gen_tags::real(j["text"].as_str().unwrap_or("")) };
                rows.push((j.clone(), ij));
                continue;
            }
            Some("flags") => {
                let ij = if no_impl { json!({"skipped": true}) } else { crate::gen_flags::real(&strs("E"), &strs("e"), &strs("d")) };
                rows.push((j.clone(), ij));
                continue;
            }
            Some("lookup") => {
                let extra: BTreeMap<String, String> = j.get("extra").and_then(|v| v.as_object()).map(|m| {
                    m.iter().filter_map(|(k, v)| v.as_str().map(|s| (k.clone(), s.to_string()))).collect()
                }).unwrap_or_default();
                let ij = if no_impl { json!({"skipped": true}) } else { json!({"class": impl_class(&mut ctx, j["path"].as_str().unwrap_or(""), &extra)}) };
                rows.push((j.clone(), ij));
                continue;
            }
            _ => {}
        }
        let case = case_from_json(&j);
        let cj = case_json(&mut ctx, &case);
        let ij = if no_impl { json!({"skipped": true}) } else { run_impl(&mut ctx, &case) };
        rows.push((cj, ij));
    }
    write_out(out, &rows)
}

pub struct Args {
    pub seed: u64,
    pub n: usize,
    pub out: String,
    pub tier: String,
    pub rest: Vec<String>,
}
pub fn parse_args(args: &[String]) -> Args {
    let mut a = Args { seed: 1, n: 1000, out: ".".into(), tier: "quick".into(), rest: vec![] };
    let mut i = 0;
    while i < args.len() {
        match args[i].as_str() {
            "--seed" => { a.seed = args[i + 1].parse().unwrap_or(1); i += 2; }
            "--n" => { a.n = args[i + 1].parse().unwrap_or(1000); i += 2; }
            "--out" => { a.out = args[i + 1].clone(); i += 2; }
            "--tier" => { a.tier = args[i + 1].clone(); i += 2; }
            other => { a.rest.push(other.to_string()); i += 1; }
        }
    }
    a
}
