//! C16: file-name shapes x -E maps -> which grammar class the real `parser_for_file_path` picks.
use crate::core::{Ctx, impl_class};
use crate::gen_src::all_exts;
use crate::rng::Rng;
use serde_json::{Value, json};
use std::collections::BTreeMap;

pub fn rows(seed: u64, n: usize) -> Vec<(Value, Value)> {
    let mut ctx = Ctx::new();
    let exts = all_exts();
    let mut out = vec![];
    let extras: Vec<BTreeMap<String, String>> = vec![
        BTreeMap::new(),
        [("cxx".to_string(), "cpp".to_string()), ("c++".to_string(), "cpp".to_string())].into_iter().collect(),
        [("py".to_string(), "rs".to_string())].into_iter().collect(),
        [("ts".to_string(), "py".to_string())].into_iter().collect(),           // proper suffix of d.ts remapped
        [("mod".to_string(), "py".to_string())].into_iter().collect(),          // proper suffix of go.mod remapped
        [("bak".to_string(), "md".to_string()), ("txt".to_string(), "toml".to_string())].into_iter().collect(),
        [("x".to_string(), "Makefile".to_string())].into_iter().collect(),
        [("Makefile".to_string(), "py".to_string())].into_iter().collect(),
        // keys are free-form: longer than every registered suffix, compound, with dashes
        [("properties".to_string(), "toml".to_string()), ("javascript".to_string(), "js".to_string()), ("config.yaml".to_string(), "yaml".to_string())].into_iter().collect(),
        [("a-very-long-extension-name-indeed".to_string(), "py".to_string()), ("dockerfile".to_string(), "sh".to_string()), ("prod.properties".to_string(), "md".to_string())].into_iter().collect(),
    ];
    let mut i = 0u64;
    let mut push = |ctx: &mut Ctx, path: String, extra: &BTreeMap<String, String>, out: &mut Vec<(Value, Value)>| {
        let class = impl_class(ctx, &path, extra);
        out.push((json!({"op": "lookup", "path": path, "extra": extra, "meta": {"gen": "lookup"}}), json!({"class": class})));
    };
    // exhaustive part: every registered suffix x every shape x every -E map
    for ext in &exts {
        let shapes = [
            format!("{ext}"), format!("b.{ext}"), format!("b.x.{ext}"), format!(".b.{ext}"), format!("b.{ext}.bak"),
            format!("B.{}", ext.to_uppercase()), format!("dir.d/b.{ext}"), format!("a/b c/é.{ext}"), format!("d/{ext}"),
            format!("b.{ext}."), format!("b{ext}"), format!("x.cxx.{ext}"), format!("{ext}.x"), format!("b.{ext}/"), format!("../b.{ext}"),
        ];
        for extra in &extras {
            for s in &shapes {
                push(&mut ctx, s.clone(), extra, &mut out);
            }
        }
    }
    for p in ["", ".", "..", "a/..", "x", "x.", ".x", "x.cxx", "y.c++", "README", "a.txt", "a.b.c.d.e", "go.mod.bak", "x.mod", "foo.go.sum",
              "app.properties", "app.prod.properties", "conf/x.config.yaml", "config.yaml", "properties", "a.dockerfile", "dockerfile", "b.javascript",
              "c.a-very-long-extension-name-indeed", "d.x.a-very-long-extension-name-indeed", "a.properties.bak", "PROPERTIES", "a.Properties"] {
        for extra in &extras { push(&mut ctx, p.to_string(), extra, &mut out); }
    }
    // random part
    let parts = ["a", "b", "x", "go", "mod", "sum", "d", "ts", "py", "rs", "Makefile", "makefile", "mk", "md", "bak", "cxx", "", "é", "JS", "Rs", "properties", "javascript", "config", "yaml", "prod", "dockerfile"];
    while out.len() < n.max(out.len()) && i < n as u64 {
        let mut rng = Rng::new(seed, i);
        i += 1;
        let k = 1 + rng.below(4);
        let name: Vec<&str> = (0..k).map(|_| *rng.pick(&parts)).collect();
        let dir = ["", "d/", "a.b/", "x.py/"][rng.below(4)];
        let path = format!("{dir}{}", name.join("."));
        let extra = rng.pick(&extras).clone();
        push(&mut ctx, path, &extra, &mut out);
    }
    out
}
