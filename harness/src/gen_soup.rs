//! C04: token soups and mutations of well-formed files under every suffix, in scan and diff mode.
use crate::core::{Case, Ctx};
use crate::gen_src::{Opts, all_exts, gen_file, lang_for};
use crate::rng::Rng;
use serde_json::json;

const TOKENS: &[&str] = &[
    "/*", "*/", "//", "///", "//!", "#", "#!", "--", "<!--", "-->", "[//]:", "[//]: #", "(", ")", "\"", "'", "`", "=begin", "=end", "\n", "\n", "\r\n", " ", "  ", "\t",
    "<block", "<block>", "<block ", "</block>", "</ block >", "<", ">", "/", "=", "name", "name=", "name=\"a\"", "severity=\"warning\"", "x='", "<block name=\"", "affects=\":a\"",
    "*", " * ", "\n\u{a0}* ", "\n\u{3000}*", "\n \u{a0}*x", "\n\u{2028}*", "/**", "**/", "/*!", "/*/", "*/*", "<!-->", "<!--->", "--!>", "<!", "]]>", "<![CDATA[", "<?php", "?>", "<p>", "</p>", "<textarea>", "{", "}", "[", "]", ";", ":",
    "\u{a0}", "é", "😀", "e\u{301}", "\u{200b}", "\u{feff}", "\u{2028}", "名", "\u{0}", "\\", "\\n", "a", "1", "x y", "def f():", "fn f() {}", "- ", "> ", "```", "~~~", "    ",
    "[é]:", "[a]: b", "[//]: \"", "[//]: # (", "(x)", "<!-- <block -->", "key: v", "k = 1", "$x", "@", "%", "&lt;",
];

fn soup(rng: &mut Rng) -> String {
    let n = rng.below(40);
    (0..n).map(|_| *rng.pick(TOKENS)).collect()
}

fn mutate(rng: &mut Rng, text: &str) -> String {
    let mut chars: Vec<char> = text.chars().collect();
    for _ in 0..1 + rng.below(4) {
        if chars.is_empty() { break; }
        let pos = rng.below(chars.len());
        match rng.below(5) {
            0 => { chars.remove(pos); }
            1 => { let t: Vec<char> = rng.pick(TOKENS).chars().collect(); for (k, c) in t.into_iter().enumerate() { chars.insert((pos + k).min(chars.len()), c); } }
            2 => { let end = (pos + 1 + rng.below(12)).min(chars.len()); chars.drain(pos..end); }
            3 => { let q = rng.below(chars.len()); chars.swap(pos, q); }
            _ => { let end = (pos + 1 + rng.below(20)).min(chars.len()); let seg: Vec<char> = chars[pos..end].to_vec(); for (k, c) in seg.into_iter().enumerate() { chars.insert(pos + k, c); } }
        }
    }
    chars.into_iter().collect()
}

pub fn generate(_ctx: &mut Ctx, seed: u64, i: usize) -> Case {
    let mut rng = Rng::new(seed, i as u64);
    let exts = all_exts();
    let ext = exts[i % exts.len()];
    let l = lang_for(ext);
    let text = if rng.chance(1, 2) {
        soup(&mut rng)
    } else {
        let opts = Opts { fancy: rng.chance(1, 2), rules: false, crlf: rng.chance(1, 6), lookalikes: true };
        let mut p = vec![];
        let f = gen_file(&mut rng, l, &opts, &mut p);
        mutate(&mut rng, &f.text)
    };
    let path = if ["Makefile", "makefile", "go.mod", "go.sum", "go.work"].contains(&ext) { ext.to_string() } else { format!("s.{ext}") };
    let nlines = text.split('\n').count();
    let mode = rng.below(4);
    let mut case = Case {
        files: vec![(path.clone(), Some(text.clone()))],
        walk: vec![path.clone()],
        allow: vec![path.clone()],
        scan: true,
        meta: json!({"gen": "soup", "ext": ext, "i": i, "mode": mode}),
        ..Default::default()
    };
    match mode {
        1 => {
            // diff mode with arbitrary (also out-of-range) line changes; sorted by line like the walk produces them
            let mut lcs: Vec<(usize, Option<Vec<(usize, usize)>>)> = (0..rng.below(5))
                .map(|_| {
                    let line = 1 + rng.below(nlines + 2);
                    let ranges = if rng.chance(1, 2) { None } else {
                        let mut rs: Vec<(usize, usize)> = vec![];
                        let mut at = rng.below(6);
                        for _ in 0..1 + rng.below(3) { let len = 1 + rng.below(5); rs.push((at, at + len)); at += len + 1 + rng.below(4); }
                        Some(rs)
                    };
                    (line, ranges)
                })
                .collect();
            lcs.sort_by_key(|x| x.0);
            lcs.dedup_by_key(|x| x.0);
            case.changes = Some([(path.clone(), lcs)].into_iter().collect());
            case.scan = false; case.walk = vec![]; case.allow = vec![];
        }
        2 => {
            // a well-formed one-hunk diff replacing a random line of the file
            let lines: Vec<&str> = text.split('\n').collect();
            let k = rng.below(lines.len());
            let new_line = lines[k].trim_end_matches('\r');
            let old_line = mutate(&mut rng, new_line).replace(['\n', '\r'], " ");
            case.diff = Some(format!("diff --git a/{path} b/{path}\n--- a/{path}\n+++ b/{path}\n@@ -{} +{} @@\n-{}\n+{}\n", k + 1, k + 1, old_line, new_line));
            case.scan = false; case.walk = vec![]; case.allow = vec![];
        }
        3 => {
            // a token-soup "diff"
            let body: String = (0..rng.below(12)).map(|_| format!("{}{}\n", ["+", "-", " ", "@@ -1 +1 @@", "--- a/x", "+++ b/x", "\\ No newline", "diff --git", ""][rng.below(9)], *rng.pick(TOKENS))).collect();
            // the header may name the target as git quotes unusual names (`core.quotePath`): octal bytes and the short escapes
            // \a \b \t \n \v \f \r \" \\, also unterminated or with a stray backslash at the end
            let target = if rng.chance(1, 3) {
                let stem = ["caf\\303\\251", "notes\\there", "bell\\a", "q\\\"x", "back\\\\slash", "nl\\nx", "cr\\rx", "vt\\v\\f\\b", "oct\\1", "\\777", "end\\"][rng.below(11)];
                let close = if rng.chance(1, 6) { "" } else { "\"" };
                format!("\"b/{stem}.{}{close}", path.rsplit('.').next().unwrap_or("py"))
            } else { format!("b/{path}") };
            case.diff = Some(format!("--- a/{path}\n+++ {target}\n@@ -1,{} +1,{} @@\n{}", rng.below(4), rng.below(4), body));
            case.scan = false; case.walk = vec![]; case.allow = vec![];
        }
        _ => {}
    }
    case
}
