//! One PRNG (xorshift64*) for every random choice, so that a case replays from (seed, index).
#[derive(Clone)]
pub struct Rng(pub u64);

impl Rng {
    pub fn new(seed: u64, index: u64) -> Self {
        let mut z = seed
            .wrapping_mul(0x9E3779B97F4A7C15)
            .wrapping_add(index.wrapping_mul(0xBF58476D1CE4E5B9))
            .wrapping_add(0x94D049BB133111EB);
        z = (z ^ (z >> 30)).wrapping_mul(0xBF58476D1CE4E5B9);
        z = (z ^ (z >> 27)).wrapping_mul(0x94D049BB133111EB);
        z ^= z >> 31;
        Rng(z | 1)
    }
    pub fn next(&mut self) -> u64 {
        self.0 ^= self.0 << 13;
        self.0 ^= self.0 >> 7;
        self.0 ^= self.0 << 17;
        self.0.wrapping_mul(0x2545F4914F6CDD1D)
    }
    pub fn below(&mut self, n: usize) -> usize {
        if n == 0 { 0 } else { (self.next() % n as u64) as usize }
    }
    pub fn chance(&mut self, num: usize, den: usize) -> bool {
        self.below(den) < num
    }
    pub fn pick<'a, T>(&mut self, xs: &'a [T]) -> &'a T {
        &xs[self.below(xs.len())]
    }
    pub fn shuffle<T>(&mut self, xs: &mut [T]) {
        for i in (1..xs.len()).rev() {
            let j = self.below(i + 1);
            xs.swap(i, j);
        }
    }
}
