//! The harness's own tree-sitter walk: lists the nodes of the kinds each grammar's closure looks at.
//! (Which bytes are comment nodes is tree-sitter's decision and is trusted; see DESIGN.md.)
use std::collections::HashMap;
use tree_sitter::{Language, Node, Parser};

pub struct Grammar {
    pub language: Language,
    pub kinds: &'static [&'static str],
}

/// registered suffix -> (grammar, node kinds of interest)
pub fn grammars() -> HashMap<&'static str, Grammar> {
    let mut m = HashMap::new();
    let mut add = |exts: &[&'static str], language: Language, kinds: &'static [&'static str]| {
        for e in exts {
            m.insert(*e, Grammar { language: language.clone(), kinds });
        }
    };
    add(&["bash", "sh"], tree_sitter_bash::LANGUAGE.into(), &["comment"]);
    add(&["c"], tree_sitter_c::LANGUAGE.into(), &["comment"]);
    add(&["cs"], tree_sitter_c_sharp::LANGUAGE.into(), &["comment"]);
    add(&["cc", "cpp", "h"], tree_sitter_cpp::LANGUAGE.into(), &["comment"]);
    add(&["css"], tree_sitter_css::LANGUAGE.into(), &["comment"]);
    add(&["go", "go.mod", "go.sum", "go.work"], tree_sitter_go::LANGUAGE.into(), &["comment"]);
    add(&["htm", "html"], tree_sitter_html::LANGUAGE.into(), &["comment"]);
    add(&["java"], tree_sitter_java::LANGUAGE.into(), &["line_comment", "block_comment"]);
    add(&["js", "jsx"], tree_sitter_javascript::LANGUAGE.into(), &["comment"]);
    add(&["kt", "kts"], tree_sitter_kotlin_ng::LANGUAGE.into(), &["line_comment", "block_comment"]);
    add(&["Makefile", "makefile", "mk"], tree_sitter_make::LANGUAGE.into(), &["comment"]);
    add(&["markdown", "md"], tree_sitter_md::LANGUAGE.into(), &["link_reference_definition"]);
    add(&["php", "phtml"], tree_sitter_php::LANGUAGE_PHP.into(), &["comment"]);
    add(&["py", "pyi"], tree_sitter_python::LANGUAGE.into(), &["comment"]);
    add(&["rb"], tree_sitter_ruby::LANGUAGE.into(), &["comment"]);
    add(&["rs"], tree_sitter_rust::LANGUAGE.into(), &["line_comment", "block_comment"]);
    add(&["sql"], tree_sitter_sequel::LANGUAGE.into(), &["comment", "marginalia"]);
    add(&["swift"], tree_sitter_swift::LANGUAGE.into(), &["comment", "multiline_comment"]);
    add(&["toml"], tree_sitter_toml_ng::LANGUAGE.into(), &["comment"]);
    add(&["ts", "d.ts"], tree_sitter_typescript::LANGUAGE_TYPESCRIPT.into(), &["comment"]);
    add(&["tsx"], tree_sitter_typescript::LANGUAGE_TSX.into(), &["comment"]);
    add(&["xml"], tree_sitter_xml::LANGUAGE_XML.into(), &["Comment"]);
    add(&["yaml", "yml"], tree_sitter_yaml::LANGUAGE.into(), &["comment"]);
    m
}

fn walk(node: Node, kinds: &[&str], out: &mut Vec<(usize, usize, String)>) {
    if kinds.contains(&node.kind()) {
        out.push((node.start_byte(), node.end_byte(), node.kind().to_string()));
    }
    let mut cursor = node.walk();
    for child in node.children(&mut cursor) {
        walk(child, kinds, out);
    }
}

/// the syntax tree restricted to the nodes of interest and their ancestors, as nested `[start, end, kind, [children]]`
/// (the shape `CommentsIterator`'s cursor moves over; subtrees without a node of interest cannot yield a comment)
fn pruned(node: Node, kinds: &[&str]) -> Option<serde_json::Value> {
    let mut cursor = node.walk();
    let children: Vec<serde_json::Value> = node.children(&mut cursor).filter_map(|c| pruned(c, kinds)).collect();
    if kinds.contains(&node.kind()) || !children.is_empty() {
        Some(serde_json::json!([node.start_byte(), node.end_byte(), node.kind(), children]))
    } else {
        None
    }
}

pub fn tree(ext: &str, grammars: &HashMap<&'static str, Grammar>, source: &str) -> Option<serde_json::Value> {
    let g = grammars.get(ext)?;
    let mut parser = Parser::new();
    parser.set_language(&g.language).expect("language");
    let tree = parser.parse(source, None).expect("parse");
    let root = tree.root_node();
    // the root is always looked at first (`start_visited`)
    Some(pruned(root, g.kinds).unwrap_or_else(|| serde_json::json!([root.start_byte(), root.end_byte(), root.kind(), []])))
}

/// (start byte, end byte, kind) of every node of interest, in document (DFS pre-order) order.
pub fn nodes(ext: &str, grammars: &HashMap<&'static str, Grammar>, source: &str) -> Vec<(usize, usize, String)> {
    let Some(g) = grammars.get(ext) else { return vec![] };
    let mut parser = Parser::new();
    parser.set_language(&g.language).expect("language");
    let tree = parser.parse(source, None).expect("parse");
    let mut out = vec![];
    walk(tree.root_node(), g.kinds, &mut out);
    if ext == "md" || ext == "markdown" {
        // HTML comments inside Markdown html_block nodes (second comment family).
        let mut blocks = vec![];
        walk(tree.root_node(), &["html_block"], &mut blocks);
        let html: Language = tree_sitter_html::LANGUAGE.into();
        for (bs, be, _) in blocks {
            let mut p = Parser::new();
            p.set_language(&html).expect("language");
            let t = p.parse(&source[bs..be], None).expect("parse");
            let mut inner = vec![];
            walk(t.root_node(), &["comment"], &mut inner);
            for (s, e, _) in inner {
                out.push((s + bs, e + bs, "md_html_comment".to_string()));
            }
        }
    }
    out
}
