#!/usr/bin/env python3
"""Rust-source -> Lean tables (regenerated on every check run).

Parses, with strict patterns that fail loudly when the source shape changes:
  (a) the `HashMap::from([...])` in `language_parsers()`      -> Bw/Gen/Ext.lean
  (b) `DETECTOR_FACTORIES`                                      -> Bw/Gen/Detectors.lean
  (c) the `match` in `lua_from_env`                             -> Bw/Gen/LuaMode.lean
  (d) `BlockSeverity` variants, the operator prefixes of `parse_constraint`,
      the OK-reply literals and the user-message frame of check-ai -> Bw/Gen/Misc.lean
A file is rewritten only when its content changes (keeps `lake build` incremental).
"""
import re, sys, os, json

REPO = os.environ.get("BW_REPO", "/repo")
OUT = os.path.join(os.path.dirname(os.path.abspath(__file__)), "..", "lean", "Bw", "Gen")

class TranslateError(Exception):
    pass

def read(rel):
    """the source file in canonical layout: formatted by rustfmt (default style, in a scratch copy) when it is available, so
    that line breaks and indentation of the working tree do not matter to the patterns below"""
    path = os.path.join(REPO, rel)
    with open(path, encoding="utf-8") as f:
        raw = f.read()
    try:
        import shutil, subprocess, tempfile
        exe = shutil.which("rustfmt")
        if exe:
            with tempfile.TemporaryDirectory() as d:
                tmp = os.path.join(d, os.path.basename(rel))
                with open(tmp, "w", encoding="utf-8") as f:
                    f.write(raw)
                p = subprocess.run([exe, "--edition", "2024", "--config", "skip_children=true", tmp],
                                   stdout=subprocess.PIPE, stderr=subprocess.PIPE, timeout=60)
                if p.returncode == 0:
                    with open(tmp, encoding="utf-8") as f:
                        return f.read()
    except Exception:
        pass
    return raw

def lean_str(s):
    out = []
    for ch in s:
        if ch == '\\': out.append('\\\\')
        elif ch == '"': out.append('\\"')
        elif ch == '\n': out.append('\\n')
        elif ch == '\t': out.append('\\t')
        elif ch == '\r': out.append('\\r')
        else: out.append(ch)
    return '"' + ''.join(out) + '"'

def write_if_changed(name, text):
    os.makedirs(OUT, exist_ok=True)
    p = os.path.join(OUT, name)
    old = None
    if os.path.exists(p):
        with open(p, encoding="utf-8") as f:
            old = f.read()
    if old != text:
        with open(p, "w", encoding="utf-8") as f:
            f.write(text)

def ext_table():
    src = read("src/language_parsers/mod.rs")
    m = re.search(r"Ok\(HashMap::from\(\[(.*?)\]\)\)", src, re.S)
    if not m:
        raise TranslateError("language_parsers(): HashMap::from([...]) not found")
    body = m.group(1)
    entries = []
    for line in body.splitlines():
        line = line.strip()
        if not line or line.startswith("//"):
            continue
        em = re.fullmatch(r'\("([^"]+)"\.into\(\), (?:Rc::clone\(&(\w+)\)|(\w+))\),', line)
        if not em:
            raise TranslateError(f"language_parsers(): unrecognised table line: {line!r}")
        entries.append((em.group(1), em.group(2) or em.group(3)))
    # parser variables: `let X = parser(MODULE::parser()?);`
    decl = dict((v, mod) for v, mod in re.findall(r"let (\w+) = parser\((\w+)::parser\(\)\?\);", src))
    for _, v in entries:
        if v not in decl:
            raise TranslateError(f"language_parsers(): parser variable {v} has no `let {v} = parser(..)`")
    keys = [k for k, _ in entries]
    if len(set(keys)) != len(keys):
        raise TranslateError("language_parsers(): duplicate key in table (HashMap::from keeps the last)")
    # the model names a grammar after its language *module* (`c::parser()` -> "c_parser"), not after the local variable
    # that happens to hold it, so renaming the variables of language_parsers() changes nothing
    canon = {"javascript": "js_parser", "tsx": "typescript_tsx_parser"}
    label = {v: canon.get(mod, mod + "_parser") for v, mod in decl.items()}
    entries = [(k, label[v]) for k, v in entries]
    decl = {label[v]: mod for v, mod in decl.items()}
    return entries, decl

def detectors():
    src = read("src/validators/mod.rs")
    m = re.search(r"pub const DETECTOR_FACTORIES: &\[\(&str, DetectorFactory\)\] = &\[(.*?)\n\];", src, re.S)
    if not m:
        raise TranslateError("DETECTOR_FACTORIES not found")
    names = re.findall(r'\(\s*"([^"]+)",\s*\|\|', m.group(1))
    classes = re.findall(r'Box::new\((\w+)::new\(\)\)', m.group(1))
    if len(names) != len(classes) or not names:
        raise TranslateError("DETECTOR_FACTORIES: could not pair names with detector types")
    return list(zip(names, classes))

def lua_modes():
    src = read("src/validators/check_lua.rs")
    m = re.search(r"fn lua_from_env\(\) -> Lua \{(.*?)\n\}\n", src, re.S)
    if not m:
        raise TranslateError("lua_from_env not found")
    body = m.group(1)
    dm = re.search(r'\.unwrap_or\("(\w+)"\)', body)
    if not dm:
        raise TranslateError("lua_from_env: default mode not found")
    arms = []
    for am in re.finditer(r'^\s*"(\w+)" => (.*?),\s*$', body, re.M):
        arms.append((am.group(1), am.group(2).strip()))
    dflt = re.search(r"^\s*_ => (.*?)\n    \}", body, re.S | re.M)
    if not dflt:
        raise TranslateError("lua_from_env: wildcard arm not found")
    def libs_of(expr):
        if "unsafe_new" in expr:
            return ["ALL_UNSAFE"]
        if re.fullmatch(r"Lua::new\(\)", expr):
            return ["ALL_SAFE"]
        if "new_with" in expr:
            return sorted(re.findall(r"StdLib::(\w+)", expr))
        raise TranslateError(f"lua_from_env: unrecognised constructor {expr!r}")
    removed = sorted(re.findall(r'"(\w+)"', re.search(r"for name in \[(.*?)\]", dflt.group(1)).group(1))) \
        if re.search(r"for name in \[(.*?)\]", dflt.group(1)) else []
    return dm.group(1), [(n, libs_of(e)) for n, e in arms], libs_of(dflt.group(1)), removed

def severity():
    blocks = read("src/blocks.rs")
    m = re.search(r"pub enum BlockSeverity \{(.*?)\}", blocks, re.S)
    if not m:
        raise TranslateError("BlockSeverity not found")
    sev = [(n, int(v)) for n, v in re.findall(r"(\w+) = (\d+),", m.group(1))]
    if not sev:
        raise TranslateError("BlockSeverity: no `Name = n` variants found")
    # how names are matched is only read off a derived parser (`EnumString`, with or without `ascii_case_insensitive`); a
    # hand-written `FromStr` is not understood: the last generated table is kept and compared with the live parser
    head = blocks[max(0, m.start() - 300):m.start()]
    attrs = head[head.rfind("\n\n") + 1:] if "\n\n" in head else head
    if not re.search(r"#\[derive\([^)]*\bEnumString\b", attrs):
        raise TranslateError("BlockSeverity: `FromStr` is not derived by strum's EnumString; how severity names are matched cannot be read off the source")
    insens = "ascii_case_insensitive" in attrs
    return sev, insens

def constraint_prefixes():
    lc = read("src/validators/line_count.rs")
    pm = re.search(r"fn parse_constraint\(s: &str\).*?\{(.*?)\n\}\n", lc, re.S)
    if not pm:
        raise TranslateError("parse_constraint not found")
    prefixes = re.findall(r"strip_prefix\((?:\"([^\"]+)\"|'([^'])')\)\s*\{\s*\(Op::(\w+),", pm.group(1))
    ops = [((a or b), op) for a, b, op in prefixes]
    if not ops:
        raise TranslateError("parse_constraint: no operator prefixes found")
    return ops

def ai_literals():
    ai = read("src/validators/check_ai.rs")
    oks = re.findall(r'message\.eq_ignore_ascii_case\("([^"]+)"\)', ai)
    fm = re.search(r'format!\("(CONDITION:.*?)"\)', ai)
    if not fm or not oks:
        raise TranslateError("check_ai: reply literals / user message frame not found")
    return oks, fm.group(1)

def sort_formats():
    ks = read("src/validators/keep_sorted.rs")
    m = re.search(r"enum SortFormat \{(.*?)\}", ks, re.S)
    if not m:
        raise TranslateError("SortFormat not found")
    fmts = re.findall(r"^\s+(\w+),$", m.group(1), re.M)
    if not fmts:
        raise TranslateError("SortFormat: no variants found")
    return fmts

def alnum_table(path):
    d = json.load(open(path))
    rs = d["alnum"]
    rows = [f"  ({a}, {b})," for a, b in rs]
    rows[-1] = rows[-1].rstrip(",")
    text = "\n".join(["/-! GENERATED by tools/translate.py from `bwh tables` (Rust std `char::is_alphanumeric`) — do not edit. -/",
                      "namespace Bw.Gen", "", "def alnumRanges : List (Nat × Nat) := ["] + rows +
                     ["]", "", "def isAlnum (c : Char) : Bool := alnumRanges.any (fun r => r.1 ≤ c.toNat && c.toNat ≤ r.2)",
                      "", "end Bw.Gen", ""])
    write_if_changed("Alnum.lean", text)

def load_prev():
    try:
        with open(os.path.join(OUT, "tables.json"), encoding="utf-8") as f:
            return json.load(f)
    except Exception:
        return {}

def main():
    if len(sys.argv) > 2 and sys.argv[1] == "--tables":
        alnum_table(sys.argv[2])
        return
    # every table is translated on its own: when the source of ONE table no longer has a shape the patterns understand, that
    # table keeps its last generated value (recorded under "errors"/"stale" in the output, the caller decides what that means
    # for which property) and the others are still regenerated
    prev = load_prev()
    errors = {}
    def attempt(name, fn, keys):
        try:
            return fn()
        except (TranslateError, AttributeError, KeyError, IndexError, ValueError) as e:
            errors[name] = f"{type(e).__name__}: {e}"
            if not all(k in prev for k in keys):
                raise TranslateError(f"{name}: {e} (and no previously generated table to fall back on)")
            return None

    r = attempt("ext", ext_table, ["ext", "parser_modules"])
    if r is None:
        entries, decl = [tuple(e) for e in prev["ext"]], dict(prev["parser_modules"])
    else:
        entries, decl = r
    lines = ["/-! GENERATED by tools/translate.py from src/language_parsers/mod.rs — do not edit. -/",
             "namespace Bw.Gen", "",
             "/-- registered file-name suffix ↦ parser variable (grammar identity) -/",
             "def extTable : List (String × String) := ["]
    lines += [f"  ({lean_str(k)}, {lean_str(v)})," for k, v in entries]
    lines[-1] = lines[-1].rstrip(",")
    lines += ["]", "", "/-- parser variable ↦ language module -/", "def parserModule : List (String × String) := ["]
    lines += [f"  ({lean_str(v)}, {lean_str(m)})," for v, m in sorted(decl.items())]
    lines[-1] = lines[-1].rstrip(",")
    lines += ["]", "", "end Bw.Gen", ""]
    write_if_changed("Ext.lean", "\n".join(lines))

    det = attempt("detectors", detectors, ["detectors"])
    if det is None:
        det = [tuple(e) for e in prev["detectors"]]
    lines = ["/-! GENERATED by tools/translate.py from src/validators/mod.rs — do not edit. -/",
             "namespace Bw.Gen", "", "def detectorNames : List String := [" +
             ", ".join(lean_str(n) for n, _ in det) + "]", "",
             "def detectorClasses : List (String × String) := [" +
             ", ".join(f"({lean_str(n)}, {lean_str(c)})" for n, c in det) + "]", "", "end Bw.Gen", ""]
    write_if_changed("Detectors.lean", "\n".join(lines))

    lm = attempt("lua", lua_modes, ["lua"])
    if lm is None:
        l = prev["lua"]
        lm = (l["default"], [(n, libs) for n, libs in l["arms"]], l["wildcard"], l["removed"])
    dflt_name, arms, dflt_libs, removed = lm
    def ll(xs): return "[" + ", ".join(lean_str(x) for x in xs) + "]"
    lines = ["/-! GENERATED by tools/translate.py from src/validators/check_lua.rs — do not edit. -/",
             "namespace Bw.Gen", "",
             f"def luaDefaultModeName : String := {lean_str(dflt_name)}",
             "def luaArms : List (String × List String) := [" +
             ", ".join(f"({lean_str(n)}, {ll(l)})" for n, l in arms) + "]",
             f"def luaWildcardLibs : List String := {ll(dflt_libs)}",
             f"def luaWildcardRemovedGlobals : List String := {ll(removed)}", "", "end Bw.Gen", ""]
    write_if_changed("LuaMode.lean", "\n".join(lines))

    sv = attempt("severity", severity, ["severity", "severity_case_insensitive"])
    sev, insens = sv if sv is not None else ([tuple(e) for e in prev["severity"]], prev["severity_case_insensitive"])
    ops = attempt("constraint_prefixes", constraint_prefixes, ["constraint_prefixes"])
    if ops is None:
        ops = [tuple(e) for e in prev["constraint_prefixes"]]
    aiv = attempt("ai", ai_literals, ["ai_ok", "ai_frame"])
    oks, frame = aiv if aiv is not None else (prev["ai_ok"], prev["ai_frame"])
    fmts = attempt("sort_formats", sort_formats, ["sort_formats"])
    if fmts is None:
        fmts = prev["sort_formats"]
    lines = ["/-! GENERATED by tools/translate.py — do not edit. -/", "namespace Bw.Gen", "",
             "def severityTable : List (String × Nat) := [" +
             ", ".join(f"({lean_str(n)}, {v})" for n, v in sev) + "]",
             f"def severityCaseInsensitive : Bool := {'true' if insens else 'false'}",
             "def constraintPrefixes : List (String × String) := [" +
             ", ".join(f"({lean_str(p)}, {lean_str(o)})" for p, o in ops) + "]",
             f"def aiOkReplies : List String := {ll(oks)}",
             f"def aiUserFrame : String := {lean_str(frame.encode().decode('unicode_escape'))}",
             f"def sortFormats : List String := {ll(fmts)}", "", "end Bw.Gen", ""]
    write_if_changed("Misc.lean", "\n".join(lines))
    out = {"ext": entries, "parser_modules": decl, "detectors": det,
           "lua": {"default": dflt_name, "arms": arms, "wildcard": dflt_libs, "removed": removed},
           "severity": sev, "severity_case_insensitive": insens, "constraint_prefixes": ops, "ai_ok": oks, "ai_frame": frame,
           "sort_formats": fmts}
    write_if_changed("tables.json", json.dumps(out, indent=1, sort_keys=True) + "\n")
    out["errors"] = errors
    json.dump(out, sys.stdout)
    print()

if __name__ == "__main__":
    try:
        main()
    except TranslateError as e:
        print(f"TRANSLATE-ERROR: {e}", file=sys.stderr)
        sys.exit(3)
