#!/bin/bash
# usage: tools/revert_test.sh <fix-commit> <property>...   (reverts a fix in /repo's working tree, runs the checks, restores)
sha=$1; shift
cd /repo && git show "$sha" | git apply -R || exit 2
cd /verif
for p in "$@"; do
  out=$(python3 check.py "$p" --tier quick 2>&1 | grep -E "VIOLATION|ok \(" | head -2)
  echo "revert $sha -> $p: $out"
done
git -C /repo checkout -- .
rm -rf /verif/replays
git -C /verif checkout -- evidence 2>/dev/null   # evidence written against a modified tree is not kept
