#!/bin/bash
# runs every quick check on the current (clean) tree so that the committed evidence files come from clean runs
cd /verif
git -C /repo diff --quiet || { echo "/repo is dirty"; exit 2; }
fail=0
for p in C01 C02 C03 C04 C05 C06 C07 C08 C09 C10 C11 C12 C13 C14 C15 C16 C17 C18 C19 C20; do
  o=$(python3 check.py $p --tier quick 2>&1 | grep -E "VIOLATION|: ok \(" | head -2)
  echo "$o"
  case "$o" in *VIOLATION*) fail=1;; esac
done
exit $fail
