function check(ctx, content)
  return nil
end
