function validate(ctx, content)
  return "fixed message"
end
