-- always "fixed message" on an interpreter of its own; a global carried over from an earlier block (an interpreter shared by
-- several blocks, a script loaded once for several blocks) changes the answer
function validate(ctx, content)
  if seen_before then return "stale interpreter state: validate() has run before in this interpreter" end
  seen_before = true
  return "fixed message"
end
