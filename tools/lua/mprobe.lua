-- Compact environment fingerprint, meant to run in MANY blocks of one run: an interpreter handed to a later block
-- (recycled, pooled, shared) must offer exactly what a fresh one offers.
local function fingerprint(phase)
  local names = {}
  for k, v in next, _G do
    if type(k) == "string" and k ~= "validate" and k ~= "__seen" then names[#names + 1] = k .. ":" .. string.sub(type(v), 1, 1) end
  end
  table.sort(names)
  local esc = {}
  local function try(name, f)
    local ok, res = pcall(f)
    if ok and res then esc[#esc + 1] = name end
  end
  try("dofile", function() return dofile("secret.lua") end)
  try("loadfile", function() local f = loadfile("secret.lua"); return f and f() end)
  try("require", function() return require("secret") end)
  try("io", function() return io.open("secret.lua", "r") end)
  try("os", function() return os.getenv("HOME") end)
  try("package", function() return package.path end)
  try("debug", function() return debug.getregistry() end)
  try("strmeta", function() local m = getmetatable(""); return m and m.__index ~= string end)
  return phase .. "[" .. table.concat(names, ",") .. "]esc[" .. table.concat(esc, ",") .. "]"
end

local at_load = fingerprint("load")

function validate(ctx, content)
  return at_load .. " " .. fingerprint("call")
end
