-- returns its arguments: file, line, attributes (sorted by name) and content, between separators
function validate(ctx, content)
  local keys = {}
  for k, _ in pairs(ctx.attrs) do keys[#keys + 1] = k end
  table.sort(keys)
  local parts = {}
  for _, k in ipairs(keys) do parts[#parts + 1] = k .. "=" .. ctx.attrs[k] .. "\30" end
  return "file=" .. ctx.file .. "\31line=" .. tostring(ctx.line) .. "\31attrs=" .. table.concat(parts) .. "\31content=" .. content
end
