function validate(ctx, content)
  return {}
end
