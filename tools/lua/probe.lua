-- Sandbox-legal probe: walks everything reachable from _G, the string metatable and the metatable of
-- every visited value (once at load time, once inside validate) and returns both graphs through the diagnostic message.
local function walk()
  local ids, n, edges, kinds, queue = {}, 0, {}, {}, {}
  local function id(v)
    local t = type(v)
    if t ~= "table" and t ~= "function" and t ~= "userdata" and t ~= "thread" then return nil end
    if not ids[v] then n = n + 1; ids[v] = n; kinds[n] = t; queue[#queue+1] = v end
    return ids[v]
  end
  id(_G)
  local smt = getmetatable("")
  if smt then edges[#edges+1] = "0>" .. id(smt) .. ":<strmeta>" end
  local i = 1
  while i <= #queue do
    local v = queue[i]; i = i + 1
    local me = ids[v]
    if type(v) == "table" then
      for k, x in next, v do
        local kid = id(k); if kid then edges[#edges+1] = me .. ">" .. kid .. ":<key>" end
        local xid = id(x); if xid then edges[#edges+1] = me .. ">" .. xid .. ":" .. tostring(k) end
      end
    end
    local mt = getmetatable(v)
    if mt ~= nil then
      local mid = id(mt); if mid then edges[#edges+1] = me .. ">" .. mid .. ":<meta>" end
    end
  end
  local ks = {}
  for j = 1, n do ks[j] = string.sub(kinds[j], 1, 1) end
  return "N=" .. n .. " K=" .. table.concat(ks) .. " E=" .. table.concat(edges, ",")
end

-- the environment is inspected twice: while the chunk is loaded (top level) and inside validate()
local at_load = walk()

function validate(ctx, content)
  return at_load .. "\n@@\n" .. walk()
end
