function validate(ctx, content)
  return true
end
