-- always nil on an interpreter of its own; complains when a global from an earlier block is still around
calls = (calls or 0) + 1
function validate(ctx, content)
  if calls > 1 or ran then return "stale interpreter state: the script has been loaded or run before in this interpreter" end
  ran = true
  return nil
end
