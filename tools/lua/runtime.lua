function validate(ctx, content)
  error("boom")
end
