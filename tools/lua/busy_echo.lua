-- spins for a content-dependent number of iterations, then echoes like echo.lua (different completion orders)
function validate(ctx, content)
  local n = (ctx.line * 7919) % 60000
  local x = 0
  for i = 1, n do x = x + i % 7 end
  local keys = {}
  for k, _ in pairs(ctx.attrs) do keys[#keys + 1] = k end
  table.sort(keys)
  local parts = {}
  for _, k in ipairs(keys) do parts[#parts + 1] = k .. "=" .. ctx.attrs[k] .. "\30" end
  return "file=" .. ctx.file .. "\31line=" .. tostring(ctx.line) .. "\31attrs=" .. table.concat(parts) .. "\31content=" .. content
end
