function validate(ctx, content
  return nil
