function validate(ctx, content)
  return 42
end
