-- safe mode only: appends one line per call to the file named by BW_COUNT_LOG
function validate(ctx, content)
  local f = io.open(os.getenv("BW_COUNT_LOG"), "a")
  f:write(ctx.file .. ":" .. tostring(ctx.line) .. "\n")
  f:close()
  return nil
end
