error("top-level failure")
