-- Battery of concrete escape attempts; each must be blocked in the default mode.
local out = {}
local function attempts(phase)
  local function try(name, f)
    name = phase .. name
    local ok, res = pcall(f)
    if ok and res then out[#out+1] = name .. "=ESCAPED(" .. string.gsub(string.sub(tostring(res), 1, 40), "[|\n]", " ") .. ")" else out[#out+1] = name .. "=blocked" end
  end
  try("dofile", function() return dofile("secret.lua") end)
  try("loadfile", function() local f = loadfile("secret.lua"); return f and f() end)
  try("require", function() return require("secret") end)
  try("io.open", function() local f = io.open("secret.lua", "r"); return f and f:read("a") end)
  try("io.write", function() local f = io.open("written.txt", "w"); f:write("x"); f:close(); return "written" end)
  try("os.execute", function() return os.execute("true") end)
  try("os.getenv", function() return os.getenv("HOME") end)
  try("os.remove", function() return os.remove("victim.txt") end)
  try("package.loadlib", function() return package.loadlib("libc.so.6", "system") end)
  try("package.path", function() return package.path end)
  try("debug.getregistry", function() return debug.getregistry() end)
  try("load-binary", function() local f = load(string.dump(function() return "bin" end), "b", "b"); return f and f() end)
  -- code compiled at run time by `load` with no environment argument sees the interpreter's REAL global table
  try("load-src:dofile", function() return load("return dofile('secret.lua')")() end)
  try("load-src:loadfile", function() local f = load("return loadfile('secret.lua')")(); return f and f() end)
  try("load-src:require", function() return load("return require('secret')")() end)
  try("load-src:other-_G", function() local g = load("return _G")(); return g ~= _G and "another global table" end)
  try("load-src:other-_ENV", function() local e = load("return _ENV")(); return e ~= _ENV and "another environment" end)
  try("load-src:forbidden-global", function()
    local g = load("return _ENV")()
    for _, n in ipairs({"io", "os", "package", "debug", "require", "dofile", "loadfile"}) do
      if rawget(g, n) ~= nil and rawget(_ENV, n) == nil then return n end
    end
  end)
  try("string-meta-io", function() return ("x").open end)
  try("_G.io", function() return rawget(_G, "io") end)
  try("_G.os", function() return rawget(_G, "os") end)
  try("_G.debug", function() return rawget(_G, "debug") end)
  try("_G.package", function() return rawget(_G, "package") end)
end

-- attempts while the chunk is loaded (top level), with functions captured at load time, and inside validate()
attempts("load:")
local captured = { dofile = dofile, loadfile = loadfile, require = require, io = io, os = os, package = package, debug = debug }

function validate(ctx, content)
  attempts("")
  local function try(name, f)
    local ok, res = pcall(f)
    if ok and res then out[#out+1] = name .. "=ESCAPED(" .. string.gsub(string.sub(tostring(res), 1, 40), "[|\n]", " ") .. ")" else out[#out+1] = name .. "=blocked" end
  end
  try("captured:dofile", function() return captured.dofile("secret.lua") end)
  try("captured:loadfile", function() local f = captured.loadfile("secret.lua"); return f and f() end)
  try("captured:require", function() return captured.require("secret") end)
  try("captured:io", function() return captured.io and captured.io.open("secret.lua", "r") end)
  try("captured:os", function() return captured.os and captured.os.getenv("HOME") end)
  try("captured:debug", function() return captured.debug and captured.debug.getregistry() end)
  return table.concat(out, "|")
end
