#!/bin/bash
# usage: tools/seed_eval_rig.sh <seed-id> <agent-worktree> <rig-dir> <rig-repo-worktree> <property>...
# like tools/seed_eval.sh, but nothing touches /repo or /verif's build: the demonstration and the unedited test suite run in
# the sub-agent's own worktree (an empty .hg/ there lets the CLI tests find a repository root), the checks run in a rig
# (tools/rig.sh) against the rig's copy of the repository with the patch applied.
set -u
id=$1; wt=$2; rig=$3; rp=$4; shift 4
out=/verif/seeded/$id
mkdir -p "$out"
cp "$wt/seed_demo/patch.diff" "$out/patch.diff"
for f in "$wt"/seed_demo/*; do case "$f" in *patch.diff) ;; *) cp -r "$f" "$out/" 2>/dev/null;; esac; done
cd "$wt" || exit 2
mkdir -p .hg
git diff --quiet -- src && git apply seed_demo/patch.diff
bash seed_demo/demo.sh > "$out/demo_with_change.txt" 2>&1; with=$?
suite=$(CARGO_NET_OFFLINE=true cargo test --workspace --no-fail-fast --offline 2>&1 | grep -E "^test result" | awk '{p+=$4; f+=$6} END {print p" passed, "f" failed"}')
git apply -R seed_demo/patch.diff
bash seed_demo/demo.sh > "$out/demo_without_change.txt" 2>&1; without=$?
git apply seed_demo/patch.diff
echo "demo: with change exit=$with, without change exit=$without; suite with change: $suite"
cd "$rp" && git checkout -q -- . && git apply "$out/patch.diff" || { echo "patch does not apply"; exit 2; }
cd "$rig"
results=""
for p in "$@"; do
  rm -rf "$rig/replays/$p"
  o=$(BW_REPO=$rp python3 check.py "$p" --tier quick 2>&1 | grep -E "VIOLATION|ok \(" | head -1)
  echo "check $p: $o"
  case "$o" in *VIOLATION*) results="$results\"$p\": \"caught\", ";; *) results="$results\"$p\": \"missed\", ";; esac
  first=$(ls "$rig"/replays/$p/*.json 2>/dev/null | head -1)
  [ -n "$first" ] && cp "$first" "$out/replay_$p.json"
done
cd "$rp" && git checkout -q -- .
cat > "$out/meta.json" <<META
{"seed": "$id", "demo_exit_with_change": $with, "demo_exit_without_change": $without, "suite_with_change": "$suite",
 "checks": {${results%, }}, "ran": "tools/seed_eval_rig.sh $id $wt $rig $rp $*"}
META
cat "$out/meta.json"
