#!/bin/bash
# usage: tools/rig_eval.sh <rig-dir> <repo-worktree-dir> <label> <patch> <property>...
# applies <patch> in the rig's repository copy, runs the named quick checks there, restores the copy; prints one line per check
set -u
rig=$1; wt=$2; label=$3; patch=$4; shift 4
cd "$wt" && git checkout -q -- . && git apply "$patch" || { echo "$label: patch does not apply"; exit 2; }
cd "$rig"
for p in "$@"; do
  o=$(BW_REPO=$wt python3 check.py "$p" --tier quick 2>&1 | grep -E "VIOLATION|ok \(" | head -3 | tr '\n' ' ')
  echo "$label $p: $o"
done
cd "$wt" && git checkout -q -- .
