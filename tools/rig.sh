#!/bin/bash
# usage: tools/rig.sh <rig-dir> <repo-worktree-dir>
# A second, independent copy of the framework (build output included) whose harness and checks read <repo-worktree-dir>
# instead of /repo, so that changes can be evaluated there while /verif and /repo stay free. Scratch only: remove both
# directories (and `git -C /repo worktree remove --force <repo-worktree-dir>`) when done.
set -eu
rig=$1; wt=$2
[ -d "$wt" ] || git -C /repo worktree add -f --detach "$wt" HEAD -q
mkdir -p "$rig"
rsync -a --delete --exclude .git --exclude replays --exclude work /verif/ "$rig"/
sed -i "s#path = \"/repo\"#path = \"$wt\"#" "$rig/harness/Cargo.toml"
# the copied build output was made from /repo's sources: the rig must rebuild from its own
rm -f "$rig/harness/target/.bw_source_hash" "$rig/harness/target/repo/.bw_source_hash"
echo "rig ready: BW_REPO=$wt python3 $rig/check.py <id> --tier quick"
