#!/usr/bin/env python3
"""usage: tools/seed_task.py <round> <property>...   - creates /tmp/wt/r<round>-<property> (a scratch worktree of /repo with an
empty .hg/ so that the CLI tests find a repository root) and writes TASK.md there: the property text, the task, the list of
mechanisms already used for this property (so that the sub-agent writes something different), the deliverables."""
import glob, json, os, subprocess, sys
ROOT = os.path.dirname(os.path.dirname(os.path.abspath(__file__)))
props = {json.loads(l)["id"]: json.loads(l) for l in open(os.path.join(ROOT, "properties.jsonl"))}
rnd = sys.argv[1]
for pid in sys.argv[2:]:
    p = props[pid]
    wt = f"/tmp/wt/r{rnd}-{pid}"
    if not os.path.isdir(wt):
        subprocess.run(["git", "-C", "/repo", "worktree", "add", "-f", "--detach", "-q", wt, "HEAD"], check=True)
    os.makedirs(os.path.join(wt, ".hg"), exist_ok=True)
    used = []
    for d in sorted(glob.glob(os.path.join(ROOT, "seeded", pid + "-*"))):
        try:
            m = json.load(open(os.path.join(d, "meta.json")))
        except Exception:
            continue
        t = m.get("needs_to_manifest") or os.path.basename(d)
        used.append("- " + t.split(":")[0][:260] if len(t) > 260 else "- " + t)
    files = ", ".join(p.get("anchors", {}).get("files", []))
    task = f"""# Task

You are helping test a verification effort for the open-source Rust CLI `blockwatch` (mennanov/blockwatch). Your own scratch git
worktree of the project is this directory, {wt} - work ONLY inside it (never touch /repo or /verif, do not read anything under
/verif). The sandbox is offline: always use `cargo ... --offline`. Build: `cargo build --offline`. Test suite:
`cargo test --workspace --no-fail-fast --offline` (237 tests; all must still pass after your change, unedited). The worktree's
`.git` is a file, so an empty `.hg/` directory has been placed in the worktree root to let the CLI tests find the repository
root - leave it there.

## Property ({pid}: {p.get('title', '')})

"{p.get('statement', '')}"

Relevant code: {files}.

## What to write

A realistic change to the Rust source (the kind of slip a maintainer could make in a refactor, an optimisation, a feature addition
or a "small fix") that BREAKS this property while the crate still compiles and the whole existing test suite still passes
unedited. The breakage must need something specific to manifest - an unusual input, a multi-step combination, a particular
arrangement of files / blocks / options, a particular order or schedule, two cooperating code sites that each look fine alone -
not something ordinary use would expose at once.

These mechanisms have ALREADY been used for this property; pick a different code site and a different kind of slip:
{chr(10).join(used) if used else '- (none yet)'}

## Deliverables, all in {wt}/seed_demo/

1. `patch.diff` - `git diff` of your source change (only files under src/), applicable with `git apply` to a clean checkout.
2. `demo.sh` - a self-contained bash script, run from the worktree root, that builds the binary (`cargo build --offline -q`),
   creates its own scratch git repository under a mktemp dir with the files (diff, scripts, fake endpoint ...) it needs, runs the
   built binary (`target/debug/blockwatch`) and exits 0 when the property holds and 1 when it is violated. It must exit 1 with
   your change and 0 without it (verify both yourself, e.g. with `git apply -R seed_demo/patch.diff`). Keep block-tag-like text
   out of the comments of demo.sh itself (one CLI test scans every file of the worktree). Facts about the tool: it finds its
   repository root via a `.git` / `.hg` directory; it reads a unified diff from stdin when stdin is not a terminal (use
   `< /dev/null` for none, together with explicit globs); diagnostics are one JSON object on stderr; `blockwatch list [globs]`
   prints the blocks per file as JSON on stdout; check-lua scripts define `validate(ctx, content)`; check-ai uses
   BLOCKWATCH_AI_API_KEY / BLOCKWATCH_AI_API_URL / BLOCKWATCH_AI_MODEL (a python3 http.server on 127.0.0.1 works as endpoint).
3. `NOTES.md` - what the change is, why the tests do not notice, exactly what is needed for it to manifest.

Leave the change applied in the worktree's working tree (uncommitted). Confirm the full test suite passes with the change applied.
Report back briefly: the mechanism, the trigger condition, and the results of the demo with / without the change and of the suite.
"""
    open(os.path.join(wt, "TASK.md"), "w").write(task)
    print(wt)
