#!/bin/bash
# usage: tools/seed_eval.sh <seed-id> <worktree> <property>...
# confirms an independently written breaking change (demo fails with it / passes without it, suite passes with it),
# runs the named checks against it in /repo, restores /repo, and stores the result under /verif/seeded/<seed-id>/
set -u
id=$1; wt=$2; shift 2
out=/verif/seeded/$id
mkdir -p "$out"
cp "$wt/seed_demo/patch.diff" "$out/patch.diff"
cp "$wt/seed_demo/demo.sh" "$out/demo.sh" 2>/dev/null
cp "$wt/seed_demo/NOTES.md" "$out/NOTES.md" 2>/dev/null
for f in "$wt"/seed_demo/*; do case "$f" in *patch.diff|*demo.sh|*NOTES.md) ;; *) cp -r "$f" "$out/" 2>/dev/null;; esac; done
cd "$wt" || exit 2
git diff --quiet -- src && git apply seed_demo/patch.diff   # make sure the change is applied
bash seed_demo/demo.sh > "$out/demo_with_change.txt" 2>&1; with=$?
git apply -R seed_demo/patch.diff
bash seed_demo/demo.sh > "$out/demo_without_change.txt" 2>&1; without=$?
git apply seed_demo/patch.diff
echo "demo: with change exit=$with, without change exit=$without"
cd /repo || exit 2
git diff --quiet || { echo "/repo is dirty"; exit 2; }
git apply "$out/patch.diff" || { echo "patch does not apply to /repo"; exit 2; }
suite=$(cargo test --workspace --no-fail-fast --offline 2>&1 | grep -E "^test result" | awk '{p+=$4; f+=$6} END {print p" passed, "f" failed"}')
echo "suite with change: $suite"
cd /verif
results=""
for p in "$@"; do
  o=$(python3 check.py "$p" --tier quick 2>&1 | grep -E "VIOLATION|ok \(" | head -1)
  echo "check $p: $o"
  case "$o" in *VIOLATION*) results="$results\"$p\": \"caught\", ";; *) results="$results\"$p\": \"missed\", ";; esac
  first=$(ls /verif/replays/$p/*.json 2>/dev/null | head -1)
  [ -n "$first" ] && cp "$first" "$out/replay_$p.json"
done
git -C /repo checkout -- .
rm -rf /verif/replays
git -C /verif checkout -- evidence 2>/dev/null   # evidence written against a modified tree is not kept
cat > "$out/meta.json" <<META
{"seed": "$id", "demo_exit_with_change": $with, "demo_exit_without_change": $without, "suite_with_change": "$suite",
 "checks": {${results%, }}, "ran": "tools/seed_eval.sh $id $wt $*"}
META
cat "$out/meta.json"
