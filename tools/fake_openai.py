"""A local chat-completions endpoint with fault injection (C19). Behaviour is chosen per request
from the CONDITION text of the user message: plan[condition] = {"reply": str} | {"fault": kind}."""
import http.server, json, socket, threading


class Fake:
    def __init__(self, plan):
        self.plan = plan
        self.requests = []
        self.lock = threading.Lock()
        outer = self

        class H(http.server.BaseHTTPRequestHandler):
            protocol_version = "HTTP/1.1"

            def log_message(self, *a):
                pass

            def do_POST(self):
                n = int(self.headers.get("content-length", 0))
                body = self.rfile.read(n)
                try:
                    req = json.loads(body)
                except Exception:
                    req = {"_raw": body.decode(errors="replace")}
                user = ""
                try:
                    user = [m for m in req["messages"] if m["role"] == "user"][0]["content"]
                except Exception:
                    pass
                with outer.lock:
                    outer.requests.append({"path": self.path, "auth": self.headers.get("authorization"), "body": req})
                cond = user.split("\n\nBLOCK (formatting preserved):\n")[0][len("CONDITION:\n"):] if user.startswith("CONDITION:\n") else None
                act = outer.plan.get(cond, {"reply": "OK"})
                # an answer may be held back ("delay" seconds): answers then arrive in another order than the requests were sent
                if act.get("delay"):
                    import time as _t
                    _t.sleep(float(act["delay"]))

                def send(code, payload, ct="application/json"):
                    self.send_response(code)
                    self.send_header("content-type", ct)
                    self.send_header("content-length", str(len(payload)))
                    self.end_headers()
                    self.wfile.write(payload)

                ok = {"id": "x", "object": "chat.completion", "created": 1, "model": req.get("model", "m"),
                      "choices": [{"index": 0, "message": {"role": "assistant", "content": "OK"}, "finish_reason": "stop"}]}
                if "reply" in act:
                    ok["choices"][0]["message"]["content"] = act["reply"]
                    return send(200, json.dumps(ok).encode())
                f = act["fault"]
                if f == "400-json":
                    return send(400, json.dumps({"error": {"message": "nope", "type": "invalid_request_error", "param": None, "code": None}}).encode())
                if f == "401-plain":
                    return send(401, b"unauthorized", "text/plain")
                if f == "404-json":
                    return send(404, b"{}")
                if f == "404-plain":
                    return send(404, b"not found", "text/plain")
                if f == "bad-json":
                    return send(200, b"{not json")
                if f == "no-choices":
                    ok["choices"] = []
                    return send(200, json.dumps(ok).encode())
                if f == "null-content":
                    ok["choices"][0]["message"]["content"] = None
                    return send(200, json.dumps(ok).encode())
                if f == "empty-body":
                    return send(200, b"")
                if f == "mid-close":
                    self.send_response(200)
                    self.send_header("content-type", "application/json")
                    self.send_header("content-length", "500")
                    self.end_headers()
                    self.wfile.write(b'{"id":')
                    self.wfile.flush()
                    try:
                        self.connection.shutdown(socket.SHUT_RDWR)
                    except OSError:
                        pass
                    self.close_connection = True
                    return
                return send(500, b"{}")

        class Quiet(http.server.ThreadingHTTPServer):
            def handle_error(self, request, client_address):
                pass  # clients abort connections when another request already failed the run

        self.server = Quiet(("127.0.0.1", 0), H)
        self.server.daemon_threads = True
        self.port = self.server.server_address[1]
        self.thread = threading.Thread(target=self.server.serve_forever, daemon=True)
        self.thread.start()

    def stop(self):
        self.server.shutdown()
        self.server.server_close()
