import Bw.Props.C05
#print axioms Bw.Props.C05.cfg_wf_generated
#print axioms Bw.Props.C05.start_roundtrip
#print axioms Bw.Props.C05.start_sound
#print axioms Bw.Props.C05.start_iff
#print axioms Bw.Props.C05.last_duplicate_wins
#print axioms Bw.Props.C05.end_ws
#print axioms Bw.Props.C05.end_iff
#print axioms Bw.Props.C05.lookalike_glued
#print axioms Bw.Props.C05.lookalike_cut
#print axioms Bw.Props.C05.lookalike_prefix
#print axioms Bw.Props.C05.open_dquote_no_value
#print axioms Bw.Props.C05.open_squote_no_value
#print axioms Bw.Props.C05.lookalike_open_quote
#print axioms Bw.Props.C05.scan_skips_noise
#print axioms Bw.Props.C05.scan_skips_nontags
#print axioms Bw.Props.C05.scan_finds_start
