import Bw.Props.C04
#print axioms Bw.Props.C04.normalise_total
#print axioms Bw.Props.C04.startsWith_append
#print axioms Bw.Props.C04.findSub_prefix
#print axioms Bw.Props.C04.rfind_close_self
#print axioms Bw.Props.C04.rfindSub_suffix_close
#print axioms Bw.Props.C04.xml_ok_of_contract
#print axioms Bw.Props.C04.former_crash_inputs
#print axioms Bw.Props.C04.foldl_no_fault
#print axioms Bw.Props.C04.commentsOf_no_fault
#print axioms Bw.Props.C04.registered_parsers_known
#print axioms Bw.Props.C04.scan_terminates
#print axioms Bw.Props.C04.tags_consume
#print axioms Bw.Props.C04.pipeline_total
