import Bw.Props.C18
#print axioms Bw.Props.C18.content_plain
#print axioms Bw.Props.C18.content_match
#print axioms Bw.Props.C18.content_no_match
#print axioms Bw.Props.C18.echo_args
#print axioms Bw.Props.C18.result_nil
#print axioms Bw.Props.C18.result_string
#print axioms Bw.Props.C18.result_other_fails
#print axioms Bw.Props.C18.one_outcome_per_block
#print axioms Bw.Props.C18.unscripted_block_silent
#print axioms Bw.Props.C18.any_err_wins
