import Bw.Props.C16
#print axioms Bw.Props.C16.lookup_spec
#print axioms Bw.Props.C16.no_name_skipped
#print axioms Bw.Props.C16.suffix_coherent
#print axioms Bw.Props.C16.table_shape
#print axioms Bw.Props.C16.registered_suffix_wins
#print axioms Bw.Props.C16.unknown_skipped
#print axioms Bw.Props.C16.remap
#print axioms Bw.Props.C16.shortest_suffix_wins
#print axioms Bw.Props.C16.E_unsupported_rejected
#print axioms Bw.Props.C16.E_split
#print axioms Bw.Props.C16.E_without_equals_rejected
#print axioms Bw.Props.C16.E_last_wins
