import Bw.Props.C14
#print axioms Bw.Props.C14.detect_exact
#print axioms Bw.Props.C14.detected_mem
#print axioms Bw.Props.C14.detected_iff_loop
#print axioms Bw.Props.C14.chosen_def
#print axioms Bw.Props.C14.repeat_is_union
#print axioms Bw.Props.C14.disable_removes_exactly
#print axioms Bw.Props.C14.enable_keeps_exactly
#print axioms Bw.Props.C14.ite_regex
#print axioms Bw.Props.C14.validator_code
#print axioms Bw.Props.C14.affects_code
#print axioms Bw.Props.C14.results_code
#print axioms Bw.Props.C14.resultDiags_append
#print axioms Bw.Props.C14.resultErrors_append
#print axioms Bw.Props.C14.diags_without
#print axioms Bw.Props.C14.errors_without
#print axioms Bw.Props.C14.disable_removes_exactly_diags
#print axioms Bw.Props.C14.detector_table
