import Bw.Props.C10
#print axioms Bw.Props.C10.key_range_later_line
#print axioms Bw.Props.C10.key_range_first_line
#print axioms Bw.Props.C10.trimmed_key_range
#print axioms Bw.Props.C10.trimmed_key_cut
#print axioms Bw.Props.C10.line_pattern_key_cut
#print axioms Bw.Props.C10.regex_key_range
#print axioms Bw.Props.C10.tag_range
#print axioms Bw.Props.C10.tag_positions
#print axioms Bw.Props.C10.position_first_line
