import Bw.Props.C11
#print axioms Bw.Props.C11.exit_iff
#print axioms Bw.Props.C11.exit_is_0_or_1
#print axioms Bw.Props.C11.warning_never_fails
#print axioms Bw.Props.C11.silent_when_empty
#print axioms Bw.Props.C11.severity_case_insensitive
#print axioms Bw.Props.C11.severity_levels
#print axioms Bw.Props.C11.default_severity
#print axioms Bw.Props.C11.severity_range
#print axioms Bw.Props.C11.report_is_union
#print axioms Bw.Props.C11.mem_resultDiags
#print axioms Bw.Props.C11.run_err_iff
