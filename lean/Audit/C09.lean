import Bw.Props.C09
#print axioms Bw.Props.C09.lc_pass_iff
#print axioms Bw.Props.C09.lc_data
#print axioms Bw.Props.C09.holds_def
#print axioms Bw.Props.C09.bad_constraint_errs
#print axioms Bw.Props.C09.stripOp_le
#print axioms Bw.Props.C09.stripOp_ge
#print axioms Bw.Props.C09.stripOp_eq
#print axioms Bw.Props.C09.stripOp_lt
#print axioms Bw.Props.C09.stripOp_gt
#print axioms Bw.Props.C09.stripOp_none
#print axioms Bw.Props.C09.parseUsize_digits
#print axioms Bw.Props.C09.parseUsize_overflow
#print axioms Bw.Props.C09.count_empty
#print axioms Bw.Props.C09.count_def
