import Bw.Props.C13
#print axioms Bw.Props.C13.unknown_direction_errs
#print axioms Bw.Props.C13.unknown_format_errs
#print axioms Bw.Props.C13.non_numeric_errs
#print axioms Bw.Props.C13.non_numeric_in_loop
#print axioms Bw.Props.C13.bad_sort_regex_errs
#print axioms Bw.Props.C13.bad_unique_regex_errs
#print axioms Bw.Props.C13.bad_line_pattern_errs
#print axioms Bw.Props.C13.bad_line_count_errs
#print axioms Bw.Props.C13.bad_severity_errs
#print axioms Bw.Props.C13.blank_lua_path_errs
#print axioms Bw.Props.C13.blank_ai_condition_errs
#print axioms Bw.Props.C13.async_fault_errs
#print axioms Bw.Props.C13.bad_content_pattern_errs
#print axioms Bw.Props.C13.run_fails_closed
