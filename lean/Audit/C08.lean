import Bw.Props.C08
#print axioms Bw.Props.C08.lp_iff
#print axioms Bw.Props.C08.lp_first
#print axioms Bw.Props.C08.blank_never
#print axioms Bw.Props.C08.bad_regex_errs
#print axioms Bw.Props.C08.mem_zipIdx
#print axioms Bw.Props.C08.zipIdx_mem
#print axioms Bw.Props.C08.lp_block_iff
#print axioms Bw.Props.C08.lp_block_viol
