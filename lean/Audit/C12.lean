import Bw.Props.C12
#print axioms Bw.Props.C12.balance_append
#print axioms Bw.Props.C12.depth_balance
#print axioms Bw.Props.C12.ok_balanced
#print axioms Bw.Props.C12.not_ok_of_unbalanced
#print axioms Bw.Props.C12.delete_any_tag_errs
#print axioms Bw.Props.C12.duplicate_any_tag_errs
#print axioms Bw.Props.C12.no_guess
#print axioms Bw.Props.C12.parse_err_propagates
#print axioms Bw.Props.C12.err_propagates
#print axioms Bw.Props.C12.ok_only_if_all_ok
#print axioms Bw.Props.C12.run_err_exit
