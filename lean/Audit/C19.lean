import Bw.Props.C19
#print axioms Bw.Props.C19.ok_reply
#print axioms Bw.Props.C19.user_message_def
#print axioms Bw.Props.C19.user_message_injective
#print axioms Bw.Props.C19.reply_decides
#print axioms Bw.Props.C19.fault_is_error
#print axioms Bw.Props.C19.fault_fails_closed
#print axioms Bw.Props.C19.no_attr_no_request
#print axioms Bw.Props.C19.requests_at_most_blocks
#print axioms Bw.Props.C19.len_filterMap
#print axioms Bw.Props.C19.requests_exact
#print axioms Bw.Props.C19.request_of_block
