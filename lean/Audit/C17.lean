import Bw.Props.C17
#print axioms Bw.Props.C17.mode_arms
#print axioms Bw.Props.C17.sandbox_libs
#print axioms Bw.Props.C17.default_is_sandbox_name
#print axioms Bw.Props.C17.safe_unsafe_arms
#print axioms Bw.Props.C17.default_dump_ok
#print axioms Bw.Props.C17.default_sandbox
#print axioms Bw.Props.C17.no_forbidden_globals
#print axioms Bw.Props.C17.other_values_like_default
#print axioms Bw.Props.C17.safe_adds
#print axioms Bw.Props.C17.unsafe_adds
