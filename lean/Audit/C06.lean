import Bw.Props.C06
#print axioms Bw.Props.C06.sortLoop_some
#print axioms Bw.Props.C06.ks_loop_is_first_event
#print axioms Bw.Props.C06.ks_pass_iff
#print axioms Bw.Props.C06.ks_reports_first
#print axioms Bw.Props.C06.equal_ok
#print axioms Bw.Props.C06.keys_def_plain
#print axioms Bw.Props.C06.keys_def_pattern
#print axioms Bw.Props.C06.lexCmp_eq_iff
#print axioms Bw.Props.C06.lexCmp_swap
#print axioms Bw.Props.C06.direction_blank
#print axioms Bw.Props.C06.direction_known
#print axioms Bw.Props.C06.direction_error
#print axioms Bw.Props.C06.bad_ordering_def
#print axioms Bw.Props.C06.finish_viol
#print axioms Bw.Props.C06.finish_pass
#print axioms Bw.Props.C06.finish_err
