import Bw.Props.C03
#print axioms Bw.Props.C03.pair_dyck_append
#print axioms Bw.Props.C03.pair_of_dyck
#print axioms Bw.Props.C03.pair_ok_iff_depth
#print axioms Bw.Props.C03.content_range
#print axioms Bw.Props.C03.content_positions
#print axioms Bw.Props.C03.block_of_start
#print axioms Bw.Props.C03.insertBlock_perm
#print axioms Bw.Props.C03.foldl_insert_perm
#print axioms Bw.Props.C03.sortBlocks_perm
#print axioms Bw.Props.C03.Pos.lt_asymm
#print axioms Bw.Props.C03.Pos.lt_trans_not
#print axioms Bw.Props.C03.sorted_tail
#print axioms Bw.Props.C03.insertBlock_sorted
#print axioms Bw.Props.C03.sortBlocks_sorted
#print axioms Bw.Props.C03.normalise_keeps_line_structure
#print axioms Bw.Props.C03.tag_position_is_source_position
