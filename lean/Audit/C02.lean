import Bw.Props.C02
#print axioms Bw.Props.C02.selected_iff
#print axioms Bw.Props.C02.all_keeps_every_block
#print axioms Bw.Props.C02.flags_recorded
#print axioms Bw.Props.C02.no_changes_selects_nothing
#print axioms Bw.Props.C02.bsearch_single
#print axioms Bw.Props.C02.tag_edit_single
#print axioms Bw.Props.C02.attr_edit_selects
#print axioms Bw.Props.C02.attr_edit_not_content
#print axioms Bw.Props.C02.end_tag_line_edit_not_content
#print axioms Bw.Props.C02.bsearch_sound
#print axioms Bw.Props.C02.rangeCmp_mono
#print axioms Bw.Props.C02.hit_exact
#print axioms Bw.Props.C02.line_diff_sorted
#print axioms Bw.Props.C02.edited_line_hit_exact
#print axioms Bw.Props.C02.rules_block_local
