import Bw.Props.C15
#print axioms Bw.Props.C15.scope_eq
#print axioms Bw.Props.C15.walked_def
#print axioms Bw.Props.C15.no_scan_no_walk
#print axioms Bw.Props.C15.ignore_wins
#print axioms Bw.Props.C15.filters
#print axioms Bw.Props.C15.outside_contributes_nothing
#print axioms Bw.Props.C15.no_grammar_skipped
#print axioms Bw.Props.C15.strip_b_once
#print axioms Bw.Props.C15.root_nearest
#print axioms Bw.Props.C15.no_root_errs
#print axioms Bw.Props.C15.glob_all
#print axioms Bw.Props.C15.glob_exact
#print axioms Bw.Props.C15.glob_ext
#print axioms Bw.Props.C15.glob_dir_rec
#print axioms Bw.Props.C15.glob_name_anywhere
#print axioms Bw.Props.C15.anyMatch_cons_true
#print axioms Bw.Props.C15.terminal_default_examines_all
