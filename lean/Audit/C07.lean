import Bw.Props.C07
#print axioms Bw.Props.C07.firstDup_none_iff
#print axioms Bw.Props.C07.ku_iff
#print axioms Bw.Props.C07.firstDup_some_iff
#print axioms Bw.Props.C07.ku_first
#print axioms Bw.Props.C07.blank_not_key
#print axioms Bw.Props.C07.nonmatching_not_key
#print axioms Bw.Props.C07.ku_block_iff
#print axioms Bw.Props.C07.ku_block_viol
