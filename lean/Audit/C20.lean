import Bw.Props.C20
#print axioms Bw.Props.C20.detected_perm
#print axioms Bw.Props.C20.hasModified_perm
#print axioms Bw.Props.C20.affectsFile_perm
#print axioms Bw.Props.C20.validatorResults_perm
#print axioms Bw.Props.C20.runResults_perm
#print axioms Bw.Props.C20.resultErrors_perm
#print axioms Bw.Props.C20.resultDiags_perm
#print axioms Bw.Props.C20.exit_perm
#print axioms Bw.Props.C20.diags_perm
#print axioms Bw.Props.C20.err_perm
#print axioms Bw.Props.C20.blocks_perm_any
