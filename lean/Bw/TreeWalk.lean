/-! Model of `CommentsIterator` (`src/language_parsers/mod.rs`): the cursor-driven depth-first walk of the syntax tree.

    The cursor is a zipper; what the three moves of the loop can still reach is a stack of sibling lists:
    `kids :: rights :: …` = the children of the node just visited, its right siblings, the right siblings of its parent, …
    * `goto_first_child`  succeeds iff `kids` is non-empty,
    * `goto_next_sibling` succeeds iff `rights` is non-empty,
    * the inner loop `goto_parent` / `goto_next_sibling` pops exhausted levels. -/
namespace Bw.TreeWalk

inductive Tree (α : Type) where
  | node (label : α) (children : List (Tree α))

variable {α : Type}

def Tree.label : Tree α → α
  | .node l _ => l

def Tree.children : Tree α → List (Tree α)
  | .node _ cs => cs

mutual
  /-- document order: a node before its children, children left to right -/
  def preorder : Tree α → List α
    | .node l cs => l :: preorderL cs
  def preorderL : List (Tree α) → List α
    | [] => []
    | t :: ts => preorder t ++ preorderL ts
end

mutual
  def size : Tree α → Nat
    | .node _ cs => 1 + sizeL cs
  def sizeL : List (Tree α) → Nat
    | [] => 0
    | t :: ts => size t + sizeL ts
end

/-- one round of the outer `loop` of `next()`: the next node the cursor stops at, and what is reachable afterwards.
    First the children of the node just visited, then its right siblings, then (inner loop) the parents' right siblings. -/
def advance : List (List (Tree α)) → Option (Tree α × List (List (Tree α)))
  | [] => none
  | [] :: st => advance st
  | (t :: ts) :: st => some (t, t.children :: ts :: st)

/-- all nodes the iterator yields from a cursor state, in order (`fuel` bounds the number of `next()` calls) -/
def walkFrom : Nat → List (List (Tree α)) → List α
  | 0, _ => []
  | fuel + 1, st =>
    match advance st with
    | none => []
    | some (t, st') => t.label :: walkFrom fuel st'

/-- the iterator over a whole tree: the root is looked at first (`start_visited`), then the loop runs -/
def walk (t : Tree α) : List α := t.label :: walkFrom (size t) [t.children]

mutual
  /-- what the harness ships: the tree restricted to the nodes of interest and their ancestors -/
  def prune (keep : α → Bool) : Tree α → Option (Tree α)
    | .node l cs =>
      let cs' := pruneL keep cs
      if keep l || !cs'.isEmpty then some (.node l cs') else none
  def pruneL (keep : α → Bool) : List (Tree α) → List (Tree α)
    | [] => []
    | t :: ts =>
      match prune keep t with
      | some t' => t' :: pruneL keep ts
      | none => pruneL keep ts
end

def preorderO : Option (Tree α) → List α
  | none => []
  | some t => preorder t

end Bw.TreeWalk
