import Bw.Text
import Bw.Gen.Ext
/-! Model of `parser_for_file_path` / `try_parser_for_extension` in `src/blocks.rs`. -/
namespace Bw.Lookup

/-- suffixes after each `.` of the name, from the last dot to the first (shortest first) -/
def dotSuffixes : Text → List Text
  | [] => []
  | c :: cs => if c = '.' then dotSuffixes cs ++ [cs] else dotSuffixes cs

def splitSlash : Text → List Text
  | [] => [[]]
  | c :: cs =>
    if c = '/' then [] :: splitSlash cs
    else match splitSlash cs with
      | [] => [[c]]
      | l :: ls => (c :: l) :: ls

/-- `Path::file_name`: the last component unless it is `..` (empty and `.` components are skipped) -/
def fileName (path : Text) : Option Text :=
  match ((splitSlash path).filter (fun c => !c.isEmpty && c ≠ ['.'])).reverse with
  | [] => none
  | last :: _ => if last = "..".toList then none else some last

/-- `try_parser_for_extension`: the `-E` map is consulted first -/
def tryExt (table : List (Text × String)) (extra : List (Text × Text)) (ext : Text) : Option String :=
  let ext' := ((extra.find? (fun e => e.1 = ext)).map (·.2)).getD ext
  (table.find? (fun e => e.1 = ext')).map (·.2)

def firstSome {α β} (f : α → Option β) : List α → Option β
  | [] => none
  | x :: xs => match f x with
    | some y => some y
    | none => firstSome f xs

/-- `parser_for_file_path` over an arbitrary table -/
def lookupIn (table : List (Text × String)) (extra : List (Text × Text)) (path : Text) : Option String :=
  match fileName path with
  | none => none
  | some name =>
    match firstSome (tryExt table extra) (dotSuffixes name) with
    | some p => some p
    | none => tryExt table extra name

def table : List (Text × String) := Gen.extTable.map (fun e => (e.1.toList, e.2))

/-- the grammar chosen for a path under the registered table -/
def lookup (extra : List (Text × Text)) (path : Text) : Option String := lookupIn table extra path

end Bw.Lookup
