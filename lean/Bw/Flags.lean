import Bw.Lookup
import Bw.Gen.Detectors
/-! Model of the option handling in `src/flags.rs` that decides *before anything is parsed* whether a run starts:
    `parse_validator` (value parser of `-e` / `-d`), `parse_extensions` (value parser of `-E`), `Args::validate`
    (unsupported `-E` targets, `--enable` together with `--disable`) and `Args::extensions` (the `-E` map). -/
namespace Bw.Flags
open Bw

inductive FlagErr where
  | unknownValidator
  | badExtensionSyntax
  | unsupportedExtension
  | enableAndDisable
deriving Repr, DecidableEq

/-- `parse_validator`: the name must be one of `DETECTOR_FACTORIES` verbatim; the accepted value is trimmed -/
def parseValidator (v : Text) : Except FlagErr Text :=
  if Gen.detectorNames.any (fun n => n.toList = v) then .ok (trim v) else .error .unknownValidator

/-- `str::split_once('=')` -/
def splitOnceEq : Text → Option (Text × Text)
  | [] => none
  | c :: cs =>
    if c = '=' then some ([], cs)
    else match splitOnceEq cs with
      | some (k, v) => some (c :: k, v)
      | none => none

/-- `parse_extensions`: `KEY=VALUE`, both sides trimmed -/
def parseExtension (s : Text) : Except FlagErr (Text × Text) :=
  match splitOnceEq s with
  | some (k, v) => .ok (trim k, trim v)
  | none => .error .badExtensionSyntax

def mapM' {α β} (f : α → Except FlagErr β) : List α → Except FlagErr (List β)
  | [] => .ok []
  | x :: xs =>
    match f x with
    | .error e => .error e
    | .ok y =>
      match mapM' f xs with
      | .error e => .error e
      | .ok ys => .ok (y :: ys)

/-- `Args::validate` over an arbitrary set of supported suffixes -/
def validateWith (supported : List Text) (exts : List (Text × Text)) (enabled disabled : List Text) : Except FlagErr Unit :=
  if exts.any (fun e => !supported.contains e.2) then .error .unsupportedExtension
  else if !disabled.isEmpty && !enabled.isEmpty then .error .enableAndDisable
  else .ok ()

def validate := validateWith (Lookup.table.map (·.1))

/-- `Args::extensions`: collected into a hash map, so a repeated key keeps its last value -/
def insertExt (m : List (Text × Text)) (e : Text × Text) : List (Text × Text) :=
  match m with
  | [] => [e]
  | x :: rest => if x.1 = e.1 then (x.1, e.2) :: rest else x :: insertExt rest e

def extensionsMap (exts : List (Text × Text)) : List (Text × Text) := exts.foldl insertExt []

structure Opts where
  extra : List (Text × Text)
  enabled : List Text
  disabled : List Text
deriving Repr

/-- what happens to the raw option values before `main` touches any file: clap runs the value parsers (in the order the
    model lists them only the *set* of possible errors matters: any failing value rejects the command line), then
    `validate` -/
def startup (rawE rawEnabled rawDisabled : List Text) : Except FlagErr Opts :=
  match mapM' parseExtension rawE with
  | .error e => .error e
  | .ok exts =>
    match mapM' parseValidator rawEnabled with
    | .error e => .error e
    | .ok en =>
      match mapM' parseValidator rawDisabled with
      | .error e => .error e
      | .ok dis =>
        match validate exts en dis with
        | .error e => .error e
        | .ok () => .ok { extra := extensionsMap exts, enabled := en, disabled := dis }

end Bw.Flags
