import Bw.Text
/-! Model of the comment normalisers in `src/language_parsers/*.rs`: delimiters are blanked so that the
    comment text keeps the byte length of the source range. `none` = "not a comment" (node skipped). -/
namespace Bw.Comment

def spaces (n : Nat) : Text := List.replicate n ' '

/-- one line of the body of a `/* … */` comment: a leading decorative `*` is blanked -/
def starLine (line : Text) : Text :=
  match findChar (fun c => !isWhite c) line with
  | none => line
  | some i =>
    let rest := dropBytes i line
    match rest with
    | '*' :: r => takeBytes i line ++ ' ' :: r
    | _ => line

/-- `c_style_multiline_comment_processor` (after the fix for unterminated comments) -/
def cBlock (c : Text) : Text :=
  match findSub "/*".toList c with
  | none => c
  | some o =>
    let after := dropBytes (o + 2) c
    match rfindSub "*/".toList after with
    | none => takeBytes o c ++ spaces 2 ++ after
    | some k =>
      let body := takeBytes k after
      takeBytes o c ++ spaces 2 ++ ((splitInclusive body).map starLine).flatten ++ spaces 2 ++ dropBytes (k + 2) after

/-- `xml_style_comments_parser`: `<!--` and the last `-->` are blanked.
    The two `expect`s of the Rust code are faults of the model. -/
def xml (c : Text) : Except String Text :=
  match findSub "<!--".toList c, rfindSub "-->".toList c with
  | some o, some k =>
    if o + 4 ≤ k then
      .ok (takeBytes o c ++ spaces 4 ++ sliceBytes (o + 4) k c ++ spaces 3 ++ dropBytes (k + 3) c)
    else .error "xml: slice open+4..close"
  | none, _ => .error "xml: open comment tag is expected"
  | _, none => .error "xml: close comment tag is expected"

/-- every char becomes as many spaces as it has bytes, except line breaks, which stay -/
def blankKeepBreaks (t : Text) : Text :=
  (t.map (fun ch => if ch = '\n' || ch = '\r' then [ch] else spaces ch.utf8Size)).flatten

/-- Markdown `[//]: # (…)` link-reference-definition comments (after the panic and line-break fixes). -/
def mdLink (c : Text) : Option Text :=
  match findSub "[//]:".toList c with
  | none => none
  | some p =>
    let startSearch := p + 5
    match findChar (fun ch => ch = '(' || ch = '"' || ch = '\'') (dropBytes startSearch c) with
    | none => none
    | some i =>
      let o := i + startSearch
      match dropBytes o c with
      | [] => none
      | oc :: _ =>
        let cc := if oc = '(' then ')' else oc
        match rfindChar (· = cc) c with
        | none => none
        | some k =>
          if k ≤ o then none
          else some (takeBytes p c ++ spaces 5 ++ blankKeepBreaks (sliceBytes (p + 5) (o + 1) c) ++ sliceBytes (o + 1) k c ++ ' ' ::
                      (if k + 1 < ulen c then dropBytes (k + 1) c else []))

/-- hash comments: only a leading `#` is a delimiter -/
def hash (c : Text) : Text := if startsWith ['#'] c then replaceFirst ['#'] [' '] c else c

def slash2 (c : Text) : Text := replaceFirst "//".toList "  ".toList c

/-- does this (grammar, node kind) go through the `<!-- … -->` normaliser (the only one with `expect`s left) -/
def usesXml (parser kind : String) : Bool :=
  (parser == "html_parser" && kind == "comment") || (parser == "xml_parser" && kind == "Comment") ||
  (parser == "markdown_parser" && kind == "md_html_comment")

/-- the per-grammar closures that cannot fail, keyed by the variable name of the parser in
    `language_parsers()`; outer `none` = unknown parser, inner `none` = node is not a comment -/
def normalisePure (parser : String) (kind : String) (c : Text) : Option (Option Text) :=
  let cStyle (commentKind : String) : Option Text :=
    if kind != commentKind then none
    else if startsWith "//".toList c then some (slash2 c) else some (cBlock c)
  let lineAndBlock (lk bk : String) : Option Text :=
    if kind == lk then some (slash2 c)
    else if kind == bk then some (cBlock c)
    else none
  let python : Option Text := if kind == "comment" then some (hash c) else none
  match parser with
  | "bash_parser" =>
    some (if kind != "comment" then none
      else if startsWith "#!".toList c then none
      else some (replaceFirst ['#'] [' '] c))
  | "c_parser" | "cpp_parser" | "go_parser" | "js_parser" | "typescript_parser" | "typescript_tsx_parser" => some (cStyle "comment")
  | "c_sharp_parser" =>
    some (if kind != "comment" then none
      else if startsWith "///".toList c then some (replaceFirst "///".toList "   ".toList c)
      else if startsWith "//".toList c then some (slash2 c)
      else some (cBlock c))
  | "css_parser" => some (if kind == "comment" then some (cBlock c) else none)
  | "html_parser" | "xml_parser" => some none
  | "java_parser" | "kotlin_parser" => some (lineAndBlock "line_comment" "block_comment")
  | "swift_parser" => some (lineAndBlock "comment" "multiline_comment")
  | "makefile_parser" | "python_parser" | "ruby_parser" | "toml_parser" | "yaml_parser" => some python
  | "php_parser" =>
    some (if kind != "comment" then none
      else if startsWith "//".toList c then some (slash2 c)
      else if startsWith "#".toList c then some (replaceFirst ['#'] [' '] c)
      else some (cBlock c))
  | "rust_parser" =>
    some (if kind == "line_comment" then
      if startsWith "///".toList c then some (replaceFirst "///".toList "   ".toList c)
      else if startsWith "//!".toList c then some (replaceFirst "//!".toList "   ".toList c)
      else if startsWith "//".toList c then some (slash2 c)
      else some c
    else if kind == "block_comment" then some (cBlock c)
    else none)
  | "sql_parser" =>
    some (if kind == "comment" then some (replaceFirst "--".toList "  ".toList c)
      else if kind == "marginalia" then some (cBlock c)
      else none)
  | "markdown_parser" => some (if kind == "link_reference_definition" then mdLink c else none)
  | _ => none

/-- the closure of a grammar applied to a node: `.error site` = a Rust panic site of the normaliser -/
def normalise (parser : String) (kind : String) (c : Text) : Except String (Option Text) :=
  if usesXml parser kind then (xml c).map some
  else match normalisePure parser kind c with
    | some r => .ok r
    | none => .error s!"unknown parser {parser}"

end Bw.Comment
