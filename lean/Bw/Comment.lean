import Bw.Text
/-! Model of the comment normalisers in `src/language_parsers/*.rs`: delimiters are blanked so that the
    comment text keeps the byte length of the source range. `none` = "not a comment" (node skipped). -/
namespace Bw.Comment

def spaces (n : Nat) : Text := List.replicate n ' '

/-- one line of the body of a `/* … */` comment: a leading decorative `*` is blanked -/
def starLine (line : Text) : Text :=
  match findChar (fun c => !isWhite c) line with
  | none => line
  | some i =>
    let rest := dropBytes i line
    match rest with
    | '*' :: r => takeBytes i line ++ ' ' :: r
    | _ => line

/-- `c_style_multiline_comment_processor` (after the fix for unterminated comments) -/
def cBlock (c : Text) : Text :=
  match findSub "/*".toList c with
  | none => c
  | some o =>
    let after := dropBytes (o + 2) c
    match rfindSub "*/".toList after with
    | none => takeBytes o c ++ spaces 2 ++ after
    | some k =>
      let body := takeBytes k after
      takeBytes o c ++ spaces 2 ++ ((splitInclusive body).map starLine).flatten ++ spaces 2 ++ dropBytes (k + 2) after

/-- `xml_style_comments_parser`: `<!--` and the last `-->` are blanked.
    The two `expect`s of the Rust code are faults of the model. -/
def xml (c : Text) : Except String Text :=
  match findSub "<!--".toList c, rfindSub "-->".toList c with
  | some o, some k =>
    if o + 4 ≤ k then
      .ok (takeBytes o c ++ spaces 4 ++ sliceBytes (o + 4) k c ++ spaces 3 ++ dropBytes (k + 3) c)
    else .error "xml: slice open+4..close"
  | none, _ => .error "xml: open comment tag is expected"
  | _, none => .error "xml: close comment tag is expected"

/-- Markdown `[//]: # (…)` link-reference-definition comments (after the panic fixes). -/
def mdLink (c : Text) : Option Text :=
  match findSub "[//]:".toList c with
  | none => none
  | some p =>
    let startSearch := p + 5
    match findChar (fun ch => ch = '(' || ch = '"' || ch = '\'') (dropBytes startSearch c) with
    | none => none
    | some i =>
      let o := i + startSearch
      match dropBytes o c with
      | [] => none
      | oc :: _ =>
        let cc := if oc = '(' then ')' else oc
        match rfindChar (· = cc) c with
        | none => none
        | some k =>
          if k ≤ o then none
          else some (takeBytes p c ++ spaces 5 ++ spaces (o - (p + 5) + 1) ++ sliceBytes (o + 1) k c ++ ' ' ::
                      (if k + 1 < ulen c then dropBytes (k + 1) c else []))

/-- hash comments: only a leading `#` is a delimiter -/
def hash (c : Text) : Text := if startsWith ['#'] c then replaceFirst ['#'] [' '] c else c

def slash2 (c : Text) : Text := replaceFirst "//".toList "  ".toList c

/-- the per-grammar closures, keyed by the variable name of the parser in `language_parsers()` -/
def normalise (parser : String) (kind : String) (c : Text) : Except String (Option Text) :=
  let cStyle (commentKind : String) : Except String (Option Text) :=
    if kind != commentKind then .ok none
    else if startsWith "//".toList c then .ok (some (slash2 c)) else .ok (some (cBlock c))
  let lineAndBlock (lk bk : String) : Except String (Option Text) :=
    if kind == lk then .ok (some (slash2 c))
    else if kind == bk then .ok (some (cBlock c))
    else .ok none
  let python : Except String (Option Text) := if kind == "comment" then .ok (some (hash c)) else .ok none
  match parser with
  | "bash_parser" =>
    if kind != "comment" then .ok none
    else if startsWith "#!".toList c then .ok none
    else .ok (some (replaceFirst ['#'] [' '] c))
  | "c_parser" | "cpp_parser" | "go_parser" | "js_parser" | "typescript_parser" | "typescript_tsx_parser" => cStyle "comment"
  | "c_sharp_parser" =>
    if kind != "comment" then .ok none
    else if startsWith "///".toList c then .ok (some (replaceFirst "///".toList "   ".toList c))
    else if startsWith "//".toList c then .ok (some (slash2 c))
    else .ok (some (cBlock c))
  | "css_parser" => if kind == "comment" then .ok (some (cBlock c)) else .ok none
  | "html_parser" => if kind == "comment" then (xml c).map some else .ok none
  | "xml_parser" => if kind == "Comment" then (xml c).map some else .ok none
  | "java_parser" | "kotlin_parser" => lineAndBlock "line_comment" "block_comment"
  | "swift_parser" => lineAndBlock "comment" "multiline_comment"
  | "makefile_parser" | "python_parser" | "ruby_parser" | "toml_parser" | "yaml_parser" => python
  | "php_parser" =>
    if kind != "comment" then .ok none
    else if startsWith "//".toList c then .ok (some (slash2 c))
    else if startsWith "#".toList c then .ok (some (replaceFirst ['#'] [' '] c))
    else .ok (some (cBlock c))
  | "rust_parser" =>
    if kind == "line_comment" then
      if startsWith "///".toList c then .ok (some (replaceFirst "///".toList "   ".toList c))
      else if startsWith "//!".toList c then .ok (some (replaceFirst "//!".toList "   ".toList c))
      else if startsWith "//".toList c then .ok (some (slash2 c))
      else .ok (some c)
    else if kind == "block_comment" then .ok (some (cBlock c))
    else .ok none
  | "sql_parser" =>
    if kind == "comment" then .ok (some (replaceFirst "--".toList "  ".toList c))
    else if kind == "marginalia" then .ok (some (cBlock c))
    else .ok none
  | "markdown_parser" =>
    if kind == "link_reference_definition" then .ok (mdLink c)
    else if kind == "md_html_comment" then (xml c).map some
    else .ok none
  | _ => .error s!"unknown parser {parser}"

end Bw.Comment
