import Bw.Text
/-! Model of `src/tag_parser.rs`: the winnow grammar for `<block …>` / `</block>` and the `<` scanner. -/
namespace Bw.Tag

/-- winnow `multispace`: space, tab, CR, LF -/
def isSp (c : Char) : Bool := c = ' ' || c = '\t' || c = '\r' || c = '\n'

/-- `take_while(0.., p)` -/
def span (p : Char → Bool) : Text → Text × Text
  | [] => ([], [])
  | c :: cs => if p c then let (a, b) := span p cs; (c :: a, b) else ([], c :: cs)

/-- `isName c` = `c.is_alphanumeric() || c == '-' || c == '_'`; the Unicode table is a parameter. -/
structure Cfg where
  isName : Char → Bool

variable (cfg : Cfg)

/-- `parse_attribute_value`: "…" | '…' | name-chars+ -/
def parseValue (s : Text) : Option (Text × Text) :=
  match s with
  | '"' :: r =>
    let (v, r') := span (· != '"') r
    match r' with
    | '"' :: r'' => some (v, r'')
    | _ => none
  | '\'' :: r =>
    let (v, r') := span (· != '\'') r
    match r' with
    | '\'' :: r'' => some (v, r'')
    | _ => none
  | _ =>
    let (v, r') := span cfg.isName s
    if v.isEmpty then none else some (v, r')

/-- one iteration of `parse_attributes`: mandatory blanks, name, optional `= value`
    (the `opt` backtracks to just after the name) -/
def parseAttr (s : Text) : Option ((Text × Text) × Text) :=
  let (w, r) := span isSp s
  if w.isEmpty then none else
  let (n, r1) := span cfg.isName r
  if n.isEmpty then none else
  let (_, r2) := span isSp r1
  match r2 with
  | '=' :: r3 =>
    let (_, r4) := span isSp r3
    match parseValue cfg r4 with
    | some (v, r5) => some ((n, v), r5)
    | none => some ((n, []), r1)
  | _ => some ((n, []), r1)

/-- `repeat(0.., attr)`; every iteration consumes at least one char, so `fuel = |s|` suffices -/
def parseAttrs : Nat → Text → List (Text × Text) × Text
  | 0, s => ([], s)
  | fuel + 1, s =>
    match parseAttr cfg s with
    | none => ([], s)
    | some (a, r) => let (as, r') := parseAttrs fuel r; (a :: as, r')

/-- `parse_start_tag` -/
def parseStart (s : Text) : Option (List (Text × Text) × Text) :=
  match stripPrefix "<block".toList s with
  | none => none
  | some r =>
    let (as, r1) := parseAttrs cfg r.length r
    let (_, r2) := span isSp r1
    match r2 with
    | '>' :: r3 => some (as, r3)
    | _ => none

/-- `parse_end_tag`: `<` ws* `/` ws* `block` ws* `>` -/
def parseEnd (s : Text) : Option Text :=
  match s with
  | '<' :: r =>
    let (_, r1) := span isSp r
    match r1 with
    | '/' :: r2 =>
      let (_, r3) := span isSp r2
      match stripPrefix "block".toList r3 with
      | none => none
      | some r4 =>
        let (_, r5) := span isSp r4
        match r5 with
        | '>' :: r6 => some r6
        | _ => none
    | _ => none
  | _ => none

/-- a tag found in a comment text; offsets are byte offsets into the comment text -/
inductive Tag where
  | start (s e : Nat) (attrs : List (Text × Text))
  | stop (s e : Nat)
deriving Repr, DecidableEq

/-- All tags of a comment text, left to right: what repeated calls of
    `WinnowBlockTagParser::next` return. `off` is the byte offset of `t` in the comment. -/
def scan : Nat → Nat → Text → List Tag
  | 0, _, _ => []
  | _ + 1, _, [] => []
  | fuel + 1, off, c :: cs =>
    if c = '<' then
      match parseStart cfg (c :: cs) with
      | some (attrs, rest) =>
        let e := off + (ulen (c :: cs) - ulen rest)
        .start off e attrs :: scan fuel e rest
      | none =>
        match parseEnd (c :: cs) with
        | some rest =>
          let e := off + (ulen (c :: cs) - ulen rest)
          .stop off e :: scan fuel e rest
        | none => scan fuel (off + 1) cs
    else scan fuel (off + c.utf8Size) cs

def scanAll (t : Text) : List Tag := scan cfg (t.length + 1) 0 t

/-- `HashMap::insert` semantics: the last duplicate wins -/
def attrGet (attrs : List (Text × Text)) (k : Text) : Option Text :=
  (attrs.reverse.find? (fun p => p.1 = k)).map (·.2)

end Bw.Tag
