import Bw.Merge
import Bw.Flags
import Bw.ListReport
/-! Model of the sequencing of `main` (`src/main.rs`): option values are checked first; then the diff (if any) is read, the
    files in scope are parsed, and either the blocks are listed or the detected validators run and their merged report decides
    the exit status. What `main` prints and how it exits: -/
namespace Bw.MainFlow
open Bw Bw.Pipe Bw.Val Bw.Diff Bw.Tag

inductive Outcome where
  /-- the command line is refused before any file is read (clap's exit status 2, or 1 from `Args::validate`) -/
  | rejected (e : Flags.FlagErr)
  /-- a readable error, exit status 1: the diff could not be read, a file could not be parsed / read, a rule is malformed -/
  | failed
  /-- `list`: the report on stdout, exit status 0 -/
  | listed (report : List (Text × List ListReport.Entry))
  /-- validation: the merged report (printed on stderr iff it has an entry) and the exit status -/
  | validated (report : Merge.FileMap) (exit : Nat)

/-- what the run depends on besides the command line: the file tree, and the diff on stdin with what it parses to
    (`none` = unreadable) -/
structure Input where
  world : World
  changes : Option (List (Text × List LC))
  scan : Bool

def run (cfg : Cfg) (re : Regex) (oracle : AsyncOracle) (rawE rawEnabled rawDisabled : List Text) (list : Bool)
    (inp : Input) : Outcome :=
  match Flags.startup rawE rawEnabled rawDisabled with
  | .error e => .rejected e
  | .ok opts =>
    match inp.changes with
    | none => .failed
    | some changes =>
      match contextOf (parseBlocks cfg opts.extra inp.world changes inp.scan) with
      | .error _ => .failed
      | .ok ctx =>
        if list then .listed (ListReport.report ctx)
        else
          let en := opts.enabled.map String.ofList
          let dis := opts.disabled.map String.ofList
          match Pipe.run re oracle ctx en dis with
          | .err _ => .failed
          | .ok _ =>
            let m := Merge.runMerged re oracle ctx en dis
            .validated m (Merge.exitMerged m)

def exitStatus : Outcome → Nat
  | .rejected _ => 2
  | .failed => 1
  | .listed _ => 0
  | .validated _ e => e

end Bw.MainFlow
