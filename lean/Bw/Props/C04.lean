import Bw.Pipeline
import Bw.Lemmas.TagFuel
/-! # C04 — no crash or hang on any input

Every model function is total (Lean's termination checker; the tag scanner runs on explicit fuel).
Rust operations that can panic are values of the model (`PErr.fault site`): after the fixes for
the Markdown and block-comment normalisers the only remaining sites are the two `expect`s and the
slice of the `<!-- -->` normaliser, which are unreachable under the tree-sitter contract "an HTML/XML
comment node starts with `<!--` and ends with `-->`". All other panic sources of the Rust code
(byte slicing, arithmetic) are tied by the fuzzing correspondence run, not proved. -/
namespace Bw.Props.C04
open Bw Bw.Comment Bw.Pipe

/-- the normalisers of all grammars but HTML / XML / Markdown-HTML never fault, on any string and node kind -/
theorem normalise_total (parser kind : String) (c : Text) (site : String)
    (h : normalise parser kind c = .error site) :
    usesXml parser kind = true ∨ site = s!"unknown parser {parser}" := by
  unfold normalise at h
  split at h
  · rename_i hx; exact Or.inl hx
  · split at h
    · cases h
    · injection h with h; exact Or.inr h.symm

theorem startsWith_append (p t : Text) : startsWith p (p ++ t) = true := by
  induction p with
  | nil => simp [startsWith, stripPrefix]
  | cons x xs ih => simpa [startsWith, stripPrefix] using ih

theorem findSub_prefix (p t : Text) (hne : p ≠ []) : findSub p (p ++ t) = some 0 := by
  cases p with
  | nil => exact absurd rfl hne
  | cons x xs =>
    have := startsWith_append (x :: xs) t
    simp only [List.cons_append] at this ⊢
    simp [findSub, this]

theorem rfind_close_self : rfindSub "-->".toList "-->".toList = some 0 := by decide

theorem rfindSub_suffix_close (pre : Text) : rfindSub "-->".toList (pre ++ "-->".toList) = some (ulen pre) := by
  induction pre with
  | nil => simpa [ulen] using rfind_close_self
  | cons x xs ih =>
    simp only [List.cons_append, rfindSub, ih, ulen]
    congr 1; omega

/-- **tree-sitter contract ⇒ no fault**: an HTML/XML comment node (`<!--` … `-->`) is always normalised -/
theorem xml_ok_of_contract (mid : Text) : ∃ t, xml ("<!--".toList ++ (mid ++ "-->".toList)) = .ok t := by
  have h1 : findSub "<!--".toList ("<!--".toList ++ (mid ++ "-->".toList)) = some 0 :=
    findSub_prefix _ _ (by decide)
  have h2 : rfindSub "-->".toList ("<!--".toList ++ (mid ++ "-->".toList)) = some (ulen ("<!--".toList ++ mid)) := by
    rw [← List.append_assoc]; exact rfindSub_suffix_close _
  have h3 : 0 + 4 ≤ ulen ("<!--".toList ++ mid) := by
    rw [ulen_append]
    have : ulen "<!--".toList = 4 := by decide
    omega
  unfold xml
  rw [h1, h2]
  simp only [h3, if_true]
  exact ⟨_, rfl⟩

/-- the Markdown link-definition normaliser and the block-comment normaliser are total functions
    (after the fixes): they return a value for every string - witnessed on the former crash inputs -/
theorem former_crash_inputs :
    mdLink "[//]: #".toList = none ∧ mdLink "[//]: \"".toList = none ∧
    (mdLink "[é]: [//]: (x)".toList).isSome = true ∧
    cBlock "/*!/".toList = "  !/".toList ∧ cBlock "/*/".toList = "  /".toList := by
  refine ⟨by decide, by decide, by decide, by decide, by decide⟩

theorem foldl_no_fault (parser : String) (text : Text) (nodes : List Node) (site : String)
    (hp : ∀ n ∈ nodes, usesXml parser n.kind = false)
    (hknown : ∀ kind c, normalisePure parser kind c ≠ none) (acc : List Blocks.Comment) :
    nodes.foldlM (commentStep parser text) acc ≠ .error (.fault site) := by
  induction nodes generalizing acc with
  | nil => simp [List.foldlM, pure, Except.pure]
  | cons n ns ih =>
    have ih' := ih (fun m hm => hp m (by simp [hm]))
    simp only [List.foldlM_cons, bind, Except.bind]
    have hx := hp n (by simp)
    have hn : ∃ o, normalise parser n.kind (sliceBytes n.s n.e text) = .ok o := by
      unfold normalise
      rw [hx]
      simp only [Bool.false_eq_true, if_false]
      cases hq : normalisePure parser n.kind (sliceBytes n.s n.e text) with
      | none => exact absurd hq (hknown _ _)
      | some r => exact ⟨r, rfl⟩
    obtain ⟨o, ho⟩ := hn
    unfold commentStep
    rw [ho]
    cases o with
    | none => exact ih' acc
    | some t => exact ih' _

/-- a parse never yields a fault for node kinds that do not go through the `<!-- -->` normaliser -/
theorem commentsOf_no_fault (parser : String) (text : Text) (nodes : List Node) (site : String)
    (hp : ∀ n ∈ nodes, usesXml parser n.kind = false)
    (hknown : ∀ kind c, normalisePure parser kind c ≠ none) :
    commentsOf parser text nodes ≠ .error (.fault site) :=
  foldl_no_fault parser text nodes site hp hknown []

/-- every registered grammar is known to the normaliser table (regenerated extension table) -/
theorem registered_parsers_known :
    ∀ e ∈ Gen.extTable, ∀ kind c, normalisePure e.2 kind c ≠ none := by
  intro e he kind c
  have : e.2 ∈ Gen.extTable.map (·.2) := List.mem_map.2 ⟨e, he, rfl⟩
  have hall : ∀ p ∈ Gen.extTable.map (·.2), (normalisePure p "" []).isSome = true := by decide +kernel
  have hk : ∀ p, (normalisePure p "" []).isSome = true → normalisePure p kind c ≠ none := by
    intro p hp
    unfold normalisePure at hp ⊢
    simp only at hp ⊢
    split <;> simp_all
  exact hk _ (hall _ this)

/-- **the tag scanner always terminates by exhausting the text, never the fuel**: any fuel above the text
    length yields the same tag list (each step consumes at least one char) -/
theorem scan_terminates (cfg : Tag.Cfg) (t : Text) (fuel : Nat) (h : t.length < fuel) :
    Tag.scan cfg fuel 0 t = Tag.scanAll cfg t := Tag.scanAll_eq cfg t fuel h

/-- a recognised tag always consumes input (so the scanner's cursor strictly advances) -/
theorem tags_consume (cfg : Tag.Cfg) (s : Text) :
    (∀ as r, Tag.parseStart cfg s = some (as, r) → r.length < s.length) ∧
    (∀ r, Tag.parseEnd s = some r → r.length < s.length) :=
  ⟨fun as r h => Tag.parseStart_lt cfg s as r h, fun r h => Tag.parseEnd_lt s r h⟩

/-- unbalanced tags, unknown files, read errors and faults are *values* of the pipeline: it always
    returns (an error is a readable message and exit status 1, never a crash) -/
theorem pipeline_total (cfg : Tag.Cfg) (extra) (w : World) (changes) (scan : Bool) :
    (∃ ctx, contextOf (parseBlocks cfg extra w changes scan) = .ok ctx) ∨
    (∃ errs, contextOf (parseBlocks cfg extra w changes scan) = .error errs ∧ errs ≠ []) := by
  unfold contextOf
  split
  · exact Or.inl ⟨_, rfl⟩
  · rename_i h
    refine Or.inr ⟨_, rfl, ?_⟩
    intro h0
    rw [h0] at h
    simp at h

end Bw.Props.C04
