import Bw.Props.C20
/-! # C18 — check-lua: one call per block, faithful arguments, errors fail the run -/
namespace Bw.Props.C18
open Bw Bw.Pipe Bw.Val Bw.Blocks

/-- content passed to the script: the trimmed block content when there is no `check-lua-pattern` -/
theorem content_plain (re : Regex) (file : Text) (b : Block) (attr : String) (e : ErrKind)
    (h : Tag.attrGet b.attrs attr.toList = none) : blockContent re file b attr e = .ok (trim (content file b)) := by
  unfold blockContent; rw [h]

/-- with a pattern: the `value` group, else the whole first match, of the *whole* content -/
theorem content_match (re : Regex) (file : Text) (b : Block) (attr : String) (e : ErrKind) (p : Text) (lm : LineMatch)
    (h : Tag.attrGet b.attrs attr.toList = some p) (hc : re.compiles p = true)
    (hm : re.captures p (content file b) = some lm) :
    blockContent re file b attr e =
      .ok (sliceBytes (lm.value.getD lm.whole).1 (lm.value.getD lm.whole).2 (content file b)) := by
  unfold blockContent; rw [h]; simp only [hc, hm, Bool.not_true, Bool.false_eq_true, if_false]

/-- … and the empty string when nothing matches -/
theorem content_no_match (re : Regex) (file : Text) (b : Block) (attr : String) (e : ErrKind) (p : Text)
    (h : Tag.attrGet b.attrs attr.toList = some p) (hc : re.compiles p = true)
    (hm : re.captures p (content file b) = none) : blockContent re file b attr e = .ok [] := by
  unfold blockContent; rw [h]; simp only [hc, hm, Bool.not_true, Bool.false_eq_true, if_false]

/-- the arguments the script receives determine the echo: file path, tag line, every attribute
    (last duplicate wins, each name once), and the content - nothing else -/
theorem echo_args (path : Text) (line : Nat) (attrs attrs' : List (Text × Text)) (c : Text)
    (h : attrsSorted attrs = attrsSorted attrs') : luaEcho path line attrs c = luaEcho path line attrs' c := by
  unfold luaEcho; rw [h]

/-- **result mapping**: nil ⇒ no diagnostic; a string ⇒ exactly one `check-lua` diagnostic carrying it,
    on the start tag's range; anything else ⇒ error -/
theorem result_nil (re : Regex) (o : AsyncOracle) (f : FileCtx) (b : BlockCtx) (a c : Text)
    (h1 : Tag.attrGet b.block.attrs "check-lua".toList = some a) (h2 : (trim a).isEmpty = false)
    (hc : blockContent re f.text b.block "check-lua-pattern" .luaError = .ok c)
    (ho : o "check-lua" f.path b.block = .pass) : checkBlock re o "check-lua" f b = .ok none := by
  have e' : "check-lua".toList = ['c', 'h', 'e', 'c', 'k', '-', 'l', 'u', 'a'] := rfl
  rw [e'] at h1
  simp [checkBlock, h1, h2, hc, ho]

theorem result_string (re : Regex) (o : AsyncOracle) (f : FileCtx) (b : BlockCtx) (a c : Text) (data) (sev : Nat)
    (h1 : Tag.attrGet b.block.attrs "check-lua".toList = some a) (h2 : (trim a).isEmpty = false)
    (hc : blockContent re f.text b.block "check-lua-pattern" .luaError = .ok c)
    (ho : o "check-lua" f.path b.block = .message data) (hs : severityOf b.block.attrs = .ok sev) :
    checkBlock re o "check-lua" f b = .ok (some (tagDiag "check-lua" b.block sev data)) := by
  have e' : "check-lua".toList = ['c', 'h', 'e', 'c', 'k', '-', 'l', 'u', 'a'] := rfl
  rw [e'] at h1
  simp [checkBlock, h1, h2, hc, ho, hs]

theorem result_other_fails (re : Regex) (o : AsyncOracle) (f : FileCtx) (b : BlockCtx) (a c : Text) (e : ErrKind)
    (h1 : Tag.attrGet b.block.attrs "check-lua".toList = some a) (h2 : (trim a).isEmpty = false)
    (hc : blockContent re f.text b.block "check-lua-pattern" .luaError = .ok c)
    (ho : o "check-lua" f.path b.block = .fail e) : checkBlock re o "check-lua" f b = .error e := by
  have e' : "check-lua".toList = ['c', 'h', 'e', 'c', 'k', '-', 'l', 'u', 'a'] := rfl
  rw [e'] at h1
  simp [checkBlock, h1, h2, hc, ho]

/-- **one task per block**: the validator produces exactly one outcome per block of the context -/
theorem one_outcome_per_block (re : Regex) (o : AsyncOracle) (ctx : List FileCtx) :
    (validatorResults re o ctx "check-lua").length = ((ctx.map (fun f => f.blocks.length)).sum) := by
  have hne : ("check-lua" = "affects") = False := by decide
  simp only [validatorResults, hne, if_false, List.length_flatten, List.map_map]
  congr 1
  apply List.map_congr_left
  intro f _
  simp

/-- a block without the attribute contributes nothing -/
theorem unscripted_block_silent (re : Regex) (o : AsyncOracle) (f : FileCtx) (b : BlockCtx)
    (h : Tag.attrGet b.block.attrs "check-lua".toList = none) : checkBlock re o "check-lua" f b = .ok none := by
  have e' : "check-lua".toList = ['c', 'h', 'e', 'c', 'k', '-', 'l', 'u', 'a'] := rfl
  rw [e'] at h
  simp [checkBlock, h]

/-- **any failing script fails the whole run, for every completion / iteration order** -/
theorem any_err_wins (re : Regex) (o : AsyncOracle) (ctx ctx' : List FileCtx) (hperm : ctx.Perm ctx') (en dis : List String)
    (r : Text × Except ErrKind (List Diag)) (hr : r ∈ runResults re o ctx en dis) (e : ErrKind) (he : r.2 = .error e) :
    exitCode (run re o ctx' en dis) = 1 := by
  have h1 : ∃ ks, run re o ctx en dis = .err ks := (C11.run_err_iff re o ctx en dis).2 ⟨r, hr, e, he⟩
  obtain ⟨ks, hk⟩ := (C20.err_perm re o ctx ctx' hperm en dis).1 h1
  rw [hk]; rfl

end Bw.Props.C18
