import Bw.Pipeline
import Bw.Walk
import Bw.Lemmas.WalkSim
import Bw.Lemmas.UnidiffRT
/-! # C01 — drift detection

(1) the repaired hunk walk reports every added line at its own number and every deleted line at the
line after its gap (full-strength specification), with `decide` witnesses that the code's walk does
not (known findings D1, D9); (2) the code's walk reports every added/edited line at its target
number; (3) the change search is exact; inside changes mark, far changes never mark; (4) the
`affects` verdict formula; (5) the diff path prefix is stripped exactly once. -/
namespace Bw.Props.C01
open Bw Bw.Blocks Bw.Diff Bw.Val Bw.Pipe Bw.Walk

/-! ## (1) specification of the walk over an abstract edit script -/

/-- every added line gets an entry at its own new-file line number (repaired walk) -/
theorem add_has_entry (p q : List Seg) : ∃ e, (1 + newCount p, e) ∈ walkR (p ++ .add :: q) := by
  unfold walkR
  have h0 : ({} : StR).newNo = 1 := rfl
  let st := foldR {} p
  have hn : st.newNo = 1 + newCount p := by simpa [st, h0] using foldR_newNo {} p
  have hfold : (List.foldl stepR {} (p ++ .add :: q)) = foldR (stepR st .add) q := by
    show foldR {} (p ++ .add :: q) = _
    rw [foldR_append]; rfl
  rw [hfold]
  by_cases hp : st.pending > 0
  · refine ⟨true, flushR_out_mono _ _ (foldR_out_mono _ q _ ?_)⟩
    simp [stepR, hp, hn]
  · refine ⟨false, flushR_out_mono _ _ (foldR_out_mono _ q _ ?_)⟩
    simp [stepR, hp, hn]

/-- every deleted line gets an entry at the line that follows its gap in the new file (repaired walk) -/
theorem del_has_entry (p q : List Seg) : ∃ e, (1 + newCount p, e) ∈ walkR (p ++ .del :: q) := by
  unfold walkR
  let st := foldR {} p
  have hn : st.newNo = 1 + newCount p := by
    have h0 : ({} : StR).newNo = 1 := rfl
    simpa [st, h0] using foldR_newNo {} p
  have hfold : (List.foldl stepR {} (p ++ .del :: q)) = foldR (stepR st .del) q := by
    show foldR {} (p ++ .del :: q) = _
    rw [foldR_append]; rfl
  rw [hfold]
  have := pending_reported (stepR st .del) (by simp [stepR]) q
  simpa [stepR, hn] using this

/-- **Known finding D1** (negation of the full statement for the code's walk, by a concrete witness):
    three lines added at the top, then one line deleted further down - the deletion's gap is before
    new line 6, the code reports line 3 (the OLD file's number). -/
theorem d1_witness :
    walk [.add, .add, .add, .keep, .keep, .del, .keep] = [(1, false), (2, false), (3, false), (3, false)] ∧
    walkR [.add, .add, .add, .keep, .keep, .del, .keep] = [(1, false), (2, false), (3, false), (6, false)] := by
  constructor <;> decide

/-- **Known finding D9**: a group that removes more lines than it adds loses the surplus removals:
    the deletion right after the edited line 1 is not reported at all. -/
theorem d9_witness :
    walk [.del, .del, .add, .keep] = [(1, true)] ∧ walkR [.del, .del, .add, .keep] = [(1, true), (2, false)] := by
  constructor <;> decide

/-- **partial form of the full statement, for the code as it stands**: outside the decidable known classes
    (`knownDel`: a flush that drops pending removals after an addition - D9 - or reports them under a line
    number other than the current new-file line - D1) the code's walk IS the repaired walk -/
theorem lineChanges_partial (segs : List Seg) (h : knownDel segs = false) : walk segs = walkR segs :=
  walk_eq_walkR segs h

/-- hence, outside the known classes, the code reports every added line at its own number … -/
theorem add_has_entry_partial (p q : List Seg) (h : knownDel (p ++ .add :: q) = false) :
    ∃ e, (1 + newCount p, e) ∈ walk (p ++ .add :: q) := by
  rw [walk_eq_walkR _ h]; exact add_has_entry p q

/-- … and every deleted line at the line after its gap -/
theorem del_has_entry_partial (p q : List Seg) (h : knownDel (p ++ .del :: q) = false) :
    ∃ e, (1 + newCount p, e) ∈ walk (p ++ .del :: q) := by
  rw [walk_eq_walkR _ h]; exact del_has_entry p q

/-- edit scripts without removed lines (pure additions, new files) are never in the known class -/
theorem additions_only_exact (segs : List Seg) (h : ∀ s ∈ segs, s ≠ .del) : walk segs = walkR segs :=
  walk_eq_walkR segs (noDel_not_known segs h)

/-- the two witnesses are in the known class, an ordinary replacement and a deletion without shift are not -/
theorem known_class_examples :
    knownDel [.add, .add, .add, .keep, .keep, .del, .keep] = true ∧ knownDel [.del, .del, .add, .keep] = true ∧
    knownDel [.keep, .del, .add, .keep] = false ∧ knownDel [.keep, .del, .keep] = false ∧
    knownDel [.del, .add, .add, .keep, .del, .add] = false := by decide

/-! ## (2) the code's walk over parsed hunks -/

theorem clearOrFold_out_mono (st : Diff.St) (x : LC) (h : x ∈ st.out) : x ∈ (clearOrFold st).out := by
  unfold clearOrFold
  split
  · exact h
  · split
    · exact h
    · simp [h]

theorem stepLine_out_mono (d) (st : Diff.St) (l : Unidiff.Line) (x : LC) (h : x ∈ st.out) :
    x ∈ (stepLine d st l).out := by
  unfold stepLine
  cases l.kind with
  | add =>
    simp only
    cases st.pending <;> simp [h]
  | rem => simpa using h
  | ctx => simpa using clearOrFold_out_mono st x h
  | other => simpa using h

theorem foldLines_out_mono (d) (ls : List Unidiff.Line) (st : Diff.St) (x : LC) (h : x ∈ st.out) :
    x ∈ (ls.foldl (stepLine d) st).out := by
  induction ls generalizing st with
  | nil => simpa using h
  | cons l ls ih => exact ih _ (stepLine_out_mono d st l x h)

theorem stepHunk_out_mono (d) (st : Diff.St) (hk : Unidiff.Hunk) (x : LC) (h : x ∈ st.out) :
    x ∈ (stepHunk d st hk).out :=
  clearOrFold_out_mono _ x (foldLines_out_mono d hk.lines st x h)

theorem foldHunks_out_mono (d) (hs : List Unidiff.Hunk) (st : Diff.St) (x : LC) (h : x ∈ st.out) :
    x ∈ (hs.foldl (stepHunk d) st).out := by
  induction hs generalizing st with
  | nil => simpa using h
  | cons hk hs ih => exact ih _ (stepHunk_out_mono d st hk x h)

/-- an added line is reported at its target line number the moment it is walked -/
theorem stepLine_add_reports (d) (st : Diff.St) (l : Unidiff.Line) (h : l.kind = .add) :
    ∃ r, (⟨l.tgtNo.getD 0, r⟩ : LC) ∈ (stepLine d st l).out := by
  unfold stepLine
  rw [h]
  cases st.pending with
  | nil => exact ⟨none, by simp⟩
  | cons p ps => exact ⟨some (d p.value l.value), by simp⟩

/-- **Every added or edited line is reported**, at its new-file line number, whatever the other
    hunks and lines of the file's diff are (any number of hunks, any context, any preceding changes). -/
theorem added_line_reported (d) (f : Unidiff.File) (hs1 hs2 : List Unidiff.Hunk) (hk : Unidiff.Hunk)
    (ls1 ls2 : List Unidiff.Line) (l : Unidiff.Line)
    (hf : f.hunks = hs1 ++ hk :: hs2) (hl : hk.lines = ls1 ++ l :: ls2) (hadd : l.kind = .add) :
    ∃ r, (⟨l.tgtNo.getD 0, r⟩ : LC) ∈ lineChanges d f := by
  unfold lineChanges
  rw [hf, List.foldl_append, List.foldl_cons]
  generalize hs1.foldl (stepHunk d) {} = st0
  have h1 : ∃ r, (⟨l.tgtNo.getD 0, r⟩ : LC) ∈ (stepHunk d st0 hk).out := by
    unfold stepHunk
    rw [hl, List.foldl_append, List.foldl_cons]
    obtain ⟨r, hr⟩ := stepLine_add_reports d (ls1.foldl (stepLine d) st0) l hadd
    exact ⟨r, clearOrFold_out_mono _ _ (foldLines_out_mono d ls2 _ _ hr)⟩
  obtain ⟨r, hr⟩ := h1
  exact ⟨r, foldHunks_out_mono d hs2 _ _ hr⟩

/-! ## (3) search and intersection -/

/-- the change search is exact (linear scan): a block is content-modified iff some change intersects it -/
theorem search_exact (b : Block) (cs : List LC) :
    contentModified b cs = true ↔ ∃ c ∈ cs, hit false b.cPosStart b.cPosEnd c = true := by
  simp [contentModified, List.any_eq_true]

theorem tag_search_exact (b : Block) (cs : List LC) :
    tagModified b cs = true ↔ ∃ c ∈ cs, hit true b.tagStart b.tagEnd c = true := by
  simp [tagModified, List.any_eq_true]

/-- a whole-line change (added or deleted line) on any line of the content range marks the block -/
theorem whole_line_inside_hits (incl : Bool) (s e : Pos) (c : LC) (h1 : s.line ≤ c.line) (h2 : c.line ≤ e.line)
    (hr : c.ranges = none) : hit incl s e c = true := by
  have a1 : ¬ c.line < s.line := by omega
  have a2 : ¬ c.line > e.line := by omega
  simp [hit, a1, a2, hr]

/-- **inside_change_marks**: a line added or deleted between the two tag comments marks the block
    content-modified, however many other changes the list holds -/
theorem inside_change_marks (b : Block) (cs : List LC) (c : LC) (hc : c ∈ cs) (hr : c.ranges = none)
    (h1 : b.cPosStart.line ≤ c.line) (h2 : c.line ≤ b.cPosEnd.line) : contentModified b cs = true :=
  (search_exact b cs).2 ⟨c, hc, whole_line_inside_hits false _ _ c h1 h2 hr⟩

/-- a change on a line outside `[s.line, e.line]` never intersects -/
theorem outside_never_hits (incl : Bool) (s e : Pos) (c : LC) (h : c.line < s.line ∨ c.line > e.line) :
    hit incl s e c = false := by
  unfold hit
  rcases h with h | h
  · simp [h]
  · by_cases h' : c.line < s.line
    · simp [h']
    · simp [h', h]

/-- **far_change_never_marks**: if every change lies before the start tag's line or after the end
    tag comment's line, the block is neither content-modified nor tag-modified (so it is not selected) -/
theorem far_change_never_marks (b : Block) (cs : List LC)
    (htag : b.tagStart.line ≤ b.tagEnd.line) (hord : b.tagEnd.line ≤ b.cPosStart.line)
    (h : ∀ c ∈ cs, c.line < b.tagStart.line ∨ c.line > b.cPosEnd.line) (hce : b.cPosStart.line ≤ b.cPosEnd.line) :
    contentModified b cs = false ∧ tagModified b cs = false := by
  constructor
  · simp only [contentModified, List.any_eq_false]
    intro c hc
    have := h c hc
    have : hit false b.cPosStart b.cPosEnd c = false := outside_never_hits false _ _ c (by omega)
    simp [this]
  · simp only [tagModified, List.any_eq_false]
    intro c hc
    have := h c hc
    have : hit true b.tagStart b.tagEnd c = false := outside_never_hits true _ _ c (by omega)
    simp [this]

/-! ## (4) affects -/

/-- a block whose content is not modified never produces an affects diagnostic or error -/
theorem affects_unmodified_silent (ctx : List FileCtx) (f : FileCtx) (b : BlockCtx) (hb : b ∈ f.blocks)
    (h : b.contentMod = false) : Except.ok [] ∈ affectsFile ctx f := by
  unfold affectsFile
  exact List.mem_map.2 ⟨b, hb, by simp [h]⟩

/-- **the affects verdict formula**: a modified block that declares `affects` yields one diagnostic for each
    referenced (file, name) - in order, duplicates included - that has no modified block of that name -/
theorem affects_spec (ctx : List FileCtx) (f : FileCtx) (b : BlockCtx) (a : Text) (refs : List (Option Text × Text))
    (hb : b ∈ f.blocks) (hm : b.contentMod = true) (ha : Tag.attrGet b.block.attrs "affects".toList = some a)
    (hp : parseAffects a = .ok refs) :
    affectsDiags f.path b.block (refs.filter (fun r => !hasModified ctx (r.1.getD f.path) r.2)) ∈ affectsFile ctx f := by
  unfold affectsFile
  refine List.mem_map.2 ⟨b, hb, ?_⟩
  simp only [hm, Bool.not_true, Bool.false_eq_true, if_false, ha, hp]

/-- once every linked block is touched too, the block passes (no diagnostic, whatever its severity attribute) -/
theorem affects_satisfied (path : Text) (b : Block) : affectsDiags path b [] = .ok [] := by
  unfold affectsDiags
  cases severityOf b.attrs <;> simp

/-- exactly one diagnostic per missing reference, each spanning the start tag and naming the missing (file, name) -/
theorem affects_one_per_missing (path : Text) (b : Block) (missing : List (Option Text × Text)) (sev : Nat)
    (hs : severityOf b.attrs = .ok sev) :
    affectsDiags path b missing = .ok (missing.map (fun r =>
      tagDiag "affects" b sev [("affected_block_file_path", r.1.getD path), ("affected_block_name", r.2)])) := by
  simp only [affectsDiags, hs]

/-- a reference without a colon is an error (on a modified block) -/
theorem affects_no_colon_errs (r : Text) (h : splitOnce ':' (trim r) = none) (pre post : List Text) :
    ∃ e, (pre ++ r :: post).mapM (fun r =>
      match splitOnce ':' (trim r) with
      | none => (Except.error ErrKind.badAffects : Except ErrKind (Option Text × Text))
      | some (f, n) => .ok (if (trim f).isEmpty then none else some (trim f), trim n)) = .error e := by
  induction pre with
  | nil => exact ⟨.badAffects, by simp [List.mapM_cons, h, bind, Except.bind]⟩
  | cons x xs ih =>
    obtain ⟨e, he⟩ := ih
    simp only [List.cons_append, List.mapM_cons, bind, Except.bind]
    cases hx : (match splitOnce ':' (trim x) with
      | none => (Except.error ErrKind.badAffects : Except ErrKind (Option Text × Text))
      | some (f, n) => .ok (if (trim f).isEmpty then none else some (trim f), trim n)) with
    | error e' => exact ⟨e', rfl⟩
    | ok v =>
      simp only [he]
      exact ⟨e, rfl⟩

/-! ## (4b) the patch text is read back exactly -/
open Bw.Unidiff in
/-- **unidiff round trip**: a patch written the way git writes it (`--- a/p`, `+++ b/p`, `@@ -S,L +S,L @@ section`, body
    lines prefixed `+` / `-` / space, lengths matching the body) is read back as exactly those files, hunks and lines,
    each line carrying its source / target number - for any number of files and hunks, provided no body line looks like
    a file header (`--- x` / `+++ x`: the known class D10) -/
theorem diff_roundtrip (fs : List RFile) (hw : ∀ f ∈ fs, f.WF) (input : Text)
    (hl : lines input = fs.flatMap renderFile) : Unidiff.parse input = .ok (fs.map fileOf) := by
  obtain ⟨st, h1, h2⟩ := files_step fs hw {}
  unfold Unidiff.parse
  rw [hl, h1]
  simp only [St.close] at h2
  cases hc : st.current with
  | none => simp [hc] at h2 ⊢; exact h2
  | some f => simp [hc] at h2 ⊢; exact h2

open Bw.Unidiff in
/-- the numbering of the lines read back: added lines count up from the hunk's target start, skipping removed ones -/
example : number 10 20 [(.ctx, "a".toList), (.rem, "b".toList), (.add, "c".toList), (.add, "d".toList)] =
    [⟨.ctx, "a".toList, some 10, some 20⟩, ⟨.rem, "b".toList, some 11, none⟩,
     ⟨.add, "c".toList, none, some 21⟩, ⟨.add, "d".toList, none, some 22⟩] := by decide

open Bw.Unidiff in
/-- non-vacuity: a concrete two-hunk file meets the hypotheses … -/
example : (⟨"a/x.py".toList, "b/x.py".toList,
    [⟨"1".toList, "2".toList, "1".toList, "2".toList, [], [(.ctx, "k".toList), (.rem, "old".toList), (.add, "new".toList)]⟩,
     ⟨"9".toList, "0".toList, "9".toList, "1".toList, " fn".toList, [(.add, "z".toList)]⟩]⟩ : RFile).WF := by
  refine ⟨⟨by decide, by decide⟩, ⟨by decide, by decide⟩, ?_⟩
  intro h hh
  simp only [List.mem_cons, List.not_mem_nil, or_false] at hh
  rcases hh with rfl | rfl
  · refine ⟨⟨by decide, by decide⟩, ⟨by decide, by decide⟩, ⟨by decide, by decide⟩, ⟨by decide, by decide⟩, by decide, by decide, by decide, ?_, ?_⟩
    · intro x hx; simp at hx; rcases hx with rfl | rfl | rfl <;> decide
    · intro x hx; simp at hx; rcases hx with rfl | rfl | rfl <;> exact ⟨by decide, by decide⟩
  · refine ⟨⟨by decide, by decide⟩, ⟨by decide, by decide⟩, ⟨by decide, by decide⟩, ⟨by decide, by decide⟩, by decide, by decide, by decide, ?_, ?_⟩
    · intro x hx; simp at hx; subst hx; decide
    · intro x hx; simp at hx; subst hx; exact ⟨by decide, by decide⟩

open Bw.Unidiff in
/-- … and a removed SQL comment line does not (D10): it reads as a `--- ` file header -/
example : ¬ Benign (.rem, "-- note".toList) := by
  intro h; have := h.1; revert this; decide

/-! ## (5) path prefix -/

/-- the leading `b/` git writes is removed exactly once, whatever the path itself starts with -/
theorem strip_b_once (p : Text) : normaliseTarget ("b/".toList ++ p) = p := by
  simp [normaliseTarget, stripPrefix]

example : normaliseTarget "b/b/y.py".toList = "b/y.py".toList := by decide
example : normaliseTarget "/dev/null".toList = "/dev/null".toList := by decide

end Bw.Props.C01
