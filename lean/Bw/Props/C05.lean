import Bw.Lemmas.TagRT
import Bw.Lemmas.TagSound
import Bw.Lemmas.TagFuel
import Bw.Gen.Alnum
/-! # C05 — tag syntax: attributes round-trip, look-alikes are ignored

All statements are for an arbitrary name-character predicate `cfg.isName` satisfying `Cfg.WF`
(blanks, `=`, `>`, `"`, `'` are not name characters); `cfg_wf_generated` discharges `Cfg.WF` for the
table generated from Rust's `char::is_alphanumeric`. -/
namespace Bw.Props.C05
open Bw Bw.Tag

/-- the name-character predicate the driver uses (generated Unicode table + `-` + `_`) -/
def realCfg : Cfg := ⟨fun c => Gen.isAlnum c || c = '-' || c = '_'⟩

theorem cfg_wf_generated : realCfg.WF := by
  refine ⟨?_, by decide +kernel, by decide +kernel, by decide +kernel, by decide +kernel⟩
  intro c hc
  have : c = ' ' ∨ c = '\t' ∨ c = '\r' ∨ c = '\n' := by
    simp only [isSp, Bool.or_eq_true, decide_eq_true_eq] at hc
    rcases hc with ((h | h) | h) | h
    · exact Or.inl h
    · exact Or.inr (Or.inl h)
    · exact Or.inr (Or.inr (Or.inl h))
    · exact Or.inr (Or.inr (Or.inr h))
  rcases this with rfl | rfl | rfl | rfl <;> decide +kernel

/-- **Round trip.** Any well-formed attribute list (bare names, double-quoted, single-quoted and
    unquoted values; arbitrary blank layouts incl. newlines; any number of attributes), printed as
    `<block … >` and followed by anything, is parsed back to exactly those names and values. -/
theorem start_roundtrip (cfg : Cfg) (hc : cfg.WF) (as : List Attr) (hwf : ∀ a ∈ as, a.WF cfg)
    (wsEnd rest : Text) (hw : allp isSp wsEnd) :
    parseStart cfg ("<block".toList ++ (renderAll as ++ tailOf wsEnd rest)) =
      some (as.map (fun a => (a.name, a.val.text)), rest) :=
  parseStart_render cfg hc as hwf wsEnd rest hw

/-- **Soundness (converse of the round trip).** Whatever the start-tag grammar accepts is `<block`, the
    rendering of a well-formed attribute list, blanks and `>`; the reported names and values are exactly
    that list's. So nothing but a well-formed tag is ever taken for one. -/
theorem start_sound (cfg : Cfg) (s : Text) (nvs : List (Text × Text)) (rest : Text)
    (h : parseStart cfg s = some (nvs, rest)) :
    ∃ (as : List Attr) (wsEnd : Text), (∀ a ∈ as, a.WF cfg) ∧ allp isSp wsEnd ∧
      s = "<block".toList ++ (renderAll as ++ tailOf wsEnd rest) ∧ nvs = as.map (fun a => (a.name, a.val.text)) :=
  parseStart_sound cfg s nvs rest h

/-- round trip and soundness together: the accepted texts are *exactly* the renderings of well-formed lists -/
theorem start_iff (cfg : Cfg) (hc : cfg.WF) (s : Text) (nvs : List (Text × Text)) (rest : Text) :
    parseStart cfg s = some (nvs, rest) ↔
      ∃ (as : List Attr) (wsEnd : Text), (∀ a ∈ as, a.WF cfg) ∧ allp isSp wsEnd ∧
        s = "<block".toList ++ (renderAll as ++ tailOf wsEnd rest) ∧ nvs = as.map (fun a => (a.name, a.val.text)) := by
  constructor
  · exact parseStart_sound cfg s nvs rest
  · rintro ⟨as, wsEnd, hwf, hw, rfl, rfl⟩
    exact parseStart_render cfg hc as hwf wsEnd rest hw

/-- the last duplicate wins -/
theorem last_duplicate_wins (attrs : List (Text × Text)) (k v : Text) :
    attrGet (attrs ++ [(k, v)]) k = some v := by
  simp [attrGet]

/-- end tags tolerate inner blanks: `<` ws* `/` ws* `block` ws* `>` -/
theorem end_ws (w1 w2 w3 rest : Text) (h1 : allp isSp w1) (h2 : allp isSp w2) (h3 : allp isSp w3) :
    parseEnd ('<' :: (w1 ++ '/' :: (w2 ++ ("block".toList ++ (w3 ++ '>' :: rest))))) = some rest := by
  have e1 := span_append_stop isSp w1 '/' (w2 ++ ("block".toList ++ (w3 ++ '>' :: rest))) h1 (by decide)
  have e2 : span isSp (w2 ++ ("block".toList ++ (w3 ++ '>' :: rest))) = (w2, "block".toList ++ (w3 ++ '>' :: rest)) :=
    span_append_stop isSp w2 'b' _ h2 (by decide)
  have e3 := span_append_stop isSp w3 '>' rest h3 (by decide)
  have e4 : stripPrefix "block".toList ("block".toList ++ (w3 ++ '>' :: rest)) = some (w3 ++ '>' :: rest) := by
    simp [stripPrefix]
  simp only [parseEnd, e1, e2, e4, e3]

/-- … and nothing else is an end tag -/
theorem end_iff (s rest : Text) :
    parseEnd s = some rest ↔ ∃ w1 w2 w3 : Text, allp isSp w1 ∧ allp isSp w2 ∧ allp isSp w3 ∧
      s = '<' :: (w1 ++ '/' :: (w2 ++ ("block".toList ++ (w3 ++ '>' :: rest)))) := by
  constructor
  · exact parseEnd_sound s rest
  · rintro ⟨w1, w2, w3, h1, h2, h3, rfl⟩
    exact end_ws w1 w2 w3 rest h1 h2 h3

/-- look-alikes: after `<block` anything that is neither a blank nor `>` is not a block tag
    (`<blockquote>`, `<block/>`, `<block-x>`, `<blocks>`, …) -/
theorem lookalike_glued (cfg : Cfg) (c : Char) (rest : Text) (h1 : isSp c = false) (h2 : c ≠ '>') :
    parseStart cfg ("<block".toList ++ c :: rest) = none := by
  have hp : stripPrefix "<block".toList ("<block".toList ++ c :: rest) = some (c :: rest) := by simp [stripPrefix]
  have hs : span isSp (c :: rest) = ([], c :: rest) := by simp [span, h1]
  have ha : parseAttr cfg (c :: rest) = none := by simp [parseAttr, hs]
  have hattrs : parseAttrs cfg (c :: rest).length (c :: rest) = ([], c :: rest) := by
    simp [parseAttrs, ha]
  simp only [parseStart, hp, hattrs, hs]
  split
  · rename_i heq; injection heq with h _; exact absurd h h2
  · rfl

/-- a tag that is cut off (`<block` at the end of the comment, or followed only by blanks) is not a tag -/
theorem lookalike_cut (cfg : Cfg) (w : Text) (hw : allp isSp w) : parseStart cfg ("<block".toList ++ w) = none := by
  have hp : stripPrefix "<block".toList ("<block".toList ++ w) = some w := by simp [stripPrefix]
  have hs : span isSp w = (w, []) := span_all_nil isSp w hw
  have ha : parseAttr cfg w = none := by
    simp only [parseAttr, hs]
    cases w with
    | nil => simp
    | cons x xs => simp [span]
  have hattrs : ∀ n, parseAttrs cfg n w = ([], w) := by
    intro n; cases n <;> simp [parseAttrs, ha]
  simp only [parseStart, hp, hattrs, hs]

/-- anything not starting with the literal `<block` is not a start tag (`<Block>`, `< block>`, `<BLOCK>`) -/
theorem lookalike_prefix (cfg : Cfg) (s : Text) (h : stripPrefix "<block".toList s = none) : parseStart cfg s = none := by
  simp only [parseStart, h]

example : stripPrefix "<block".toList "<Block>".toList = none := by decide
example : stripPrefix "<block".toList "< block>".toList = none := by decide
example : parseEnd "</block x>".toList = none := by decide
example : parseEnd "</ blok>".toList = none := by decide
example : parseEnd "</ block >rest".toList = some "rest".toList := by decide

/-- a double-quoted value whose quote is never closed is not a value -/
theorem open_dquote_no_value (cfg : Cfg) (v : Text) (h : ∀ c ∈ v, c ≠ '"') : parseValue cfg ('"' :: v) = none := by
  have hs : span (· != '"') v = (v, []) := span_all_nil _ v (by intro c hc; simp [h c hc])
  simp [parseValue, hs]

theorem open_squote_no_value (cfg : Cfg) (v : Text) (h : ∀ c ∈ v, c ≠ '\'') : parseValue cfg ('\'' :: v) = none := by
  have hs : span (· != '\'') v = (v, []) := span_all_nil _ v (by intro c hc; simp [h c hc])
  simp [parseValue, hs]

/-- a start tag whose quote is never closed inside the comment is not taken for a block tag -/
theorem lookalike_open_quote (cfg : Cfg) (hc : cfg.WF) (ws name v : Text) (hws : allp isSp ws) (hne : ws ≠ [])
    (hn : allp cfg.isName name) (hnn : name ≠ []) (hv : ∀ c ∈ v, c ≠ '"') :
    parseStart cfg ("<block".toList ++ (ws ++ (name ++ '=' :: '"' :: v))) = none := by
  obtain ⟨n0, ns, hname⟩ : ∃ n0 ns, name = n0 :: ns := by
    cases name with
    | nil => exact absurd rfl hnn
    | cons x xs => exact ⟨x, xs, rfl⟩
  have hn0 : cfg.isName n0 = true := hn n0 (by simp [hname])
  have hn0sp : isSp n0 = false := isSp_not_name cfg hc hn0
  have hp : stripPrefix "<block".toList ("<block".toList ++ (ws ++ (name ++ '=' :: '"' :: v))) =
      some (ws ++ (name ++ '=' :: '"' :: v)) := by simp [stripPrefix]
  have e1 : span isSp (ws ++ (name ++ '=' :: '"' :: v)) = (ws, name ++ '=' :: '"' :: v) := by
    rw [hname]; exact span_append_stop isSp ws n0 _ hws hn0sp
  have e2 : span cfg.isName (name ++ '=' :: '"' :: v) = (name, '=' :: '"' :: v) :=
    span_append_stop cfg.isName name '=' _ hn hc.eq_not_name
  have e3 : span isSp ('=' :: '"' :: v) = ([], '=' :: '"' :: v) := by simp [span, isSp]
  have e4 : span isSp ('"' :: v) = ([], '"' :: v) := by simp [span, isSp]
  have hval := open_dquote_no_value cfg v hv
  have hattr : parseAttr cfg (ws ++ (name ++ '=' :: '"' :: v)) = some ((name, []), '=' :: '"' :: v) := by
    simp only [parseAttr, e1, e2, e3, e4, hval, isEmpty_false_of_ne' hne, isEmpty_false_of_ne' hnn]
    simp
  have hattr2 : parseAttr cfg ('=' :: '"' :: v) = none := by simp [parseAttr, e3]
  have hlen : ∃ k, (ws ++ (name ++ '=' :: '"' :: v)).length = k + 2 := by
    refine ⟨ws.length + name.length + v.length, ?_⟩
    simp; omega
  obtain ⟨k, hk⟩ := hlen
  have hattrs : parseAttrs cfg (ws ++ (name ++ '=' :: '"' :: v)).length (ws ++ (name ++ '=' :: '"' :: v)) =
      ([(name, [])], '=' :: '"' :: v) := by
    rw [hk]
    simp only [parseAttrs, hattr, hattr2]
  simp only [parseStart, hp, hattrs, e3]
  simp

/-- noise without `<` in front of a tag is skipped: the scanner continues at the tag with the
    right byte offset -/
theorem scan_skips_noise (cfg : Cfg) (noise t : Text) (h : ∀ c ∈ noise, c ≠ '<') (fuel off : Nat) :
    scan cfg (noise.length + fuel) off (noise ++ t) = scan cfg fuel (off + ulen noise) t := by
  induction noise generalizing off with
  | nil => simp [ulen]
  | cons c cs ih =>
    have hc : c ≠ '<' := h c (by simp)
    have : (c :: cs).length + fuel = (cs.length + fuel) + 1 := by simp; omega
    rw [this]
    simp only [List.cons_append, scan, hc, if_false]
    rw [ih (fun x hx => h x (by simp [hx]))]
    have hu : c.utf8Size = 1 ∨ c.utf8Size ≠ 1 := by omega
    simp only [ulen]
    congr 1
    omega

/-- more generally: noise may contain `<` characters (foreign tags, look-alikes, comparison operators) as
    long as no `<` inside it starts a block tag; the scanner then skips all of it -/
theorem scan_skips_nontags (cfg : Cfg) (noise t : Text)
    (h : ∀ a b, noise = a ++ '<' :: b → parseStart cfg ('<' :: (b ++ t)) = none ∧ parseEnd ('<' :: (b ++ t)) = none)
    (fuel off : Nat) :
    scan cfg (noise.length + fuel) off (noise ++ t) = scan cfg fuel (off + ulen noise) t := by
  induction noise generalizing off with
  | nil => simp [ulen]
  | cons c cs ih =>
    have hlen : (c :: cs).length + fuel = (cs.length + fuel) + 1 := by simp; omega
    have hrest : ∀ a b, cs = a ++ '<' :: b → parseStart cfg ('<' :: (b ++ t)) = none ∧ parseEnd ('<' :: (b ++ t)) = none :=
      fun a b hab => h (c :: a) b (by simp [hab])
    rw [hlen]
    simp only [List.cons_append, scan]
    by_cases hc : c = '<'
    · subst hc
      have h0 := h [] cs (by simp)
      simp only [h0.1, h0.2, if_true]
      rw [ih hrest]
      have : ('<' : Char).utf8Size = 1 := by decide
      simp only [ulen, this]
      congr 1; omega
    · simp only [hc, if_false]
      rw [ih hrest]
      simp only [ulen]
      congr 1; omega

/-- **Scanner finds the tag.** In `noise ++ tag ++ rest` with `<`-free noise, the first tag
    reported is that start tag with byte range `[|noise|, |noise| + |tag|)`, and scanning resumes
    right after it. -/
theorem scan_finds_start (cfg : Cfg) (noise tagText rest : Text) (attrs : List (Text × Text))
    (hnoise : ∀ c ∈ noise, c ≠ '<') (c0 : Char) (t0 : Text) (htag : tagText = c0 :: t0) (hc0 : c0 = '<')
    (hparse : parseStart cfg (tagText ++ rest) = some (attrs, rest)) (fuel : Nat) :
    scan cfg (noise.length + (fuel + 1)) 0 (noise ++ (tagText ++ rest)) =
      .start (ulen noise) (ulen noise + ulen tagText) attrs :: scan cfg fuel (ulen noise + ulen tagText) rest := by
  rw [scan_skips_noise cfg noise _ hnoise]
  subst htag; subst hc0
  simp only [List.cons_append, scan, if_true] at hparse ⊢
  rw [hparse]
  simp only [Nat.zero_add]
  have : ulen ('<' :: (t0 ++ rest)) - ulen rest = ulen ('<' :: t0) := by
    have := ulen_append ('<' :: t0) rest
    simp only [List.cons_append] at this
    omega
  rw [this]

/-! ### a whole comment text: any number of tags, glued or separated -/

/-- one stretch of a comment text: `<`-free noise followed by a tag as written -/
structure Seg where
  noise : Text
  tagText : Text
  /-- `some attrs` = a start tag with these attributes, `none` = an end tag -/
  kind : Option (List (Text × Text))

/-- the tag text is what the parsers accept, whatever follows it -/
def Seg.Ok (cfg : Cfg) (s : Seg) : Prop :=
  (∀ c ∈ s.noise, c ≠ '<') ∧ (∃ t0, s.tagText = '<' :: t0) ∧
  match s.kind with
  | some attrs => ∀ rest, parseStart cfg (s.tagText ++ rest) = some (attrs, rest)
  | none => ∀ rest, parseStart cfg (s.tagText ++ rest) = none ∧ parseEnd (s.tagText ++ rest) = some rest

def renderSegs : List Seg → Text
  | [] => []
  | s :: ss => s.noise ++ (s.tagText ++ renderSegs ss)

/-- the tags with their byte ranges, as laid out from offset `off` -/
def expectTags : Nat → List Seg → List Tag
  | _, [] => []
  | off, s :: ss =>
    let st := off + ulen s.noise
    let e := st + ulen s.tagText
    (match s.kind with
      | some attrs => Tag.start st e attrs
      | none => Tag.stop st e) :: expectTags e ss

theorem scan_noise_only (cfg : Cfg) (noise : Text) (h : ∀ c ∈ noise, c ≠ '<') (fuel off : Nat) :
    scan cfg fuel off noise = [] := by
  induction noise generalizing fuel off with
  | nil => cases fuel <;> simp [scan]
  | cons c cs ih =>
    cases fuel with
    | zero => simp [scan]
    | succ f =>
      have hc : c ≠ '<' := h c (by simp)
      simp only [scan, hc, if_false]
      exact ih (fun x hx => h x (by simp [hx])) _ _

theorem scan_segs_aux (cfg : Cfg) (segs : List Seg) (hok : ∀ s ∈ segs, s.Ok cfg) (tail : Text) (htail : ∀ c ∈ tail, c ≠ '<') :
    ∀ fuel off, (renderSegs segs ++ tail).length < fuel →
      scan cfg fuel off (renderSegs segs ++ tail) = expectTags off segs := by
  induction segs with
  | nil =>
    intro fuel off _
    simp only [renderSegs, List.nil_append, expectTags]
    exact scan_noise_only cfg tail htail fuel off
  | cons s ss ih =>
    intro fuel off hf
    obtain ⟨hnoise, ⟨t0, ht0⟩, hkind⟩ := hok s (List.mem_cons_self ..)
    have ihs := ih (fun x hx => hok x (List.mem_cons_of_mem _ hx))
    simp only [renderSegs, List.append_assoc] at hf ⊢
    -- skip the noise
    have hfuel : fuel = s.noise.length + (fuel - s.noise.length) := by
      simp only [List.length_append] at hf; omega
    rw [hfuel, scan_skips_noise cfg s.noise _ hnoise]
    -- one step at the tag
    have hlen : (s.tagText ++ (renderSegs ss ++ tail)).length < fuel - s.noise.length := by
      simp only [List.length_append] at hf ⊢; omega
    obtain ⟨f', hf'⟩ : ∃ f', fuel - s.noise.length = f' + 1 := ⟨fuel - s.noise.length - 1, by omega⟩
    rw [hf']
    have hrest : (renderSegs ss ++ tail).length < f' := by
      have : s.tagText.length ≥ 1 := by rw [ht0]; simp
      simp only [List.length_append] at hlen ⊢; omega
    have hul : ulen (s.tagText ++ (renderSegs ss ++ tail)) - ulen (renderSegs ss ++ tail) = ulen s.tagText := by
      have := ulen_append s.tagText (renderSegs ss ++ tail); omega
    cases hk : s.kind with
    | some attrs =>
      rw [hk] at hkind
      have hp := hkind (renderSegs ss ++ tail)
      rw [ht0] at hp hul ⊢
      simp only [List.cons_append, scan, if_true] at hp hul ⊢
      rw [hp]
      simp only [expectTags, hk, ht0]
      rw [hul, ihs f' _ hrest]
    | none =>
      rw [hk] at hkind
      obtain ⟨hp1, hp2⟩ := hkind (renderSegs ss ++ tail)
      rw [ht0] at hp1 hp2 hul ⊢
      simp only [List.cons_append, scan, if_true] at hp1 hp2 hul ⊢
      rw [hp1, hp2]
      simp only [expectTags, hk, ht0]
      rw [hul, ihs f' _ hrest]

/-- **the scanner finds exactly the tags written, each at its byte range, wherever they sit**: a comment text made of any
    number of tags - start tags in any accepted spelling, end tags - separated (or not: the noise may be empty, tags may be
    glued, a tag may be the first or the last bytes of the text) by `<`-free text yields those tags in order, with the byte
    offsets at which they were written, and nothing else -/
theorem scan_sequence (cfg : Cfg) (segs : List Seg) (hok : ∀ s ∈ segs, s.Ok cfg) (tail : Text) (htail : ∀ c ∈ tail, c ≠ '<') :
    scanAll cfg (renderSegs segs ++ tail) = expectTags 0 segs :=
  scan_segs_aux cfg segs hok tail htail _ 0 (Nat.lt_succ_self _)

/-- every rendering of a well-formed attribute list is an acceptable start-tag segment -/
theorem seg_ok_start (cfg : Cfg) (hc : cfg.WF) (noise : Text) (hn : ∀ c ∈ noise, c ≠ '<') (as : List Attr)
    (hwf : ∀ a ∈ as, a.WF cfg) (wsEnd : Text) (hw : allp isSp wsEnd) :
    (Seg.mk noise ("<block".toList ++ (renderAll as ++ tailOf wsEnd [])) (some (as.map (fun a => (a.name, a.val.text))))).Ok cfg := by
  refine ⟨hn, ⟨_, rfl⟩, ?_⟩
  intro rest
  have := start_roundtrip cfg hc as hwf wsEnd rest hw
  simp only [tailOf, List.append_assoc, List.cons_append, List.nil_append] at this ⊢
  exact this

/-- every spelling `<` ws* `/` ws* `block` ws* `>` is an acceptable end-tag segment -/
theorem seg_ok_end (cfg : Cfg) (noise : Text) (hn : ∀ c ∈ noise, c ≠ '<') (w1 w2 w3 : Text)
    (h1 : allp isSp w1) (h2 : allp isSp w2) (h3 : allp isSp w3) :
    (Seg.mk noise ('<' :: (w1 ++ '/' :: (w2 ++ ("block".toList ++ (w3 ++ ['>']))))) none).Ok cfg := by
  refine ⟨hn, ⟨_, rfl⟩, ?_⟩
  intro rest
  constructor
  · apply lookalike_prefix
    cases w1 with
    | nil => simp [stripPrefix]
    | cons c cs =>
      have hc : isSp c = true := h1 c (List.mem_cons_self ..)
      have hb : ¬ 'b' = c := by intro h; subst h; revert hc; decide
      simp [stripPrefix, hb]
  · have := end_ws w1 w2 w3 rest h1 h2 h3
    simp only [List.append_assoc, List.cons_append, List.nil_append] at this ⊢
    exact this

/-- non-vacuity: a start tag glued to an end tag at the very end of the text, after a bare start tag at the very beginning -/
example : scanAll realCfg "<block>x</block><block a=1>".toList =
    [.start 0 7 [], .stop 8 16, .start 16 27 [("a".toList, "1".toList)]] := by decide +kernel

end Bw.Props.C05
