import Bw.Props.C11
import Bw.Props.C09
/-! # C13 — malformed rules fail closed

One lemma per malformation class: the validator returns an error (never "pass"); any validator
error makes `run` an error; an error exits non-zero. The qualifiers ("on a block with content",
"that takes part in a comparison", "on a modified block", "on a block that has a violation")
are exactly the guards of the code and appear as hypotheses. -/
namespace Bw.Props.C13
open Bw Bw.Pipe Bw.Val Bw.Blocks

theorem unknown_direction_errs (re : Regex) (file : Text) (b : Block) (dir : Text) (h : normDirection dir = none) :
    keepSorted re file b dir = .error .badDirection := by
  simp [keepSorted, h]

theorem unknown_format_errs (re : Regex) (file : Text) (b : Block) (dir norm : Text)
    (h1 : normDirection dir = some norm) (h2 : sortFormat b.attrs = none) :
    keepSorted re file b dir = .error .badFormat := by
  simp [keepSorted, h1, h2]

/-- examples of directions / formats that are rejected -/
example : normDirection " asc".toList = none := by decide
example : normDirection "up".toList = none := by decide
example : normDirection "asc ".toList = none := by decide
example : normDirection "ASC".toList = some "asc".toList := by decide
example : sortFormat [("keep-sorted-format".toList, "num".toList)] = none := by decide
example : sortFormat [("keep-sorted-format".toList, " Numeric ".toList)] = some true := by decide

/-- a non-numeric key that takes part in a comparison is an error -/
theorem non_numeric_errs (a b : Text) (h : Num.parseNum a = none ∨ Num.parseNum b = none) :
    numCmp a b = .error .notANumber := by
  unfold numCmp
  rcases h with h | h
  · rw [h]
  · cases Num.parseNum a <;> simp [h]

theorem non_numeric_in_loop (bad : Ordering) (p k : Key) (rest : List Key)
    (h : Num.parseNum p.key = none ∨ Num.parseNum k.key = none) :
    sortLoop (sortCmp true) bad none (p :: k :: rest) = .err .notANumber := by
  simp [sortLoop, sortCmp, non_numeric_errs p.key k.key h]

example : Num.parseNum "abc".toList = none := by decide
example : Num.parseNum "1_0".toList = none := by decide
example : Num.parseNum " 1".toList = none := by decide
example : Num.parseNum "0x10".toList = none := by decide
example : Num.parseNum "".toList = none := by decide

/-- an uncompilable `keep-sorted-pattern` on a block with content is an error -/
theorem bad_sort_regex_errs (re : Regex) (file : Text) (b : Block) (dir norm pat : Text) (numeric : Bool)
    (h1 : normDirection dir = some norm) (h2 : sortFormat b.attrs = some numeric)
    (hp : Tag.attrGet b.attrs "keep-sorted-pattern".toList = some pat) (hne : pat ≠ [])
    (hc : re.compiles pat = false) (hcontent : (lines (content file b)).isEmpty = false) :
    keepSorted re file b dir = .error .badRegex := by
  have he : pat.isEmpty = false := by cases pat <;> simp_all
  simp only [keepSorted, h1, h2, hp, Option.getD_some, he]
  simp [hc, hcontent]

/-- an uncompilable `keep-unique` regex on a block with content is an error -/
theorem bad_unique_regex_errs (re : Regex) (file : Text) (b : Block) (pat : Text) (hne : pat ≠ [])
    (hc : re.compiles pat = false) (hcontent : (lines (content file b)).isEmpty = false) :
    keepUnique re file b pat = .error .badRegex := by
  have he : pat.isEmpty = false := by cases pat <;> simp_all
  simp [keepUnique, he, hc, hcontent]

/-- an uncompilable `line-pattern` is an error on any block -/
theorem bad_line_pattern_errs (re : Regex) (file : Text) (b : Block) (pat : Text) (hc : re.compiles pat = false) :
    linePattern re file b pat = .error .badRegex := by
  simp [linePattern, hc]

/-- a `line-count` expression outside the grammar is an error -/
theorem bad_line_count_errs (file : Text) (b : Block) (expr : Text) (h : parseConstraint expr = none) :
    lineCount file b expr = .error .badConstraint := C09.bad_constraint_errs file b expr h

/-- an unknown severity is an error as soon as the block produces a violation -/
theorem bad_severity_errs (code : String) (b : Block) (data) (k : Key) (s : Text)
    (h1 : Tag.attrGet b.attrs "severity".toList = some s) (h2 : severityFromStr s = none) :
    finishKey code b data (.viol k) = .error .badSeverity := by
  simp only [finishKey, severityOf, h1, h2]

example : severityFromStr "warn".toList = none := by decide
example : severityFromStr "".toList = none := by decide
example : severityFromStr " error".toList = none := by decide

/-- a blank Lua script path / a blank AI condition is an error -/
theorem blank_lua_path_errs (re : Regex) (o : AsyncOracle) (f : FileCtx) (b : BlockCtx) (a : Text)
    (h1 : Tag.attrGet b.block.attrs "check-lua".toList = some a) (h2 : (trim a).isEmpty = true) :
    checkBlock re o "check-lua" f b = .error .emptyLuaPath := by
  have e : "check-lua".toList = ['c', 'h', 'e', 'c', 'k', '-', 'l', 'u', 'a'] := rfl
  rw [e] at h1
  simp [checkBlock, h1, h2]

theorem blank_ai_condition_errs (re : Regex) (o : AsyncOracle) (f : FileCtx) (b : BlockCtx) (a : Text)
    (h1 : Tag.attrGet b.block.attrs "check-ai".toList = some a) (h2 : (trim a).isEmpty = true) :
    checkBlock re o "check-ai" f b = .error .emptyAiCondition := by
  have e : "check-ai".toList = ['c', 'h', 'e', 'c', 'k', '-', 'a', 'i'] := rfl
  rw [e] at h1
  simp [checkBlock, h1, h2]

/-- an unreadable / failing script or endpoint (outcome oracle answers a failure) is an error -/
theorem async_fault_errs (re : Regex) (o : AsyncOracle) (f : FileCtx) (b : BlockCtx) (a c : Text) (e : ErrKind)
    (h1 : Tag.attrGet b.block.attrs "check-lua".toList = some a) (h2 : (trim a).isEmpty = false)
    (hc : blockContent re f.text b.block "check-lua-pattern" .luaError = .ok c)
    (h3 : o "check-lua" f.path b.block = .fail e) : checkBlock re o "check-lua" f b = .error e := by
  have e' : "check-lua".toList = ['c', 'h', 'e', 'c', 'k', '-', 'l', 'u', 'a'] := rfl
  rw [e'] at h1
  simp [checkBlock, h1, h2, hc, h3]

/-- an uncompilable `check-lua-pattern` / `check-ai-pattern` is an error before the script / request runs -/
theorem bad_content_pattern_errs (re : Regex) (file : Text) (b : Block) (attr : String) (p : Text) (e : ErrKind)
    (h1 : Tag.attrGet b.attrs attr.toList = some p) (h2 : re.compiles p = false) :
    blockContent re file b attr e = .error e := by
  unfold blockContent; rw [h1]; simp only [h2, Bool.not_false, if_true]

/-- **run fails**: an erring block of a detected validator makes the whole run an error, exit 1 -/
theorem run_fails_closed (re : Regex) (oracle : AsyncOracle) (ctx : List FileCtx) (en dis : List String)
    (r : Text × Except ErrKind (List Diag)) (hr : r ∈ runResults re oracle ctx en dis) (e : ErrKind) (he : r.2 = .error e) :
    exitCode (run re oracle ctx en dis) = 1 := by
  obtain ⟨ks, hk⟩ := (C11.run_err_iff re oracle ctx en dis).2 ⟨r, hr, e, he⟩
  rw [hk]; rfl

end Bw.Props.C13
