import Bw.Pipeline
import Bw.ListReport
import Bw.Lemmas.TreeWalk
import Bw.Lemmas.NormShape
/-! # C03 — blocks are exactly the tag pairs written in comments

Pairing (`parse_blocks_from_comments`) against the Dyck grammar, content ranges, ordering. The
tag scan itself is C05; which bytes are comments is tree-sitter's decision (trusted, see DESIGN). -/
namespace Bw.Props.C03
open Bw Bw.Blocks

/-- Well-nested event words with the blocks they denote (inner pairs first = closing order). -/
inductive Dyck : List Ev → List Block → Prop where
  | nil : Dyck [] []
  | wrap {w bs} (o : Open) (c : Comment) (idx s : Nat) :
      Dyck w bs → Dyck (.start o :: w ++ [.stop c idx s]) (bs ++ [intoBlock o c idx])
  | cat {w₁ b₁ w₂ b₂} : Dyck w₁ b₁ → Dyck w₂ b₂ → Dyck (w₁ ++ w₂) (b₁ ++ b₂)

theorem pair_dyck_append {w : List Ev} {bs} (h : Dyck w bs) :
    ∀ rest st acc, pair (w ++ rest) st acc = pair rest st (acc ++ bs) := by
  induction h with
  | nil => intro rest st acc; simp
  | wrap o c idx s _ ih =>
    intro rest st acc
    simp only [List.cons_append, List.append_assoc, pair]
    rw [ih]
    simp [pair, List.append_assoc]
  | cat _ _ ih₁ ih₂ =>
    intro rest st acc
    rw [List.append_assoc, ih₁, ih₂, List.append_assoc]

/-- **Pairing is Dyck matching**: tags pair innermost-first; nested and sibling blocks each get
    their own start/end comment. -/
theorem pair_of_dyck {w : List Ev} {bs} (h : Dyck w bs) : pair w [] [] = .ok bs := by
  have := pair_dyck_append h [] [] []
  simpa [pair] using this

/-- depth after a word, starting at depth `d`; `none` if it ever goes below zero. -/
def depth : List Ev → Nat → Option Nat
  | [], d => some d
  | .start _ :: w, d => depth w (d + 1)
  | .stop .. :: _, 0 => none
  | .stop .. :: w, d + 1 => depth w d

/-- blocks are produced iff no prefix closes more than it opens and the word ends at depth 0 -/
theorem pair_ok_iff_depth (w : List Ev) : ∀ st acc,
    (∃ out, pair w st acc = .ok out) ↔ depth w st.length = some 0 := by
  induction w with
  | nil =>
    intro st acc
    cases st <;> simp [pair, depth]
  | cons e w ih =>
    intro st acc
    cases e with
    | start o => simpa [pair, depth] using ih (o :: st) acc
    | stop c idx s =>
      cases st with
      | nil => simp [pair, depth]
      | cons a st => simpa [pair, depth] using ih st (acc ++ [intoBlock a c idx])

/-- **Content**: exactly the source bytes between the end of the comment holding the start tag and
    the start of the comment holding the end tag; empty when both tags share one comment. -/
theorem content_range (o : Open) (c : Comment) (idx : Nat) :
    ((intoBlock o c idx).cStart, (intoBlock o c idx).cEnd) =
      if idx ≠ o.idx then (o.comment.srcEnd, c.srcStart) else (0, 0) := by
  simp only [intoBlock]

theorem content_positions (o : Open) (c : Comment) (idx : Nat) :
    (intoBlock o c idx).cPosStart = o.comment.posEnd ∧ (intoBlock o c idx).cPosEnd = c.posStart := by
  simp [intoBlock]

/-- attributes and tag position of a block are those of its start tag, as parsed -/
theorem block_of_start (o : Open) (c : Comment) (idx : Nat) :
    (intoBlock o c idx).attrs = o.attrs ∧ (intoBlock o c idx).tagStart = o.tagStart ∧
    (intoBlock o c idx).tagEnd = o.tagEnd := by
  simp [intoBlock]

/-- `insertBlock` keeps every block (no block is dropped or invented by the sort) -/
theorem insertBlock_perm (b : Block) (l : List Block) : (insertBlock b l).Perm (b :: l) := by
  induction l with
  | nil => simp [insertBlock]
  | cons x xs ih =>
    simp only [insertBlock]
    split
    · exact List.Perm.refl _
    · exact (List.Perm.cons x ih).trans (List.Perm.swap b x xs)

theorem foldl_insert_perm (bs acc : List Block) :
    (bs.foldl (fun acc b => insertBlock b acc) acc).Perm (bs ++ acc) := by
  induction bs generalizing acc with
  | nil => simp
  | cons b bs ih =>
    simp only [List.foldl_cons]
    refine (ih (insertBlock b acc)).trans ?_
    have h1 := insertBlock_perm b acc
    have : (bs ++ insertBlock b acc).Perm (bs ++ (b :: acc)) := List.Perm.append_left bs h1
    refine this.trans ?_
    simp

/-- the reported block list is a permutation of the paired blocks -/
theorem sortBlocks_perm (bs : List Block) : (sortBlocks bs).Perm bs := by
  have := foldl_insert_perm bs []
  simpa [sortBlocks] using this

/-- sortedness by start-tag position -/
def Sorted : List Block → Prop
  | [] => True
  | [_] => True
  | a :: b :: rest => ¬ b.tagStart.lt a.tagStart = true ∧ Sorted (b :: rest)

theorem Pos.lt_asymm {a b : Pos} (h : a.lt b = true) : ¬ b.lt a = true := by
  simp only [Pos.lt, Bool.or_eq_true, decide_eq_true_eq, Bool.and_eq_true, beq_iff_eq] at *
  omega

theorem Pos.lt_trans_not {a b c : Pos} (h1 : ¬ b.lt a = true) (h2 : ¬ c.lt b = true) : ¬ c.lt a = true := by
  simp only [Pos.lt, Bool.or_eq_true, decide_eq_true_eq, Bool.and_eq_true, beq_iff_eq] at *
  omega

theorem sorted_tail {a : Block} {l : List Block} (h : Sorted (a :: l)) : Sorted l := by
  cases l with
  | nil => trivial
  | cons b rest => exact h.2

theorem insertBlock_sorted (b : Block) (l : List Block) (h : Sorted l) : Sorted (insertBlock b l) := by
  induction l with
  | nil => simp [insertBlock, Sorted]
  | cons x xs ih =>
    simp only [insertBlock]
    by_cases hlt : b.tagStart.lt x.tagStart = true
    · simp only [hlt, if_true]
      exact ⟨Pos.lt_asymm hlt, h⟩
    · simp only [hlt, if_false, Bool.false_eq_true]
      have ih' := ih (sorted_tail h)
      cases xs with
      | nil => simp only [insertBlock, Sorted]; exact ⟨hlt, trivial⟩
      | cons y ys =>
        simp only [insertBlock] at ih' ⊢
        by_cases hly : b.tagStart.lt y.tagStart = true
        · simp only [hly, if_true] at ih' ⊢
          exact ⟨hlt, ih'⟩
        · simp only [hly, if_false, Bool.false_eq_true] at ih' ⊢
          exact ⟨h.1, ih'⟩

/-- **Source order**: blocks are reported sorted by the position of their `<` -/
theorem sortBlocks_sorted (bs : List Block) : Sorted (sortBlocks bs) := by
  unfold sortBlocks
  have : ∀ acc, Sorted acc → Sorted (bs.foldl (fun acc b => insertBlock b acc) acc) := by
    induction bs with
    | nil => intro acc h; simpa
    | cons b bs ih => intro acc h; exact ih _ (insertBlock_sorted b acc h)
  exact this [] trivial

/-! ### line and column of the `<` -/

/-- every normaliser keeps the byte-level line structure of the comment it blanks (same number of bytes
    on every line): offsets in the comment text are offsets in the source range -/
theorem normalise_keeps_line_structure (parser kind : String) (c t : Text)
    (h : Comment.normalise parser kind c = .ok (some t)) : bshape t = bshape c :=
  Comment.normalise_shape parser kind c t h

/-- **the recorded position of a tag character is its (row, byte column) in the source file**: for a
    comment built from the node `[|a|, |a| + |raw|)` of `text = a ++ raw ++ b` by any grammar's closure, and
    a one-byte, non-newline character (`<`, `>`) at byte offset `|pre|` of the comment text -/
theorem tag_position_is_source_position (parser : String) (a raw b : Text) (kind : String) (c : Comment)
    (hstep : Pipe.commentStep parser (a ++ raw ++ b) [] ⟨ulen a, ulen a + ulen raw, kind⟩ = .ok [c])
    (pre rest : Text) (ch : Char) (htag : c.text = pre ++ ch :: rest) (h1 : ch.utf8Size = 1) (hnl : ch ≠ '\n') :
    sourcePositionAt (ulen pre) c = bytePos (bshape (a ++ raw ++ b)) (ulen a + ulen pre) := by
  have hslice : sliceBytes (ulen a) (ulen a + ulen raw) (a ++ raw ++ b) = raw := by
    unfold sliceBytes
    rw [List.append_assoc, dropBytes_append_ulen]
    have : ulen a + ulen raw - ulen a = ulen raw := by omega
    rw [this, takeBytes_append_ulen]
  unfold Pipe.commentStep at hstep
  simp only [hslice] at hstep
  cases hn : Comment.normalise parser kind raw with
  | error e => rw [hn] at hstep; cases hstep
  | ok o =>
    rw [hn] at hstep
    cases o with
    | none => simp at hstep
    | some t =>
      simp only [List.nil_append, Except.ok.injEq, List.cons.injEq, and_true] at hstep
      have hshape := Comment.normalise_shape parser kind raw t hn
      have hct : c.text = t := by rw [← hstep]
      have hstart : c.posStart = bytePos (bshape (a ++ raw ++ b)) (ulen a) := by
        rw [← hstep]
        have := posOf_eq_bytePos a (raw ++ b)
        rw [← List.append_assoc] at this
        simp only [this]
      have hfs : bshape c.text = ((bshape (a ++ raw ++ b)).drop (ulen a)).take (ulen a + ulen raw - ulen a) := by
        rw [hct, hshape, bshape_append, bshape_append, List.append_assoc, ← bshape_length a, List.drop_left' rfl]
        have : (bshape a).length + ulen raw - (bshape a).length = (bshape raw).length := by
          rw [bshape_length raw]; omega
        rw [this, List.take_left' rfl]
      have hq : ulen pre ≤ ulen a + ulen raw - ulen a := by
        have h2 : ulen c.text = ulen raw := by
          rw [← bshape_length, ← bshape_length, hct, hshape]
        rw [htag, ulen_append] at h2
        omega
      exact sourcePositionAt_is_source_position c _ (ulen a) (ulen a + ulen raw) pre rest ch htag h1 hnl hstart hfs hq

-- non-vacuity: a nested pair of pairs
example : ∃ (o1 o2 : Open) (c : Comment), Dyck [.start o1, .start o2, .stop c 2 0, .stop c 3 0]
    [intoBlock o2 c 2, intoBlock o1 c 3] := by
  refine ⟨⟨default, 0, [], default, default⟩, ⟨default, 1, [], default, default⟩, default, ?_⟩
  have h := Dyck.wrap ⟨default, 0, [], default, default⟩ default 3 0
    (Dyck.wrap ⟨default, 1, [], default, default⟩ default 2 0 Dyck.nil)
  simpa using h

/-! ### the depth-first walk of the syntax tree (`CommentsIterator`, model `Bw.TreeWalk`) -/

/-- **the cursor walk yields every node of the tree exactly once, in document order** - whatever the shape of the tree
    (any depth, any number of children): no subtree is skipped, no node is visited twice, and `size t` calls of `next()`
    exhaust the tree (the walk terminates) -/
theorem walk_document_order {α : Type} (t : TreeWalk.Tree α) : TreeWalk.walk t = TreeWalk.preorder t :=
  TreeWalk.walk_eq_preorder t

/-- from any cursor position the loop yields exactly what lies after it in document order -/
theorem walk_resumes_in_document_order {α : Type} (fuel : Nat) (st : List (List (TreeWalk.Tree α)))
    (h : TreeWalk.stackSize st ≤ fuel) : TreeWalk.walkFrom fuel st = TreeWalk.stackOrder st :=
  TreeWalk.walkFrom_eq fuel st h

/-- **the tree the harness ships loses nothing**: pruning a syntax tree to the nodes of interest and their ancestors
    (`TreeWalk.prune`, what `harness/src/ts.rs` does) keeps every node of interest and their order, so the comments the
    walk yields over the shipped tree are those it yields over the full tree -/
theorem walk_pruned_tree {α : Type} (keep : α → Bool) (t t' : TreeWalk.Tree α) (h : TreeWalk.prune keep t = some t') :
    (TreeWalk.walk t').filter keep = (TreeWalk.walk t).filter keep := TreeWalk.walk_pruned keep t t' h

/-- non-vacuity: a comment nested three levels deep after a childless sibling is reached -/
example : TreeWalk.walk (.node "root" [.node "a" [], .node "b" [.node "string" [.node "interp" [.node "comment" []]]], .node "c" []])
    = ["root", "a", "b", "string", "interp", "comment", "c"] := by decide

/-! ### `blockwatch list` (`to_serializable_report`, model `Bw.ListReport`) -/
open Bw.ListReport Bw.Pipe Bw.Diff

def LineSorted : List Entry → Prop
  | [] => True
  | [_] => True
  | a :: b :: rest => a.line ≤ b.line ∧ LineSorted (b :: rest)

theorem lineSorted_tail {a : Entry} {l : List Entry} (h : LineSorted (a :: l)) : LineSorted l := by
  cases l with
  | nil => trivial
  | cons b rest => exact h.2

/-- a stable sort leaves a list alone that is already in order -/
theorem sortByLine_of_sorted (l : List Entry) (h : LineSorted l) : sortByLine l = l := by
  induction l with
  | nil => rfl
  | cons a l ih =>
    simp only [sortByLine, ih (lineSorted_tail h)]
    cases l with
    | nil => rfl
    | cons b rest => simp only [insertByLine, h.1, if_true]

theorem lineSorted_of_blocks (bs : List BlockCtx) (h : Sorted (bs.map (·.block))) :
    LineSorted (bs.map entryOf) := by
  induction bs with
  | nil => trivial
  | cons a bs ih =>
    cases bs with
    | nil => trivial
    | cons b rest =>
      simp only [List.map_cons, Sorted] at h
      refine ⟨?_, ih h.2⟩
      have := h.1
      simp only [entryOf, Pos.lt, Bool.or_eq_true, decide_eq_true_eq, Bool.and_eq_true, beq_iff_eq, not_or, not_and] at this ⊢
      omega

/-- selecting blocks keeps them in order -/
theorem sorted_filterMap (bs : List Block) (f : Block → Option BlockCtx) (hf : ∀ b c, f b = some c → c.block = b)
    (h : Sorted bs) : Sorted ((bs.filterMap f).map (·.block)) := by
  induction bs with
  | nil => trivial
  | cons a bs ih =>
    have iht := ih (sorted_tail h)
    simp only [List.filterMap_cons]
    cases hfa : f a with
    | none => exact iht
    | some c =>
      simp only [List.map_cons, hf a c hfa]
      -- `a` is not after any later block
      have hall : ∀ x ∈ bs, ¬ x.tagStart.lt a.tagStart = true := by
        clear iht ih hfa
        induction bs generalizing a with
        | nil => intro x hx; cases hx
        | cons b rest ihr =>
          intro x hx
          rcases List.mem_cons.1 hx with rfl | hx
          · exact h.1
          · have hb := ihr (a := b) h.2 x hx
            exact Pos.lt_trans_not h.1 hb
      cases hrest : (bs.filterMap f).map (·.block) with
      | nil => trivial
      | cons y ys =>
        rw [hrest] at iht
        refine ⟨?_, iht⟩
        have hy : y ∈ (bs.filterMap f).map (·.block) := by rw [hrest]; exact List.mem_cons_self ..
        obtain ⟨c', hc', rfl⟩ := List.mem_map.1 hy
        obtain ⟨b', hb', hfb⟩ := List.mem_filterMap.1 hc'
        rw [hf b' c' hfb]
        exact hall b' hb'

/-- **`list` prints the selected blocks of a file in source order**: for blocks sorted by the position of their `<`
    (what `parse_blocks_from_comments` returns, `C03.sortBlocks_sorted`) the stable sort by line changes nothing -/
theorem fileReport_source_order (path text : Text) (bs : List Block) (changes : List LC) (all : Bool)
    (h : Sorted bs) :
    fileReport ⟨path, text, selectBlocks bs changes all⟩ = (selectBlocks bs changes all).map entryOf := by
  unfold fileReport
  apply sortByLine_of_sorted
  apply lineSorted_of_blocks
  unfold selectBlocks
  apply sorted_filterMap _ _ _ h
  intro b c hc
  simp only at hc
  split at hc
  · injection hc with hc; rw [← hc]
  · cases hc



/-! ### source order for every grammar (Markdown merges two families) -/

/-- a list is sorted and all its elements are not before `a` -/
theorem sorted_cons_of {a : Block} {l : List Block} (hl : Sorted l) (h : ∀ x ∈ l.head?, ¬ x.tagStart.lt a.tagStart = true) :
    Sorted (a :: l) := by
  cases l with
  | nil => trivial
  | cons b rest => exact ⟨h b (by simp), hl⟩

theorem head_mergeBlocks (n : Nat) (a b : List Block) (x : Block) (hx : x ∈ (mergeBlocks n a b).head?) :
    x ∈ a.head? ∨ x ∈ b.head? := by
  cases n with
  | zero =>
    simp only [mergeBlocks] at hx
    cases a with
    | nil => exact Or.inr (by simpa using hx)
    | cons a0 as => exact Or.inl (by simpa using hx)
  | succ n =>
    cases a with
    | nil => simp only [mergeBlocks] at hx; exact Or.inr hx
    | cons a0 as =>
      cases b with
      | nil => simp only [mergeBlocks] at hx; exact Or.inl hx
      | cons b0 bs =>
        simp only [mergeBlocks] at hx
        split at hx
        · exact Or.inr (by simpa using hx)
        · exact Or.inl (by simpa using hx)

/-- `itertools::merge` of two sorted lists is sorted (given enough fuel: the model passes `|a| + |b| + 1`) -/
theorem mergeBlocks_sorted : ∀ (n : Nat) (a b : List Block), a.length + b.length ≤ n → Sorted a → Sorted b →
    Sorted (mergeBlocks n a b)
  | 0, a, b, hn, ha, hb => by
    have h1 : a = [] := List.length_eq_zero_iff.1 (by omega)
    have h2 : b = [] := List.length_eq_zero_iff.1 (by omega)
    subst h1; subst h2; trivial
  | n + 1, [], b, _, _, hb => by simpa [mergeBlocks] using hb
  | n + 1, a0 :: as, [], _, ha, _ => by simpa [mergeBlocks] using ha
  | n + 1, a0 :: as, b0 :: bs, hn, ha, hb => by
    simp only [mergeBlocks]
    by_cases hlt : b0.tagStart.lt a0.tagStart = true
    · simp only [hlt, if_true]
      have ih := mergeBlocks_sorted n (a0 :: as) bs (by simp only [List.length_cons] at hn ⊢; omega) ha (sorted_tail hb)
      apply sorted_cons_of ih
      intro x hx
      rcases head_mergeBlocks n (a0 :: as) bs x hx with h | h
      · simp only [List.head?_cons, Option.mem_def, Option.some.injEq] at h
        subst h
        exact Pos.lt_asymm hlt
      · cases bs with
        | nil => simp at h
        | cons b1 bs' =>
          simp only [List.head?_cons, Option.mem_def, Option.some.injEq] at h
          subst h
          exact hb.1
    · simp only [hlt, if_false, Bool.false_eq_true]
      have ih := mergeBlocks_sorted n as (b0 :: bs) (by simp only [List.length_cons] at hn ⊢; omega) (sorted_tail ha) hb
      apply sorted_cons_of ih
      intro x hx
      rcases head_mergeBlocks n as (b0 :: bs) x hx with h | h
      · cases as with
        | nil => simp at h
        | cons a1 as' =>
          simp only [List.head?_cons, Option.mem_def, Option.some.injEq] at h
          subst h
          exact ha.1
      · simp only [List.head?_cons, Option.mem_def, Option.some.injEq] at h
        subst h
        exact hlt

/-- **blocks come out of every grammar in source order** (Markdown's two comment families are merged by position) -/
theorem blocksOf_sorted (cfg : Tag.Cfg) (parser : String) (text : Text) (nodes : List Node) (bs : List Block)
    (h : blocksOf cfg parser text nodes = .ok bs) : Sorted bs := by
  have hone : ∀ ns r, (match commentsOf parser text ns with
      | .error e => (Except.error e : Except PErr (List Block))
      | .ok cs => match parseBlocksFromComments cfg cs with
        | .error e => .error (.blocks e)
        | .ok bs => .ok bs) = .ok r → Sorted r := by
    intro ns r hr
    split at hr
    · cases hr
    · rename_i cs _
      split at hr
      · cases hr
      · rename_i bs' hp
        injection hr with hr; subst hr
        unfold parseBlocksFromComments at hp
        cases hpair : pair (events cfg cs) [] [] with
        | error e => rw [hpair] at hp; cases hp
        | ok raw =>
          rw [hpair] at hp
          simp only [Except.map] at hp
          injection hp with hp; subst hp
          exact sortBlocks_sorted raw
  unfold blocksOf at h
  simp only at h
  split at h
  · split at h
    · cases h
    · rename_i md hmd
      split at h
      · cases h
      · rename_i html hhtml
        injection h with h; subst h
        exact mergeBlocks_sorted _ md html (by omega) (hone _ md hmd) (hone _ html hhtml)
  · exact hone nodes bs h

/-- **`list` prints the selected blocks of every parsed file in source order**, whatever the grammar -/
theorem list_source_order (cfg : Tag.Cfg) (extra : List (Text × Text)) (path : Text) (text : Option Text) (nodes : List Node)
    (changes : List LC) (all : Bool) (f : FileCtx) (h : parseFile cfg extra path text nodes changes all = .ok (some f)) :
    fileReport f = f.blocks.map entryOf := by
  unfold parseFile at h
  split at h
  · cases h
  · split at h
    · cases h
    · rename_i t
      split at h
      · cases h
      · rename_i bs hbs
        injection h with h
        injection h with h
        subst h
        exact fileReport_source_order path t bs changes all (blocksOf_sorted cfg _ t nodes bs hbs)

end Bw.Props.C03
