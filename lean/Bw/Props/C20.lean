import Bw.Props.C11
/-! # C20 — same input, same verdict: runs are deterministic and location-independent

Hash-map iteration order of files = an arbitrary permutation of the context; every output is
invariant under it (as a multiset of diagnostics, resp. as an exit status). -/
namespace Bw.Props.C20
open Bw Bw.Pipe Bw.Val

/-- which validators are detected does not depend on the order of files -/
theorem detected_perm (ctx ctx' : List FileCtx) (h : ctx.Perm ctx') (en dis : List String) :
    detected ctx en dis = detected ctx' en dis := by
  unfold detected
  congr 1
  funext v
  exact h.any_eq

theorem hasModified_perm (ctx ctx' : List FileCtx) (h : ctx.Perm ctx') : hasModified ctx = hasModified ctx' := by
  funext target name
  exact h.any_eq

theorem affectsFile_perm (ctx ctx' : List FileCtx) (h : ctx.Perm ctx') (f : FileCtx) :
    affectsFile ctx f = affectsFile ctx' f := by
  unfold affectsFile
  rw [hasModified_perm ctx ctx' h]

/-- every validator's results are the same multiset, whatever the order of files -/
theorem validatorResults_perm (re : Regex) (o : AsyncOracle) (ctx ctx' : List FileCtx) (h : ctx.Perm ctx') (v : String) :
    (validatorResults re o ctx v).Perm (validatorResults re o ctx' v) := by
  unfold validatorResults
  split
  · have : (fun f => (affectsFile ctx f).map (fun r => (f.path, r))) =
        (fun f => (affectsFile ctx' f).map (fun r => (f.path, r))) := by
      funext f; rw [affectsFile_perm ctx ctx' h f]
    rw [this]
    exact (h.map _).flatten
  · exact (h.map _).flatten

theorem runResults_perm (re : Regex) (o : AsyncOracle) (ctx ctx' : List FileCtx) (h : ctx.Perm ctx') (en dis : List String) :
    (runResults re o ctx en dis).Perm (runResults re o ctx' en dis) := by
  unfold runResults
  rw [detected_perm ctx ctx' h]
  generalize detected ctx' en dis = vs
  induction vs with
  | nil => simp
  | cons v vs ih =>
    simp only [List.map_cons, List.flatten_cons]
    exact (validatorResults_perm re o ctx ctx' h v).append ih

theorem resultErrors_perm {rs rs' : List (Text × Except ErrKind (List Diag))} (h : rs.Perm rs') :
    (resultErrors rs).Perm (resultErrors rs') := h.filterMap _

theorem resultDiags_perm {rs rs' : List (Text × Except ErrKind (List Diag))} (h : rs.Perm rs') :
    (resultDiags rs).Perm (resultDiags rs') := (h.map _).flatten

/-- **the exit status does not depend on the order in which files are discovered / hashed** -/
theorem exit_perm (re : Regex) (o : AsyncOracle) (ctx ctx' : List FileCtx) (h : ctx.Perm ctx') (en dis : List String) :
    exitCode (run re o ctx en dis) = exitCode (run re o ctx' en dis) := by
  have hr := runResults_perm re o ctx ctx' h en dis
  have he := resultErrors_perm hr
  have hd := resultDiags_perm hr
  unfold run
  simp only
  have hemp : (resultErrors (runResults re o ctx en dis)).isEmpty = (resultErrors (runResults re o ctx' en dis)).isEmpty := by
    cases h1 : resultErrors (runResults re o ctx en dis) with
    | nil => rw [h1] at he; rw [he.nil_eq]
    | cons x xs =>
      cases h2 : resultErrors (runResults re o ctx' en dis) with
      | nil => rw [h1, h2] at he; exact absurd he.symm.nil_eq (by simp)
      | cons y ys => rfl
  rw [hemp]
  split
  · simp only [exitCode]
    rw [hd.any_eq]
  · rfl

/-- **the set of diagnostics does not depend on it either** (equal as multisets) -/
theorem diags_perm (re : Regex) (o : AsyncOracle) (ctx ctx' : List FileCtx) (h : ctx.Perm ctx') (en dis : List String)
    (ds : List (Text × Diag)) (hok : run re o ctx en dis = .ok ds) :
    ∃ ds', run re o ctx' en dis = .ok ds' ∧ ds.Perm ds' := by
  have hr := runResults_perm re o ctx ctx' h en dis
  have he := resultErrors_perm hr
  unfold run at hok ⊢
  simp only at hok ⊢
  split at hok
  · rename_i hemp
    injection hok with hok
    subst hok
    rw [List.isEmpty_iff] at hemp
    rw [hemp] at he
    rw [← he.nil_eq]
    exact ⟨_, by simp, resultDiags_perm hr⟩
  · cases hok

/-- which error class may surface does not depend on it: an error for one order is an error for every order -/
theorem err_perm (re : Regex) (o : AsyncOracle) (ctx ctx' : List FileCtx) (h : ctx.Perm ctx') (en dis : List String) :
    (∃ ks, run re o ctx en dis = .err ks) ↔ (∃ ks, run re o ctx' en dis = .err ks) := by
  rw [C11.run_err_iff, C11.run_err_iff]
  have hr := runResults_perm re o ctx ctx' h en dis
  constructor
  · rintro ⟨r, hm, e⟩; exact ⟨r, hr.mem_iff.1 hm, e⟩
  · rintro ⟨r, hm, e⟩; exact ⟨r, hr.mem_iff.2 hm, e⟩

/-- the order of blocks inside a file does not matter either (same argument, one level down) -/
theorem blocks_perm_any (bs bs' : List BlockCtx) (h : bs.Perm bs') (v : String) :
    bs.any (needs v) = bs'.any (needs v) := h.any_eq

end Bw.Props.C20
