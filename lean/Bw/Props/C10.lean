import Bw.Pipeline
import Bw.Lemmas.Text
/-! # C10 — every diagnostic points at the text it is about

Model-level statements about the reported ranges; the byte-exact "cut the range out of the file"
check is evaluated on the implementation's output for every generated case by the harness oracle. -/
namespace Bw.Props.C10
open Bw Bw.Blocks Bw.Val

/-- key diagnostics (sort / unique / pattern) sit on the key's own line: content start line + index,
    and on later lines the columns are the key's in-line byte range -/
theorem key_range_later_line (code : String) (b : Block) (k : Key) (sev : Nat) (data) (h : k.idx ≠ 0) :
    let d := keyDiag code b k sev data
    d.sLine = b.cPosStart.line + k.idx ∧ d.eLine = d.sLine ∧ d.sCol = k.cs ∧ d.eCol = k.ce := by
  simp [keyDiag, h]

/-- on the first content line (the rest of the line on which the start comment ends) the columns
    are shifted by the content's start column -/
theorem key_range_first_line (code : String) (b : Block) (k : Key) (sev : Nat) (data) (h : k.idx = 0) :
    let d := keyDiag code b k sev data
    d.sLine = b.cPosStart.line ∧ d.eLine = d.sLine ∧
    d.sCol = k.cs + (b.cPosStart.col - 1) ∧ d.eCol = k.ce + (b.cPosStart.col - 1) := by
  simp [keyDiag, h]

/-- the in-line range of a trimmed key: starts after the leading blanks, spans the key's bytes -/
theorem trimmed_key_range (re : Regex) (l : Text) (k : Text) (s e : Nat) (h : keyOf re none l = some (k, s, e)) :
    k = trim l ∧ s = leadBytes l + 1 ∧ e + 1 = s + ulen k ∧ k ≠ [] := by
  simp only [keyOf] at h
  by_cases he : (trim l).isEmpty = true
  · simp [he] at h
  · simp only [he, if_false, Bool.false_eq_true, Option.some.injEq, Prod.mk.injEq] at h
    obtain ⟨rfl, rfl, rfl⟩ := h
    have hne : trim l ≠ [] := by intro h0; rw [h0] at he; simp at he
    have hpos : 0 < ulen (trim l) := by
      cases ht : trim l with
      | nil => exact absurd ht hne
      | cons c cs =>
        have := Char.utf8Size_pos c
        simp [ulen]; omega
    exact ⟨rfl, rfl, by omega, hne⟩

/-- **the reported in-line byte range, cut out of the content line, is exactly the key** (trimmed keys of
    keep-sorted, keep-unique and line-pattern): bytes `cs-1 .. ce` (1-based, inclusive) of the line -/
theorem trimmed_key_cut (re : Regex) (l k : Text) (s e : Nat) (h : keyOf re none l = some (k, s, e)) :
    sliceBytes (s - 1) e l = k := by
  obtain ⟨hk, hs, he, _⟩ := trimmed_key_range re l k s e h
  subst hk; subst hs
  have : e = leadBytes l + ulen (trim l) := by omega
  rw [this]
  exact slice_trim l

/-- the same for the key of `line-pattern`'s first failing line -/
theorem line_pattern_key_cut (re : Regex) (pat : Text) (ls : List (Nat × Text)) (k : Key) (l : Text)
    (hk : k.key = trim l) (hs : k.cs = leadBytes l + 1) (he : k.ce = k.cs + ulen (trim l) - 1) (hne : trim l ≠ []) :
    sliceBytes (k.cs - 1) k.ce l = k.key := by
  have hpos : 0 < ulen (trim l) := by
    cases ht : trim l with
    | nil => exact absurd ht hne
    | cons c cs => have := Char.utf8Size_pos c; simp [ulen]; omega
  rw [hk, hs]
  have : k.ce = leadBytes l + ulen (trim l) := by omega
  rw [this]
  exact slice_trim l

/-- a regex key's range is the match's byte range (1-based, inclusive) -/
theorem regex_key_range (re : Regex) (p l : Text) (lm : LineMatch) (h : re.captures p l = some lm) :
    keyOf re (some p) l = some (sliceBytes (lm.value.getD lm.whole).1 (lm.value.getD lm.whole).2 l,
      (lm.value.getD lm.whole).1 + 1, (lm.value.getD lm.whole).2) := by
  simp [keyOf, h]

/-- drift, line-count, Lua and AI diagnostics span exactly the start tag's recorded range -/
theorem tag_range (code : String) (b : Block) (sev : Nat) (data) :
    let d := tagDiag code b sev data
    (d.sLine, d.sCol) = (b.tagStart.line, b.tagStart.col) ∧ (d.eLine, d.eCol) = (b.tagEnd.line, b.tagEnd.col) := by
  simp [tagDiag]

/-- the start tag's recorded range comes from the tag's byte offsets in its comment:
    first byte (`<`) and last byte (`>`, at `e - 1`) -/
theorem tag_positions (cfg : Tag.Cfg) (idx : Nat) (c : Comment) (s e : Nat) (attrs)
    (h : Tag.Tag.start s e attrs ∈ Tag.scanAll cfg c.text) :
    Ev.start ⟨c, idx, attrs, sourcePositionAt s c, sourcePositionAt (e - 1) c⟩ ∈ eventsOf cfg idx c := by
  unfold eventsOf
  exact List.mem_map.2 ⟨_, h, rfl⟩

/-- a position on the comment's first line is the comment's start column plus the byte offset -/
theorem position_first_line (p : Nat) (c : Comment) (h : (lines (takeBytes (p + 1) c.text)).length = 1) :
    sourcePositionAt p c = ⟨c.posStart.line, c.posStart.col + p⟩ := by
  simp [sourcePositionAt, h]

end Bw.Props.C10
