import Bw.Props.C01
/-! # C15 — only files in scope are examined: globs, --ignore and diff paths -/
namespace Bw.Props.C15
open Bw Bw.Pipe Bw.Diff Bw.Val

/-- **scope = (walk ∩ allow ∖ ignore) ∪ (diff ∖ ignore)** -/
theorem scope_eq (w : World) (changes : List (Text × List LC)) (scan : Bool) (p : Text) :
    p ∈ (scope w changes scan).map (·.1) ↔
      p ∈ walkedFiles w scan ∨
      (p ∈ changes.map (·.1) ∧ w.ignore p = false ∧ (walkedFiles w scan).any (pathEq p) = false) := by
  simp only [scope, List.map_append, List.map_map, List.mem_append, List.mem_map]
  constructor
  · rintro (⟨q, hq, rfl⟩ | ⟨c, hc, rfl⟩)
    · exact Or.inl hq
    · have h1 := (List.mem_filter.1 hc).1
      have h2 := (List.mem_filter.1 hc).2
      simp only [Bool.and_eq_true, Bool.not_eq_true'] at h2
      exact Or.inr ⟨⟨c, h1, rfl⟩, h2.2, h2.1⟩
  · rintro (h | ⟨⟨c, hc, rfl⟩, hi, hn⟩)
    · exact Or.inl ⟨p, h, rfl⟩
    · refine Or.inr ⟨c, List.mem_filter.2 ⟨hc, ?_⟩, rfl⟩
      simp [hi, hn]

/-- walked files: exactly the walked paths matching a positional glob and no `--ignore` glob -/
theorem walked_def (w : World) (p : Text) :
    p ∈ walkedFiles w true ↔ p ∈ w.walk ∧ w.allow p = true ∧ w.ignore p = false := by
  simp [walkedFiles, List.mem_filter]

/-- without positional globs (and not interactive) nothing is walked -/
theorem no_scan_no_walk (w : World) : walkedFiles w false = [] := rfl

/-- `--ignore` wins over both: an ignored path is never examined -/
theorem ignore_wins (w : World) (changes : List (Text × List LC)) (scan : Bool) (p : Text) (h : w.ignore p = true) :
    p ∉ (scope w changes scan).map (·.1) := by
  rw [scope_eq]
  rintro (hw | ⟨_, hi, _⟩)
  · cases scan with
    | false => simp [walkedFiles] at hw
    | true => have := (walked_def w p).1 hw; rw [h] at this; cases this.2.2
  · rw [h] at hi; cases hi

/-- walked files are examined unfiltered (`All`), the diff's remaining files `ModifiedOnly` -/
theorem filters (w : World) (changes : List (Text × List LC)) (scan : Bool) (x : Text × List LC × Bool)
    (h : x ∈ scope w changes scan) :
    (x.2.2 = true ∧ x.1 ∈ walkedFiles w scan) ∨ (x.2.2 = false ∧ (x.1, x.2.1) ∈ restChanges w changes scan) := by
  simp only [scope, List.mem_append, List.mem_map] at h
  rcases h with ⟨q, hq, rfl⟩ | ⟨c, hc, rfl⟩
  · exact Or.inl ⟨rfl, hq⟩
  · exact Or.inr ⟨rfl, hc⟩

/-- files outside the scope contribute nothing: every result of `parse_blocks` belongs to a scope path -/
theorem outside_contributes_nothing (cfg : Tag.Cfg) (extra) (w : World) (changes) (scan : Bool)
    (r : Text × Except PErr (Option FileCtx)) (h : r ∈ parseBlocks cfg extra w changes scan) :
    r.1 ∈ (scope w changes scan).map (·.1) := by
  simp only [parseBlocks, List.mem_map] at h ⊢
  obtain ⟨x, hx, rfl⟩ := h
  exact ⟨x, hx, rfl⟩

/-- a file without a grammar is skipped silently whatever it contains, and is not even read -/
theorem no_grammar_skipped (cfg : Tag.Cfg) (extra) (path : Text) (text nodes changes all)
    (h : Lookup.lookup extra path = none) : parseFile cfg extra path text nodes changes all = .ok none := by
  simp [parseFile, h]

/-- diff paths: exactly one leading `b/` is removed (directories named `b` survive) -/
theorem strip_b_once (p : Text) : normaliseTarget ("b/".toList ++ p) = p := C01.strip_b_once p

/-- repository root = the nearest ancestor (starting with the current directory) that has `.git` / `.hg` -/
def repoRoot (hasMarker : Text → Bool) (ancestors : List Text) : Option Text := ancestors.find? hasMarker

theorem root_nearest (hasMarker : Text → Bool) (pre post : List Text) (r : Text)
    (hr : hasMarker r = true) (hpre : ∀ a ∈ pre, hasMarker a = false) :
    repoRoot hasMarker (pre ++ r :: post) = some r := by
  induction pre with
  | nil => simp [repoRoot, hr]
  | cons a as ih =>
    have ha := hpre a (by simp)
    simp only [repoRoot, List.cons_append, List.find?_cons, ha] at ih ⊢
    exact ih (fun x hx => hpre x (by simp [hx]))

theorem no_root_errs (hasMarker : Text → Bool) (ancestors : List Text) (h : ∀ a ∈ ancestors, hasMarker a = false) :
    repoRoot hasMarker ancestors = none := by
  simp only [repoRoot, List.find?_eq_none]
  intro a ha
  simp [h a ha]

end Bw.Props.C15
