import Bw.Props.C01
import Bw.Lemmas.Glob
/-! # C15 — only files in scope are examined: globs, --ignore and diff paths -/
namespace Bw.Props.C15
open Bw Bw.Pipe Bw.Diff Bw.Val

/-- **scope = (walk ∩ allow ∖ ignore) ∪ (diff ∖ ignore)** -/
theorem scope_eq (w : World) (changes : List (Text × List LC)) (scan : Bool) (p : Text) :
    p ∈ (scope w changes scan).map (·.1) ↔
      p ∈ walkedFiles w scan ∨
      (p ∈ changes.map (·.1) ∧ w.ignore p = false ∧ (walkedFiles w scan).any (pathEq p) = false) := by
  simp only [scope, List.map_append, List.map_map, List.mem_append, List.mem_map]
  constructor
  · rintro (⟨q, hq, rfl⟩ | ⟨c, hc, rfl⟩)
    · exact Or.inl hq
    · have h1 := (List.mem_filter.1 hc).1
      have h2 := (List.mem_filter.1 hc).2
      simp only [Bool.and_eq_true, Bool.not_eq_true'] at h2
      exact Or.inr ⟨⟨c, h1, rfl⟩, h2.2, h2.1⟩
  · rintro (h | ⟨⟨c, hc, rfl⟩, hi, hn⟩)
    · exact Or.inl ⟨p, h, rfl⟩
    · refine Or.inr ⟨c, List.mem_filter.2 ⟨hc, ?_⟩, rfl⟩
      simp [hi, hn]

/-- walked files: exactly the walked paths matching a positional glob and no `--ignore` glob -/
theorem walked_def (w : World) (p : Text) :
    p ∈ walkedFiles w true ↔ p ∈ w.walk ∧ w.allow p = true ∧ w.ignore p = false := by
  simp [walkedFiles, List.mem_filter]

/-- without positional globs (and not interactive) nothing is walked -/
theorem no_scan_no_walk (w : World) : walkedFiles w false = [] := rfl

/-- `--ignore` wins over both: an ignored path is never examined -/
theorem ignore_wins (w : World) (changes : List (Text × List LC)) (scan : Bool) (p : Text) (h : w.ignore p = true) :
    p ∉ (scope w changes scan).map (·.1) := by
  rw [scope_eq]
  rintro (hw | ⟨_, hi, _⟩)
  · cases scan with
    | false => simp [walkedFiles] at hw
    | true => have := (walked_def w p).1 hw; rw [h] at this; cases this.2.2
  · rw [h] at hi; cases hi

/-- walked files are examined unfiltered (`All`), the diff's remaining files `ModifiedOnly` -/
theorem filters (w : World) (changes : List (Text × List LC)) (scan : Bool) (x : Text × List LC × Bool)
    (h : x ∈ scope w changes scan) :
    (x.2.2 = true ∧ x.1 ∈ walkedFiles w scan) ∨ (x.2.2 = false ∧ (x.1, x.2.1) ∈ restChanges w changes scan) := by
  simp only [scope, List.mem_append, List.mem_map] at h
  rcases h with ⟨q, hq, rfl⟩ | ⟨c, hc, rfl⟩
  · exact Or.inl ⟨rfl, hq⟩
  · exact Or.inr ⟨rfl, hc⟩

/-- files outside the scope contribute nothing: every result of `parse_blocks` belongs to a scope path -/
theorem outside_contributes_nothing (cfg : Tag.Cfg) (extra) (w : World) (changes) (scan : Bool)
    (r : Text × Except PErr (Option FileCtx)) (h : r ∈ parseBlocks cfg extra w changes scan) :
    r.1 ∈ (scope w changes scan).map (·.1) := by
  simp only [parseBlocks, List.mem_map] at h ⊢
  obtain ⟨x, hx, rfl⟩ := h
  exact ⟨x, hx, rfl⟩

/-- a file without a grammar is skipped silently whatever it contains, and is not even read -/
theorem no_grammar_skipped (cfg : Tag.Cfg) (extra) (path : Text) (text nodes changes all)
    (h : Lookup.lookup extra path = none) : parseFile cfg extra path text nodes changes all = .ok none := by
  simp [parseFile, h]

/-- diff paths: exactly one leading `b/` is removed (directories named `b` survive) -/
theorem strip_b_once (p : Text) : normaliseTarget ("b/".toList ++ p) = p := C01.strip_b_once p

/-- repository root = the nearest ancestor (starting with the current directory) that has `.git` / `.hg` -/
def repoRoot (hasMarker : Text → Bool) (ancestors : List Text) : Option Text := ancestors.find? hasMarker

theorem root_nearest (hasMarker : Text → Bool) (pre post : List Text) (r : Text)
    (hr : hasMarker r = true) (hpre : ∀ a ∈ pre, hasMarker a = false) :
    repoRoot hasMarker (pre ++ r :: post) = some r := by
  induction pre with
  | nil => simp [repoRoot, hr]
  | cons a as ih =>
    have ha := hpre a (by simp)
    simp only [repoRoot, List.cons_append, List.find?_cons, ha] at ih ⊢
    exact ih (fun x hx => hpre x (by simp [hx]))

theorem no_root_errs (hasMarker : Text → Bool) (ancestors : List Text) (h : ∀ a ∈ ancestors, hasMarker a = false) :
    repoRoot hasMarker ancestors = none := by
  simp only [repoRoot, List.find?_eq_none]
  intro a ha
  simp [h a ha]

/-! ### each file once -/

theorem pathEq_symm (a b : Text) : pathEq a b = pathEq b a := by
  unfold pathEq
  by_cases h : pathComponents a = pathComponents b
  · simp [h]
  · have : ¬ pathComponents b = pathComponents a := fun h' => h h'.symm
    simp [h, this]

theorem pathEq_trans (a b c : Text) (h1 : pathEq a b = true) (h2 : pathEq b c = true) : pathEq a c = true := by
  unfold pathEq at *
  simp only [decide_eq_true_eq] at *
  rw [h1, h2]

/-- **no file is examined twice**: if the walk yields each file once and the diff's files are distinct (both up to path
    equality), the scope lists each file once -/
theorem scope_each_file_once (w : World) (changes : List (Text × List LC)) (scan : Bool)
    (hw : w.walk.Pairwise (fun a b => pathEq a b = false))
    (hc : changes.Pairwise (fun a b => pathEq a.1 b.1 = false)) :
    (scope w changes scan).Pairwise (fun a b => pathEq a.1 b.1 = false) := by
  unfold scope
  rw [List.pairwise_append]
  refine ⟨?_, ?_, ?_⟩
  · rw [List.pairwise_map]
    have : (walkedFiles w scan).Sublist w.walk := by
      unfold walkedFiles; split
      · exact List.filter_sublist
      · exact List.nil_sublist _
    exact hw.sublist this
  · rw [List.pairwise_map]
    have : (restChanges w changes scan).Sublist changes := by
      unfold restChanges; exact List.filter_sublist
    exact hc.sublist this
  · intro a ha b hb
    obtain ⟨p, hp, rfl⟩ := List.mem_map.1 ha
    obtain ⟨c, hc', rfl⟩ := List.mem_map.1 hb
    have h2 := (List.mem_filter.1 hc').2
    simp only [Bool.and_eq_true, Bool.not_eq_true', List.any_eq_false] at h2
    have := h2.1 p hp
    rw [pathEq_symm]
    simpa using this

/-- `HashMap::insert` keeps the keys distinct (up to path equality) -/
theorem insertFile_distinct (acc : List (Text × List LC)) (p : Text) (v : List LC)
    (h : acc.Pairwise (fun a b => pathEq a.1 b.1 = false)) :
    (insertFile acc p v).Pairwise (fun a b => pathEq a.1 b.1 = false) := by
  unfold insertFile
  split
  · -- the key exists: values change, keys do not
    have hk : (acc.map (fun e => if pathEq e.1 p = true then (e.1, v) else e)).map (·.1) = acc.map (·.1) := by
      rw [List.map_map]; apply List.map_congr_left; intro e _; simp only [Function.comp]; split <;> rfl
    have h' : (acc.map (·.1)).Pairwise (fun a b => pathEq a b = false) := by rw [List.pairwise_map]; exact h
    rw [← hk, List.pairwise_map] at h'
    exact h'
  · rename_i hn
    rw [List.pairwise_append]
    refine ⟨h, by simp, ?_⟩
    intro a ha b hb
    simp at hb; subst hb
    have := hn
    simp only [Bool.not_eq_true, List.any_eq_false] at this
    simpa using this a ha

/-- the files of a diff are keyed distinctly: a path named twice (even spelled differently, `x` / `x///`) is one entry -/
theorem diff_files_distinct (diff : Text → Text → List (Nat × Nat)) (input : Text) (cs : List (Text × List LC))
    (h : lineChangesFromDiff diff input = .ok cs) : cs.Pairwise (fun a b => pathEq a.1 b.1 = false) := by
  unfold lineChangesFromDiff at h
  split at h
  · cases h
  · rename_i files _
    injection h with h
    subst h
    have : ∀ (fs : List Unidiff.File) (acc : List (Text × List LC)), acc.Pairwise (fun a b => pathEq a.1 b.1 = false) →
        (fs.foldl (fun acc f => if f.isRemoved then acc else insertFile acc (normaliseTarget f.target) (lineChanges diff f)) acc).Pairwise
          (fun a b => pathEq a.1 b.1 = false) := by
      intro fs
      induction fs with
      | nil => intro acc h; exact h
      | cons f fs ih =>
        intro acc h
        simp only [List.foldl_cons]
        split
        · exact ih acc h
        · exact ih _ (insertFile_distinct acc _ _ h)
    exact this files [] List.Pairwise.nil

/-- … so a run examines every file of the diff and of the walk exactly once -/
theorem diff_scope_each_file_once (w : World) (diff : Text → Text → List (Nat × Nat)) (input : Text) (cs : List (Text × List LC))
    (scan : Bool) (h : lineChangesFromDiff diff input = .ok cs) (hw : w.walk.Pairwise (fun a b => pathEq a b = false)) :
    (scope w cs scan).Pairwise (fun a b => pathEq a.1 b.1 = false) :=
  scope_each_file_once w cs scan hw (diff_files_distinct diff input cs h)

/-! ### the documented glob forms (globset semantics, default options) -/
open Bw.Glob

/-- `**` (the default in terminal mode) allows every path -/
theorem glob_all (p : Text) : globMatch "**".toList p = some true := by
  have hp : parse "**".toList = some [.recPrefix] := by decide
  unfold globMatch; rw [hp]; simp [matchGlobToks]

/-- a path with EVERY character escaped by a backslash is a glob that matches that path only, whatever characters the path
    holds (`app/[slug]/x*.py`): an escape never changes meaning, it only removes one -/
theorem glob_escaped_exact (g p : Text) :
    globMatch (escapeAll g) p = some true ↔ encode p = encode g := by
  have hp : parse (escapeAll g) = some (lits g) := by
    have := parseAux_escaped g [] none []
    simp only [List.append_nil] at this
    unfold parse; rw [this]; simp [parseAux]
  simp only [globMatch, hp, Option.map_some, Option.some.injEq, matchGlobToks, lit_ne, if_false]
  have := matchToks_lits (encode g) [] (encode p)
  simp only [List.append_nil, matchToks_nil] at this
  unfold lits; rw [this]
  constructor
  · rintro ⟨q, h1, rfl⟩; simpa using h1
  · intro h; exact ⟨[], by simpa using h, rfl⟩

/-- an exact path (no wildcard) matches that path only -/
theorem glob_exact (g : Text) (hg : ∀ c ∈ g, plain c = true) (p : Text) :
    globMatch g p = some true ↔ encode p = encode g := by
  have hp : parse g = some (lits g) := by
    have := parseAux_plain g hg [] none []
    simp only [List.append_nil] at this
    unfold parse; rw [this]; simp [parseAux]
  simp only [globMatch, hp, Option.map_some, Option.some.injEq, matchGlobToks, lit_ne, if_false]
  have := matchToks_lits (encode g) [] (encode p)
  simp only [List.append_nil, matchToks_nil] at this
  unfold lits; rw [this]
  constructor
  · rintro ⟨q, h1, rfl⟩; simpa using h1
  · intro h; exact ⟨[], by simpa using h, rfl⟩

/-- `*.ext` matches exactly the paths that end in `.ext`, in any directory -/
theorem glob_ext (ext : Text) (he : ∀ c ∈ ext, plain c = true) (p : Text) :
    globMatch ('*' :: '.' :: ext) p = some true ↔ encode ('.' :: ext) <:+ encode p := by
  have hdot : plain '.' = true := by decide
  have hp : parse ('*' :: '.' :: ext) = some (.star :: lits ('.' :: ext)) := by
    unfold parse
    have h1 : parseAux [] none ('*' :: '.' :: ext) = parseAux [.star] (some '*') ('.' :: ext) := by
      rw [parseAux]
      all_goals (intros; simp_all)
    have h2 := parseAux_plain ('.' :: ext) (by intro c hc; rcases List.mem_cons.1 hc with rfl | hc; exact hdot; exact he c hc)
      [.star] (some '*') []
    simp only [List.append_nil] at h2
    rw [h1, h2]; simp [parseAux]
  have hne : (Tok.star :: lits ('.' :: ext)) ≠ [.recPrefix] := by simp
  simp only [globMatch, hp, Option.map_some, Option.some.injEq, matchGlobToks, hne, if_false, matchToks, anySuffix_iff]
  have hm : ∀ b, matchToks (lits ('.' :: ext)) b = true ↔ b = encode ('.' :: ext) := by
    intro b
    have := matchToks_lits (encode ('.' :: ext)) [] b
    simp only [List.append_nil, matchToks_nil] at this
    unfold lits; rw [this]
    constructor
    · rintro ⟨q, h1, rfl⟩; simpa using h1
    · intro h; exact ⟨[], by simpa using h, rfl⟩
  constructor
  · rintro ⟨a, b, hab, hb⟩
    exact ⟨a, by rw [hab, (hm b).1 hb]⟩
  · rintro ⟨a, ha⟩
    exact ⟨a, _, ha.symm, (hm _).2 rfl⟩

/-- `dir/**` matches exactly the paths under `dir/` (at any depth) -/
theorem glob_dir_rec (dir : Text) (hd : ∀ c ∈ dir, plain c = true) (p : Text) :
    globMatch (dir ++ "/**".toList) p = some true ↔ encode (dir ++ ['/']) <+: encode p := by
  have hsl : plain '/' = true := by decide
  have hp : parse (dir ++ "/**".toList) = some (lits dir ++ [.recSuffix]) := by
    unfold parse
    have e : dir ++ "/**".toList = (dir ++ ['/']) ++ ['*', '*'] := by simp
    have h2 := parseAux_plain (dir ++ ['/']) (by
      intro c hc; rcases List.mem_append.1 hc with hc | hc
      · exact hd c hc
      · simp at hc; subst hc; exact hsl) [] none ['*', '*']
    rw [e, h2, lastOr_snoc, lits_append]
    have hl : lits ['/'] = [.lit slash] := by simp [lits, encode, enc_slash]
    rw [hl]
    simp [parseAux, collapse]
  have hne : lits dir ++ [Tok.recSuffix] ≠ [.recPrefix] := by
    intro h
    have : Tok.recSuffix ∈ [Tok.recPrefix] := by rw [← h]; simp
    simp at this
  simp only [globMatch, hp, Option.map_some, Option.some.injEq, matchGlobToks, hne, if_false]
  unfold lits
  rw [matchToks_lits, encode_append]
  have hs : encode ['/'] = [slash] := by simp [encode, enc_slash]
  rw [hs]
  constructor
  · rintro ⟨q, hq, hm⟩
    cases q with
    | nil => simp [matchToks] at hm
    | cons d ps =>
      simp only [matchToks, Bool.and_eq_true, beq_iff_eq] at hm
      refine ⟨ps, ?_⟩
      rw [hq, hm.1]; simp
  · rintro ⟨t, ht⟩
    refine ⟨slash :: t, by rw [← ht]; simp, ?_⟩
    simp only [matchToks, beq_self_eq_true, Bool.true_and, anySuffix_iff]
    exact ⟨t, [], by simp, rfl⟩

/-- `**/name` matches `name` at the root and in every directory -/
theorem glob_name_anywhere (name : Text) (hn : ∀ c ∈ name, plain c = true) (hne : name ≠ []) (p : Text) :
    globMatch ("**/".toList ++ name) p = some true ↔ encode p = encode name ∨ encode ('/' :: name) <:+ encode p := by
  have hp : parse ("**/".toList ++ name) = some (.recPrefix :: lits name) := by
    unfold parse
    have h1 : parseAux [] none ("**/".toList ++ name) = parseAux [.recPrefix] (some '/') name := by
      show parseAux [] none ('*' :: '*' :: '/' :: name) = _
      rw [parseAux]; simp
    have h2 := parseAux_plain name hn [.recPrefix] (some '/') []
    simp only [List.append_nil] at h2
    rw [h1, h2]; simp [parseAux]
  have hl : lits name ≠ [] := by
    cases name with
    | nil => exact absurd rfl hne
    | cons c cs =>
      intro h
      have h' := congrArg List.length h
      simp [lits, encode, String.length_utf8EncodeChar] at h'
      have := Char.utf8Size_pos c
      omega
  have hne' : (Tok.recPrefix :: lits name) ≠ [.recPrefix] := by simpa using hl
  have hm : ∀ b, matchToks (lits name) b = true ↔ b = encode name := by
    intro b
    have := matchToks_lits (encode name) [] b
    simp only [List.append_nil, matchToks_nil] at this
    unfold lits; rw [this]
    constructor
    · rintro ⟨q, h1, rfl⟩; simpa using h1
    · intro h; exact ⟨[], by simpa using h, rfl⟩
  simp only [globMatch, hp, Option.map_some, Option.some.injEq, matchGlobToks, hne', if_false, matchToks,
    Bool.or_eq_true, afterSlash_iff, hm]
  have hs : encode ('/' :: name) = slash :: encode name := by simp [encode, enc_slash]
  rw [hs]
  constructor
  · rintro (h | ⟨a, b, hab, rfl⟩)
    · exact Or.inl h
    · exact Or.inr ⟨a, hab.symm⟩
  · rintro (h | ⟨a, ha⟩)
    · exact Or.inl h
    · exact Or.inr ⟨a, _, ha.symm, rfl⟩

/-- the world the command line denotes: `allow` / `ignore` are the glob sets' verdicts -/
def globWorld (walk : List Text) (globs ignores : List Text) (read : Text → Option Text) (nodes : Text → List Node) : World :=
  { walk := walk, allow := fun p => anyMatch globs p == some true, ignore := fun p => anyMatch ignores p == some true,
    read := read, nodes := nodes }

theorem anyMatch_cons_true (g : Text) (gs : List Text) (p : Text) (h : globMatch g p = some true)
    (hr : (anyMatch gs p).isSome = true) : anyMatch (g :: gs) p = some true := by
  cases hq : anyMatch gs p with
  | none => rw [hq] at hr; cases hr
  | some b => simp [anyMatch, h] at hq ⊢; simp [hq]

/-- interactive default (`**` alone, no `--ignore`): every walked file is examined -/
theorem terminal_default_examines_all (walk : List Text) (read) (nodes) :
    walkedFiles (globWorld walk ["**".toList] [] read nodes) true = walk := by
  simp only [walkedFiles, globWorld, if_true]
  apply List.filter_eq_self.2
  intro p _
  have h1 : anyMatch ["**".toList] p = some true :=
    anyMatch_cons_true _ [] p (glob_all p) rfl
  have h2 : anyMatch [] p = some false := rfl
  rw [h1, h2]; rfl

/-- non-vacuity / spot checks of the parser on the other documented shapes -/
example : parse "src/*.rs".toList = some [.lit 115, .lit 114, .lit 99, .lit 47, .star, .lit 46, .lit 114, .lit 115] := by decide
example : parse "**/*.rs".toList = some [.recPrefix, .star, .lit 46, .lit 114, .lit 115] := by decide
example : parse "a/**/b".toList = some [.lit 97, .recZeroOrMore, .lit 98] := by decide
example : globMatch "b/**".toList "b/b/x.py".toList = some true := by decide
example : globMatch "b/**".toList "a/b/x.py".toList = some false := by decide
example : globMatch "*.py".toList "src/deep/x.py".toList = some true := by decide

end Bw.Props.C15
