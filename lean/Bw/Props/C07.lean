import Bw.Validators
/-! # C07 — keep-unique reports a block iff two keys coincide -/
namespace Bw.Props.C07
open Bw Bw.Val

/-- no violation iff the keys (together with those already seen) are pairwise distinct -/
theorem firstDup_none_iff (seen : List Text) (ks : List Key) :
    firstDup seen ks = none ↔ (∀ k ∈ ks, k.key ∉ seen) ∧ (ks.map (·.key)).Nodup := by
  induction ks generalizing seen with
  | nil => simp [firstDup]
  | cons k rest ih =>
    simp only [firstDup]
    by_cases h : seen.contains k.key = true
    · simp only [h, if_true]
      constructor
      · intro h'; cases h'
      · rintro ⟨h1, _⟩
        exact absurd (List.contains_iff_mem.1 h) (h1 k (by simp))
    · simp only [h, if_false, Bool.false_eq_true]
      rw [ih]
      have hk : k.key ∉ seen := fun hm => h (List.contains_iff_mem.2 hm)
      simp only [List.mem_cons, List.map_cons, List.nodup_cons, List.mem_map]
      constructor
      · rintro ⟨h1, h2⟩
        refine ⟨?_, ?_, h2⟩
        · intro x hx
          rcases hx with rfl | hx
          · exact hk
          · exact fun hm => h1 x hx (Or.inr hm)
        · rintro ⟨x, hx, hxe⟩
          exact h1 x hx (Or.inl hxe)
      · rintro ⟨h1, h2, h3⟩
        refine ⟨?_, h3⟩
        intro x hx hm
        rcases hm with hm | hm
        · exact h2 ⟨x, hx, hm⟩
        · exact h1 x (Or.inr hx) hm

/-- verdict ⇔ ∃ i < j with equal keys -/
theorem ku_iff (ks : List Key) : firstDup [] ks = none ↔ (ks.map (·.key)).Nodup := by
  rw [firstDup_none_iff]; simp

/-- the reported key is the first one whose key has already occurred -/
theorem firstDup_some_iff (seen : List Text) (ks : List Key) (k : Key) :
    firstDup seen ks = some k ↔
      ∃ pre post, ks = pre ++ k :: post ∧ firstDup seen pre = none ∧
        (k.key ∈ seen ∨ k.key ∈ pre.map (·.key)) := by
  induction ks generalizing seen with
  | nil => simp [firstDup]
  | cons a rest ih =>
    simp only [firstDup]
    by_cases h : seen.contains a.key = true
    · simp only [h, if_true]
      constructor
      · intro h'
        injection h' with h'
        subst h'
        exact ⟨[], rest, rfl, by simp [firstDup], Or.inl (List.contains_iff_mem.1 h)⟩
      · rintro ⟨pre, post, hs, hn, _⟩
        cases pre with
        | nil => simp at hs; rw [hs.1]
        | cons x pre =>
          simp at hs
          obtain ⟨rfl, _⟩ := hs
          have hm : a.key ∈ seen := List.contains_iff_mem.1 h
          simp [firstDup, hm] at hn
    · simp only [h, if_false, Bool.false_eq_true]
      rw [ih]
      constructor
      · rintro ⟨pre, post, hs, hn, hm⟩
        have hnm : a.key ∉ seen := fun hm => h (List.contains_iff_mem.2 hm)
        refine ⟨a :: pre, post, by simp [hs], by simp [firstDup, hnm, hn], ?_⟩
        rcases hm with hm | hm
        · rcases List.mem_cons.1 hm with hm | hm
          · exact Or.inr (by simp [hm])
          · exact Or.inl hm
        · exact Or.inr (by simp [hm])
      · rintro ⟨pre, post, hs, hn, hm⟩
        cases pre with
        | nil =>
          simp at hs
          obtain ⟨rfl, rfl⟩ := hs
          rcases hm with hm | hm
          · exact absurd (List.contains_iff_mem.2 hm) h
          · simp at hm
        | cons x pre =>
          simp at hs
          obtain ⟨rfl, hs⟩ := hs
          simp only [firstDup, h, if_false, Bool.false_eq_true] at hn
          refine ⟨pre, post, hs, hn, ?_⟩
          rcases hm with hm | hm
          · exact Or.inl (List.mem_cons.2 (Or.inr hm))
          · simp only [List.map_cons, List.mem_cons] at hm
            rcases hm with hm | hm
            · exact Or.inl (List.mem_cons.2 (Or.inl hm))
            · exact Or.inr hm

/-- reported = least `j` having an earlier equal key: everything before it is duplicate-free -/
theorem ku_first (ks : List Key) (k : Key) :
    firstDup [] ks = some k ↔
      ∃ pre post, ks = pre ++ k :: post ∧ (pre.map (·.key)).Nodup ∧ k.key ∈ pre.map (·.key) := by
  rw [firstDup_some_iff]
  constructor
  · rintro ⟨pre, post, hs, hn, hm⟩
    refine ⟨pre, post, hs, (ku_iff pre).1 hn, ?_⟩
    rcases hm with hm | hm
    · cases hm
    · exact hm
  · rintro ⟨pre, post, hs, hn, hm⟩
    exact ⟨pre, post, hs, (ku_iff pre).2 hn, Or.inr hm⟩

/-- blank lines are never keys (no pattern) -/
theorem blank_not_key (re : Regex) (l : Text) (h : (trim l).isEmpty = true) : keyOf re none l = none := by
  simp [keyOf, h]

/-- non-matching lines are never keys (with a pattern) -/
theorem nonmatching_not_key (re : Regex) (p l : Text) (h : re.captures p l = none) : keyOf re (some p) l = none := by
  simp [keyOf, h]

/-- **block level**: a `keep-unique` block whose pattern (if any) compiles passes exactly when the keys of its
    content lines are pairwise distinct -/
theorem ku_block_iff (re : Regex) (file : Text) (b : Blocks.Block) (pat : Text)
    (hc : pat.isEmpty = true ∨ re.compiles pat = true) :
    keepUnique re file b pat = .ok none ↔
      ((keysOf re (if pat.isEmpty then none else some pat) (lines (content file b))).map (·.key)).Nodup := by
  rw [← ku_iff]
  have hg : ((if pat.isEmpty then none else some pat : Option Text).isSome && !re.compiles pat) = false := by
    rcases hc with h | h
    · simp [h]
    · simp [h]
  simp only [keepUnique, hg, Bool.false_eq_true, if_false]
  cases hf : firstDup [] (keysOf re (if pat.isEmpty then none else some pat) (lines (content file b))) with
  | none => simp [dupVerdict, finishKey]
  | some k =>
    simp only [dupVerdict, finishKey]
    cases severityOf b.attrs <;> simp

/-- … and a duplicate yields exactly one `keep-unique` diagnostic, on the first key that has already occurred -/
theorem ku_block_viol (re : Regex) (file : Text) (b : Blocks.Block) (pat : Text)
    (hc : pat.isEmpty = true ∨ re.compiles pat = true) (sev : Nat) (hs : severityOf b.attrs = .ok sev) (k : Key)
    (hk : firstDup [] (keysOf re (if pat.isEmpty then none else some pat) (lines (content file b))) = some k) :
    keepUnique re file b pat = .ok (some (keyDiag "keep-unique" b k sev [])) := by
  have hg : ((if pat.isEmpty then none else some pat : Option Text).isSome && !re.compiles pat) = false := by
    rcases hc with h | h
    · simp [h]
    · simp [h]
  simp only [keepUnique, hg, Bool.false_eq_true, if_false, hk, dupVerdict, finishKey, hs]

example : firstDup [] [⟨0, "a".toList, 1, 1⟩, ⟨1, "b".toList, 1, 1⟩, ⟨3, "a".toList, 2, 2⟩, ⟨4, "b".toList, 1, 1⟩]
    = some ⟨3, "a".toList, 2, 2⟩ := by decide

end Bw.Props.C07
