import Bw.Caps
import Bw.Gen.CapsDump
import Bw.Gen.LuaMode
/-! # C17 — default Lua mode is a sandbox: no file, OS or module access

(a) the `match` of `lua_from_env` (regenerated from the source): which libraries each mode loads;
(b) soundness of the reachability argument; (c) the capability graph dumped from inside the real
interpreter on this run (`Bw/Gen/CapsDump.lean`) is closed and every reachable function is on the
allow-list — decided by the kernel; (d) the global names per mode. The C bodies of the allow-listed
built-ins are trusted (Lua 5.4 reference manual). -/
namespace Bw.Props.C17
open Bw.Caps Bw.Gen

/-- only two mode names are special; every other value (unset, `sandboxed`, garbage) takes the wildcard arm -/
theorem mode_arms : luaArms.map (·.1) = ["unsafe", "safe"] := by decide

/-- the wildcard (default) arm loads exactly coroutine, table, string, utf8, math - and then removes
    the file-reading members of the base library -/
theorem sandbox_libs : luaWildcardLibs = ["COROUTINE", "MATH", "STRING", "TABLE", "UTF8"] ∧
    "dofile" ∈ luaWildcardRemovedGlobals ∧ "loadfile" ∈ luaWildcardRemovedGlobals := by decide

theorem default_is_sandbox_name : luaDefaultModeName = "sandboxed" ∧ luaDefaultModeName ∉ luaArms.map (·.1) := by decide

/-- `safe` is mlua's `Lua::new()` (all safe libraries: adds io, os, package); only `unsafe` uses `unsafe_new` (debug, native modules) -/
theorem safe_unsafe_arms : luaArms = [("unsafe", ["ALL_UNSAFE"]), ("safe", ["ALL_SAFE"])] := by decide

def labelOf (n : Nat) : Option String := (capsDefaultLabels.find? (fun e => e.1 == n)).map (·.2)

/-- **the dumped default-mode graph passes the check** (kernel evaluation on this run's dump) -/
theorem default_dump_ok :
    check ⟨capsDefaultEdges⟩ capsDefaultNodes capsDefaultRoots labelOf (capsDefaultFns.contains ·) allowDefault = true := by
  decide +kernel

/-- **everything a default-mode script can reach is on the allow-list**: every function reachable from
    `_G`, the string metatable and the metatables of reachable values carries an allow-listed path -/
theorem default_sandbox (n : Nat) (h : Reach ⟨capsDefaultEdges⟩ capsDefaultRoots n) (hf : capsDefaultFns.contains n = true) :
    ∃ l, labelOf n = some l ∧ l ∈ allowDefault :=
  check_sound _ _ _ _ _ _ default_dump_ok n h hf

/-- none of `io`, `os`, `package`, `debug`, `require`, `dofile`, `loadfile` is a global in the default mode -/
theorem no_forbidden_globals : ∀ g ∈ forbiddenGlobals, g ∉ luaGlobals_unset := by decide +kernel

/-- `sandboxed`, garbage, empty and wrongly-cased values behave like the default -/
theorem other_values_like_default :
    luaGlobals_sandboxed = luaGlobals_unset ∧ luaGlobals_garbage = luaGlobals_unset ∧
    luaGlobals_empty = luaGlobals_unset ∧ luaGlobals_upper = luaGlobals_unset ∧
    luaFunctionCount_sandboxed = luaFunctionCount_unset ∧ luaFunctionCount_garbage = luaFunctionCount_unset := by
  decide +kernel

/-- `safe` adds `io`, `os` and `package` (and no `debug`); only `unsafe` adds `debug` -/
theorem safe_adds : "io" ∈ luaGlobals_safe ∧ "os" ∈ luaGlobals_safe ∧ "package" ∈ luaGlobals_safe ∧ "debug" ∉ luaGlobals_safe := by
  decide +kernel

theorem unsafe_adds : "debug" ∈ luaGlobals_unsafe ∧ "io" ∈ luaGlobals_unsafe ∧ "package" ∈ luaGlobals_unsafe := by
  decide +kernel

-- non-vacuity: the graph is not empty and has functions
example : capsDefaultFns ≠ [] ∧ capsDefaultEdges ≠ [] := by decide +kernel

end Bw.Props.C17
