import Bw.Pipeline
import Bw.Lemmas.MainFlow
import Bw.Lemmas.Flags
import Bw.Detect
/-! # C14 — --enable / --disable select validators without side effects -/
namespace Bw.Props.C14
open Bw Bw.Pipe Bw.Val Bw.Detect

/-- **The lazy detection loop finds exactly the chosen validators that some block needs**, for every
    order of files and blocks (the statement does not mention the order) and every initial stack. -/
theorem detect_exact {B D} (needs : D → B → Bool) (blocks : List B) (stack : List D) (d : D) :
    d ∈ detectLoop needs blocks stack [] ↔ d ∈ stack ∧ ∃ b ∈ blocks, needs d b = true := by
  simpa using mem_detectLoop needs blocks stack [] d

/-- the set model used by the driver agrees with the loop on membership -/
theorem detected_mem (ctx : List FileCtx) (enabled disabled : List String) (v : String) :
    v ∈ detected ctx enabled disabled ↔
      v ∈ chosen enabled disabled ∧ ∃ f ∈ ctx, ∃ b ∈ f.blocks, needs v b = true := by
  simp [detected, List.mem_filter, List.any_eq_true]

theorem detected_iff_loop (ctx : List FileCtx) (enabled disabled : List String) (v : String) :
    v ∈ detected ctx enabled disabled ↔
      v ∈ detectLoop needs (ctx.map (·.blocks)).flatten (chosen enabled disabled).reverse [] := by
  rw [detect_exact, detected_mem]
  simp only [List.mem_reverse, List.mem_flatten, List.mem_map]
  constructor
  · rintro ⟨h, f, hf, b, hb, hn⟩
    exact ⟨h, b, ⟨f.blocks, ⟨f, hf, rfl⟩, hb⟩, hn⟩
  · rintro ⟨h, b, ⟨l, ⟨f, hf, rfl⟩, hb⟩, hn⟩
    exact ⟨h, f, hf, b, hb, hn⟩

/-- which validators are chosen: with `--enable` exactly the enabled ones, else all minus the disabled -/
theorem chosen_def (enabled disabled : List String) (v : String) :
    v ∈ chosen enabled disabled ↔
      v ∈ Gen.detectorNames ∧ (if enabled.isEmpty then v ∉ disabled else v ∈ enabled) := by
  simp only [chosen, List.mem_filter]
  by_cases h : enabled.isEmpty = true <;> simp [h]

/-- repeating a flag composes as set union -/
theorem repeat_is_union (enabled disabled : List String) (v : String) :
    chosen enabled (v :: v :: disabled) = chosen enabled (v :: disabled) := by
  simp only [chosen]
  congr 1
  funext x
  by_cases h : enabled.isEmpty = true <;> simp [h]

/-- `--disable V` removes exactly V from the validators that run -/
theorem disable_removes_exactly (ctx : List FileCtx) (disabled : List String) (v : String) :
    detected ctx [] (v :: disabled) = (detected ctx [] disabled).filter (· ≠ v) := by
  simp only [detected, chosen, List.isEmpty_nil, Bool.not_true, Bool.false_eq_true, if_false, List.filter_filter]
  congr 1
  funext x
  by_cases hx : x = v
  · subst hx; simp
  · have : (x == v) = false := by simpa using hx
    simp [hx, List.contains_cons, this, Bool.and_comm]

/-- `--enable` keeps exactly the enabled validators (among those any block needs) -/
theorem enable_keeps_exactly (ctx : List FileCtx) (enabled : List String) (h : enabled ≠ []) :
    detected ctx enabled [] = (detected ctx [] []).filter (enabled.contains ·) := by
  have hne : enabled.isEmpty = false := by cases enabled <;> simp_all
  simp only [detected, chosen, hne, List.isEmpty_nil, Bool.not_true, Bool.not_false, if_true, if_false,
    Bool.false_eq_true, List.filter_filter]
  congr 1
  funext x
  simp [Bool.and_comm]

theorem ite_regex (c e : Bool) (x : Except ErrKind (Option Diag)) (d : Diag)
    (h : (if c = true then (if e = true then Except.ok none else Except.error ErrKind.badRegex) else x) = .ok (some d)) :
    x = .ok (some d) := by
  cases c <;> cases e <;> simp_all

/-- every diagnostic of a validator carries that validator's name as its code -/
theorem validator_code (re : Regex) (oracle : AsyncOracle) (v : String) (f : FileCtx) (b : BlockCtx) (d : Diag)
    (hv : v ∈ ["keep-sorted", "keep-unique", "line-pattern", "line-count", "check-lua", "check-ai"])
    (h : checkBlock re oracle v f b = .ok (some d)) : d.code = v := by
  have hfin : ∀ code data vd, finishKey code b.block data vd = .ok (some d) → d.code = code := by
    intro code data vd hh
    cases vd with
    | pass => simp [finishKey] at hh
    | err e => simp [finishKey] at hh
    | viol k =>
      simp only [finishKey] at hh
      cases hs : severityOf b.block.attrs with
      | error e => simp [hs] at hh
      | ok sev => simp only [hs, Except.ok.injEq, Option.some.injEq] at hh; rw [← hh]; rfl
  simp only [List.mem_cons, List.mem_nil_iff, or_false] at hv
  unfold checkBlock at h
  cases ha : Tag.attrGet b.block.attrs v.toList with
  | none => simp [ha] at h
  | some a =>
    rcases hv with rfl | rfl | rfl | rfl | rfl | rfl
    · simp only [ha, keepSorted] at h
      cases hd : normDirection a with
      | none => simp [hd] at h
      | some norm =>
        simp only [hd] at h
        cases hf : sortFormat b.block.attrs with
        | none => simp [hf] at h
        | some numeric =>
          simp only [hf] at h
          exact hfin _ _ _ (ite_regex _ _ _ d h)
    · simp only [ha, keepUnique] at h
      exact hfin _ _ _ (ite_regex _ _ _ d h)
    · simp only [ha, linePattern] at h
      split at h
      · cases h
      · exact hfin _ _ _ h
    · simp only [ha, lineCount] at h
      cases hp : parseConstraint a with
      | none => simp [hp] at h
      | some x =>
        obtain ⟨op, n⟩ := x
        simp only [hp] at h
        split at h
        · cases h
        · cases hs : severityOf b.block.attrs with
          | error e => simp [hs] at h
          | ok sev => simp only [hs, Except.ok.injEq, Option.some.injEq] at h; rw [← h]; rfl
    · simp only [ha] at h
      split at h
      · cases h
      · cases hcn : blockContent re f.text b.block "check-lua-pattern" ErrKind.luaError with
        | error e => simp [hcn] at h
        | ok c =>
          simp only [hcn] at h
          cases ho : oracle "check-lua" f.path b.block <;> simp only [ho] at h <;>
            first
              | (cases h; done)
              | (cases hs : severityOf b.block.attrs with
                  | error e => simp [hs] at h
                  | ok sev => simp only [hs, Except.ok.injEq, Option.some.injEq] at h; rw [← h]; rfl)
              | (split at h
                 · cases h
                 · cases hs : severityOf b.block.attrs with
                   | error e => simp [hs] at h
                   | ok sev => simp only [hs, Except.ok.injEq, Option.some.injEq] at h; rw [← h]; rfl)
    · simp only [ha] at h
      split at h
      · cases h
      · cases hcn : blockContent re f.text b.block "check-ai-pattern" ErrKind.aiError with
        | error e => simp [hcn] at h
        | ok c =>
          simp only [hcn] at h
          cases ho : oracle "check-ai" f.path b.block <;> simp only [ho] at h <;>
            first
              | (cases h; done)
              | (cases hs : severityOf b.block.attrs with
                  | error e => simp [hs] at h
                  | ok sev => simp only [hs, Except.ok.injEq, Option.some.injEq] at h; rw [← h]; rfl)
              | (split at h
                 · cases h
                 · cases hs : severityOf b.block.attrs with
                   | error e => simp [hs] at h
                   | ok sev => simp only [hs, Except.ok.injEq, Option.some.injEq] at h; rw [← h]; rfl)

/-- `affects` diagnostics carry the code `affects` -/
theorem affects_code (ctx : List FileCtx) (f : FileCtx) (l : List Diag) (h : Except.ok l ∈ affectsFile ctx f) :
    ∀ d ∈ l, d.code = "affects" := by
  unfold affectsFile at h
  obtain ⟨b, _, hb⟩ := List.mem_map.1 h
  split at hb
  · injection hb with hb; subst hb; intro d hd; cases hd
  · split at hb
    · injection hb with hb; subst hb; intro d hd; cases hd
    · split at hb
      · cases hb
      · simp only [affectsDiags] at hb
        split at hb
        · split at hb
          · injection hb with hb; subst hb; intro d hd; cases hd
          · cases hb
        · injection hb with hb
          subst hb
          intro d hd
          obtain ⟨x, _, rfl⟩ := List.mem_map.1 hd
          rfl

/-- a validator name the model has no rule for (a name registered in the code after this model was written) yields nothing
    on any block: the laws below then hold for it trivially, and nothing is claimed about what the code does with it -/
theorem checkBlock_unmodelled (re : Regex) (oracle : AsyncOracle) (v : String) (f : FileCtx) (b : BlockCtx)
    (hv : v ∉ ["keep-sorted", "keep-unique", "line-pattern", "line-count", "check-lua", "check-ai"]) :
    checkBlock re oracle v f b = .ok none := by
  simp only [List.mem_cons, List.mem_nil_iff, or_false, not_or] at hv
  obtain ⟨h1, h2, h3, h4, h5, h6⟩ := hv
  unfold checkBlock
  split <;> first | rfl | (exfalso; simp_all)

/-- all diagnostics of validator `v` carry the code `v` -/
theorem results_code (re : Regex) (oracle : AsyncOracle) (ctx : List FileCtx) (v : String) (hv : v ∈ Gen.detectorNames)
    (r : Text × Except ErrKind (List Diag)) (hr : r ∈ validatorResults re oracle ctx v) (l : List Diag) (hl : r.2 = .ok l) :
    ∀ d ∈ l, d.code = v := by
  unfold validatorResults at hr
  split at hr
  · rename_i ha
    subst ha
    simp only [List.mem_flatten, List.mem_map] at hr
    obtain ⟨rs, ⟨f, _, rfl⟩, hr⟩ := hr
    obtain ⟨x, hx, rfl⟩ := List.mem_map.1 hr
    simp only at hl
    subst hl
    exact affects_code ctx f l hx
  · rename_i hna
    simp only [List.mem_flatten, List.mem_map] at hr
    obtain ⟨rs, ⟨f, _, rfl⟩, hr⟩ := hr
    obtain ⟨b, _, rfl⟩ := List.mem_map.1 hr
    simp only at hl
    by_cases hv' : v ∈ ["keep-sorted", "keep-unique", "line-pattern", "line-count", "check-lua", "check-ai"]
    case neg =>
      rw [checkBlock_unmodelled re oracle v f b hv'] at hl
      simp only [Except.map] at hl
      injection hl with hl
      subst hl
      intro d hd; cases hd
    cases hc : checkBlock re oracle v f b with
    | error e => rw [hc] at hl; cases hl
    | ok o =>
      rw [hc] at hl
      simp only [Except.map] at hl
      injection hl with hl
      subst hl
      cases o with
      | none => intro d hd; cases hd
      | some d0 =>
        intro d hd
        simp only [Option.toList, List.mem_singleton] at hd
        subst hd
        exact validator_code re oracle v f b d hv' hc

theorem resultDiags_append (a b : List (Text × Except ErrKind (List Diag))) :
    resultDiags (a ++ b) = resultDiags a ++ resultDiags b := by
  simp [resultDiags]

theorem resultErrors_append (a b : List (Text × Except ErrKind (List Diag))) :
    resultErrors (a ++ b) = resultErrors a ++ resultErrors b := by
  simp [resultErrors]

/-- diagnostics of the validators in `vs` with validator `v` removed = the diagnostics of `vs` minus those coded `v` -/
theorem diags_without (re : Regex) (oracle : AsyncOracle) (ctx : List FileCtx) (v : String) (vs : List String)
    (hvs : ∀ w ∈ vs, w ∈ Gen.detectorNames) :
    resultDiags (((vs.filter (· ≠ v)).map (validatorResults re oracle ctx)).flatten) =
      (resultDiags ((vs.map (validatorResults re oracle ctx)).flatten)).filter (fun d => d.2.code ≠ v) := by
  induction vs with
  | nil => simp [resultDiags]
  | cons w ws ih =>
    have ihw := ih (fun x hx => hvs x (by simp [hx]))
    have hw := hvs w (by simp)
    simp only [List.map_cons, List.flatten_cons, resultDiags_append, List.filter_append]
    have hcodes : ∀ d ∈ resultDiags (validatorResults re oracle ctx w), d.2.code = w := by
      intro d hd
      simp only [resultDiags, List.mem_flatten, List.mem_map] at hd
      obtain ⟨l, ⟨r, hr, rfl⟩, hd⟩ := hd
      cases hr2 : r.2 with
      | error e => rw [hr2] at hd; cases hd
      | ok lst =>
        rw [hr2] at hd
        obtain ⟨x, hx, rfl⟩ := List.mem_map.1 hd
        exact results_code re oracle ctx w hw r hr lst hr2 x hx
    by_cases hwv : w = v
    · subst hwv
      have : (List.filter (fun d => decide (d.2.code ≠ w)) (resultDiags (validatorResults re oracle ctx w))) = [] := by
        rw [List.filter_eq_nil_iff]
        intro d hd
        simp [hcodes d hd]
      simp only [List.filter_cons, ne_eq, not_true_eq_false, decide_false, Bool.false_eq_true, if_false, this, List.nil_append]
      exact ihw
    · have : (List.filter (fun d => decide (d.2.code ≠ v)) (resultDiags (validatorResults re oracle ctx w))) =
          resultDiags (validatorResults re oracle ctx w) := by
        rw [List.filter_eq_self]
        intro d hd
        rw [hcodes d hd]
        simpa using hwv
      simp only [List.filter_cons, ne_eq, hwv, not_false_eq_true, decide_true, if_true, List.map_cons, List.flatten_cons,
        resultDiags_append, this]
      rw [ihw]

theorem errors_without (re : Regex) (oracle : AsyncOracle) (ctx : List FileCtx) (v : String) (vs : List String) :
    ∀ e ∈ resultErrors (((vs.filter (· ≠ v)).map (validatorResults re oracle ctx)).flatten),
      e ∈ resultErrors ((vs.map (validatorResults re oracle ctx)).flatten) := by
  induction vs with
  | nil => simp
  | cons w ws ih =>
    intro e he
    simp only [List.map_cons, List.flatten_cons, resultErrors_append, List.mem_append]
    by_cases hwv : w = v
    · subst hwv
      simp only [List.filter_cons, ne_eq, not_true_eq_false, decide_false, Bool.false_eq_true, if_false] at he
      exact Or.inr (ih e he)
    · simp only [List.filter_cons, ne_eq, hwv, not_false_eq_true, decide_true, if_true, List.map_cons, List.flatten_cons,
        resultErrors_append, List.mem_append] at he
      rcases he with he | he
      · exact Or.inl he
      · exact Or.inr (ih e he)

/-- **`--disable V` removes exactly V's diagnostics**: if the run without the extra flag succeeds with diagnostics
    `ds`, the run with `-d V` succeeds with `ds` minus the diagnostics coded `V` - every other diagnostic is
    identical, none is added -/
theorem disable_removes_exactly_diags (re : Regex) (oracle : AsyncOracle) (ctx : List FileCtx) (dis : List String) (v : String)
    (ds : List (Text × Diag)) (h : run re oracle ctx [] dis = .ok ds) :
    run re oracle ctx [] (v :: dis) = .ok (ds.filter (fun d => d.2.code ≠ v)) := by
  have hD : ∀ w ∈ detected ctx [] dis, w ∈ Gen.detectorNames := by
    intro w hw
    have := ((detected_mem ctx [] dis w).1 hw).1
    exact ((chosen_def [] dis w).1 this).1
  unfold run at h ⊢
  simp only at h ⊢
  unfold runResults at h ⊢
  rw [disable_removes_exactly]
  split at h
  · rename_i hemp
    injection h with h
    have hnone : resultErrors (((detected ctx [] dis).filter (· ≠ v)).map (validatorResults re oracle ctx)).flatten = [] := by
      cases hl : resultErrors (((detected ctx [] dis).filter (· ≠ v)).map (validatorResults re oracle ctx)).flatten with
      | nil => rfl
      | cons e es =>
        have := errors_without re oracle ctx v (detected ctx [] dis) e (by rw [hl]; simp)
        rw [List.isEmpty_iff] at hemp
        rw [hemp] at this; cases this
    simp only [hnone, List.isEmpty_nil, if_true]
    rw [diags_without re oracle ctx v _ hD, h]
  · cases h

/-- generalisation: keeping the validators that satisfy `p` keeps exactly the diagnostics whose code satisfies `p` -/
theorem diags_filter (re : Regex) (oracle : AsyncOracle) (ctx : List FileCtx) (p : String → Bool) (vs : List String)
    (hvs : ∀ w ∈ vs, w ∈ Gen.detectorNames) :
    resultDiags (((vs.filter p).map (validatorResults re oracle ctx)).flatten) =
      (resultDiags ((vs.map (validatorResults re oracle ctx)).flatten)).filter (fun d => p d.2.code) := by
  induction vs with
  | nil => simp [resultDiags]
  | cons w ws ih =>
    have ihw := ih (fun x hx => hvs x (by simp [hx]))
    have hw := hvs w (by simp)
    simp only [List.map_cons, List.flatten_cons, resultDiags_append, List.filter_append]
    have hcodes : ∀ d ∈ resultDiags (validatorResults re oracle ctx w), d.2.code = w := by
      intro d hd
      simp only [resultDiags, List.mem_flatten, List.mem_map] at hd
      obtain ⟨l, ⟨r, hr, rfl⟩, hd⟩ := hd
      cases hr2 : r.2 with
      | error e => rw [hr2] at hd; cases hd
      | ok lst =>
        rw [hr2] at hd
        obtain ⟨x, hx, rfl⟩ := List.mem_map.1 hd
        exact results_code re oracle ctx w hw r hr lst hr2 x hx
    by_cases hpw : p w = true
    · have : (List.filter (fun d => p d.2.code) (resultDiags (validatorResults re oracle ctx w))) =
          resultDiags (validatorResults re oracle ctx w) := by
        rw [List.filter_eq_self]
        intro d hd
        rw [hcodes d hd]; exact hpw
      simp only [List.filter_cons, hpw, if_true, List.map_cons, List.flatten_cons, resultDiags_append, this]
      rw [ihw]
    · have : (List.filter (fun d => p d.2.code) (resultDiags (validatorResults re oracle ctx w))) = [] := by
        rw [List.filter_eq_nil_iff]
        intro d hd
        rw [hcodes d hd]; exact hpw
      simp only [List.filter_cons, hpw, if_false, Bool.false_eq_true, this, List.nil_append]
      exact ihw

theorem errors_filter (re : Regex) (oracle : AsyncOracle) (ctx : List FileCtx) (p : String → Bool) (vs : List String) :
    ∀ e ∈ resultErrors (((vs.filter p).map (validatorResults re oracle ctx)).flatten),
      e ∈ resultErrors ((vs.map (validatorResults re oracle ctx)).flatten) := by
  induction vs with
  | nil => simp
  | cons w ws ih =>
    intro e he
    simp only [List.map_cons, List.flatten_cons, resultErrors_append, List.mem_append]
    by_cases hpw : p w = true
    · simp only [List.filter_cons, hpw, if_true, List.map_cons, List.flatten_cons, resultErrors_append, List.mem_append] at he
      rcases he with he | he
      · exact Or.inl he
      · exact Or.inr (ih e he)
    · simp only [List.filter_cons, hpw, if_false, Bool.false_eq_true] at he
      exact Or.inr (ih e he)

/-- **`--enable E` keeps exactly E's diagnostics**: if the unrestricted run succeeds with diagnostics `ds`, the run with
    `-e` for the names in `E` succeeds with exactly the diagnostics of `ds` whose code is in `E`, unchanged -/
theorem enable_keeps_exactly_diags (re : Regex) (oracle : AsyncOracle) (ctx : List FileCtx) (en : List String) (hen : en ≠ [])
    (ds : List (Text × Diag)) (h : run re oracle ctx [] [] = .ok ds) :
    run re oracle ctx en [] = .ok (ds.filter (fun d => en.contains d.2.code)) := by
  have hD : ∀ w ∈ detected ctx [] [], w ∈ Gen.detectorNames := by
    intro w hw
    have := ((detected_mem ctx [] [] w).1 hw).1
    exact ((chosen_def [] [] w).1 this).1
  unfold run at h ⊢
  simp only at h ⊢
  unfold runResults at h ⊢
  rw [enable_keeps_exactly ctx en hen]
  split at h
  · rename_i hemp
    injection h with h
    have hnone : resultErrors (((detected ctx [] []).filter (en.contains ·)).map (validatorResults re oracle ctx)).flatten = [] := by
      cases hl : resultErrors (((detected ctx [] []).filter (en.contains ·)).map (validatorResults re oracle ctx)).flatten with
      | nil => rfl
      | cons e es =>
        have := errors_filter re oracle ctx (en.contains ·) (detected ctx [] []) e (by rw [hl]; simp)
        rw [List.isEmpty_iff] at hemp
        rw [hemp] at this; cases this
    simp only [hnone, List.isEmpty_nil, if_true]
    rw [diags_filter re oracle ctx (en.contains ·) _ hD, h]
  · cases h

/-- the detector table (regenerated from the source) holds the seven validators (and possibly further ones), each name once (a further validator
    registered after them is not a violation of anything stated here: its size is not fixed) -/
theorem detector_table : Gen.detectorNames.Nodup ∧
    ∀ v ∈ ["affects", "keep-sorted", "keep-unique", "line-pattern", "line-count", "check-ai", "check-lua"],
      v ∈ Gen.detectorNames := by
  refine ⟨by decide, by decide⟩

/-- the corner of `--disable`: with every registered validator disabled nothing is detected, nothing is reported and the run
    exits 0 - an empty *enabled* set means "no --enable given", never "run everything that is left" -/
theorem disable_everything_reports_nothing (re : Regex) (oracle : AsyncOracle) (ctx : List FileCtx) :
    run re oracle ctx [] Gen.detectorNames = .ok [] ∧ exitCode (run re oracle ctx [] Gen.detectorNames) = 0 := by
  have hc : chosen [] Gen.detectorNames = [] := by
    unfold chosen
    simp only [List.isEmpty_nil, Bool.not_true, Bool.false_eq_true, if_false]
    rw [List.filter_eq_nil_iff]
    intro v hv
    simp [List.contains_iff_mem, hv]
  have hd : detected ctx [] Gen.detectorNames = [] := by unfold detected; rw [hc]; rfl
  have hr : run re oracle ctx [] Gen.detectorNames = .ok [] := by
    unfold run runResults
    rw [hd]
    rfl
  exact ⟨hr, by rw [hr]; rfl⟩

/-! ### the option values are checked before anything is parsed (`src/flags.rs`, model `Bw.Flags`) -/

/-- naming something that is not exactly a registered validator (a fragment, another letter case, padded with blanks,
    the empty string) rejects the command line, whatever else it holds -/
theorem unknown_validator_rejected (rawE en dis : List Text) (v : Text) (hv : v ∈ en ++ dis)
    (hn : ∀ n ∈ Gen.detectorNames, n.toList ≠ v) : ∃ e, Flags.startup rawE en dis = .error e :=
  Flags.startup_err_of_unknown rawE en dis v hv hn

/-- `--enable` together with `--disable` rejects the command line -/
theorem both_flags_rejected (rawE en dis : List Text) (he : en ≠ []) (hd : dis ≠ []) :
    ∃ e, Flags.startup rawE en dis = .error e := Flags.startup_err_of_both rawE en dis he hd

/-- exactly the registered names are accepted, and unchanged -/
theorem validator_names_exact (v : Text) :
    (∃ r, Flags.parseValidator v = .ok r) ↔ ∃ n ∈ Gen.detectorNames, n.toList = v := Flags.parseValidator_ok_iff v

/-- well-formed options start the run with exactly the names given (the sets `chosen` / `detected` are computed from) -/
theorem flags_ok_start_verbatim (rawE en dis : List Text) (exts : List (Text × Text))
    (hE : Flags.mapM' Flags.parseExtension rawE = .ok exts) (hsup : ∀ e ∈ exts, e.2 ∈ Lookup.table.map (·.1))
    (hen : ∀ v ∈ en, ∃ n ∈ Gen.detectorNames, n.toList = v) (hdis : ∀ v ∈ dis, ∃ n ∈ Gen.detectorNames, n.toList = v)
    (hnot : en = [] ∨ dis = []) :
    ∃ o, Flags.startup rawE en dis = .ok o ∧ o.enabled = en ∧ o.disabled = dis ∧ o.extra = Flags.extensionsMap exts :=
  Flags.startup_ok rawE en dis exts hE hsup hen hdis hnot

/-! ### the sequencing of `main` (model `Bw.MainFlow`) -/

/-- **rejected before anything is validated**: with refused option values the outcome of `main` is the rejection, whatever
    the files, the diff, the regex engine and the scripts are -/
theorem invalid_options_rejected_before_anything (cfg cfg' : Tag.Cfg) (re re' : Regex) (oracle oracle' : AsyncOracle)
    (rawE en dis : List Text) (list list' : Bool) (inp inp' : MainFlow.Input) (e : Flags.FlagErr)
    (h : Flags.startup rawE en dis = .error e) :
    MainFlow.run cfg re oracle rawE en dis list inp = .rejected e ∧
    MainFlow.run cfg re oracle rawE en dis list inp = MainFlow.run cfg' re' oracle' rawE en dis list' inp' :=
  MainFlow.rejected_before_anything cfg cfg' re re' oracle oracle' rawE en dis list list' inp inp' e h

theorem both_flags_never_validate (cfg : Tag.Cfg) (re : Regex) (oracle : AsyncOracle) (rawE en dis : List Text) (list : Bool)
    (inp : MainFlow.Input) (he : en ≠ []) (hd : dis ≠ []) : ∃ e, MainFlow.run cfg re oracle rawE en dis list inp = .rejected e :=
  MainFlow.both_flags_never_validate cfg re oracle rawE en dis list inp he hd

end Bw.Props.C14
