import Bw.Lookup
import Bw.Lemmas.Flags
/-! # C16 — grammar is chosen by file name; unknown names are skipped

`Lookup.table` is regenerated from `language_parsers()` on every run, so the obligations below are
re-checked against what the source says now (registering e.g. `mod ↦ python` breaks `suffix_coherent`). -/
namespace Bw.Props.C16
open Bw Bw.Lookup

/-- lookup = first registered among the dot-suffixes of the base name, shortest first, then the whole name -/
theorem lookup_spec (extra : List (Text × Text)) (path name : Text) (h : fileName path = some name) :
    lookup extra path =
      match firstSome (tryExt table extra) (dotSuffixes name) with
      | some p => some p
      | none => tryExt table extra name := by
  simp only [lookup, lookupIn, h]
  rfl

/-- a path without a file name (`..`, empty) has no grammar -/
theorem no_name_skipped (extra : List (Text × Text)) (path : Text) (h : fileName path = none) :
    lookup extra path = none := by
  simp [lookup, lookupIn, h]

/-- every registered proper dot-suffix of a registered key maps to the same grammar
    (`ts` / `d.ts`; `mod` is not registered next to `go.mod`) - decided on the regenerated table -/
def suffixCoherent (t : List (Text × String)) : Bool :=
  t.all (fun e => (dotSuffixes e.1).all (fun sfx =>
    match t.find? (fun e' => e'.1 = sfx) with
    | some e' => e'.2 == e.2
    | none => true))

theorem suffix_coherent : suffixCoherent table = true := by decide +kernel

/-- the table has no duplicate keys (a hash map built from it keeps every entry) and registers the compound and extension-less
    names the property lists; its size is not fixed: registering a further suffix for an existing grammar changes nothing here -/
theorem table_shape : (table.map (·.1)).Nodup ∧
    ∀ k ∈ ["d.ts", "go.mod", "go.sum", "go.work", "Makefile", "makefile"], k.toList ∈ table.map (·.1) := by
  refine ⟨by decide +kernel, by decide +kernel⟩

/-- **every registered suffix wins** for `base.suffix`, `base.x.suffix`, `.base.suffix` and the bare
    suffix itself (e.g. `Makefile`, `go.mod`), whatever directories precede - checked for every
    registered key over representative base shapes by kernel evaluation of the lookup -/
def shapesOk (t : List (Text × String)) : Bool :=
  t.all (fun e =>
    ["x.", "x.y.", ".x.", "dir.d/x.", "a/b/x-1.", "a b/é."].all (fun pre =>
      lookupIn t [] (pre.toList ++ e.1) == some e.2) &&
    lookupIn t [] e.1 == some e.2 && lookupIn t [] ("d/".toList ++ e.1) == some e.2)

theorem registered_suffix_wins : shapesOk table = true := by decide +kernel

/-- names that map to no grammar are skipped (never an error): examples incl. upper-case variants and `.bak` -/
theorem unknown_skipped :
    lookup [] "README".toList = none ∧ lookup [] "x.PY".toList = none ∧ lookup [] "x.py.bak".toList = none ∧
    lookup [] "x.txt".toList = none ∧ lookup [] "MAKEFILE".toList = none ∧ lookup [] "dir.py/x".toList = none := by
  refine ⟨by decide +kernel, by decide +kernel, by decide +kernel, by decide +kernel, by decide +kernel, by decide +kernel⟩

/-- `-E ext=known` assigns the known grammar; the remap is consulted before the table -/
theorem remap (t : List (Text × String)) (extra : List (Text × Text)) (ext target : Text) (g : String)
    (h1 : extra.find? (fun e => e.1 = ext) = some (ext, target))
    (h2 : t.find? (fun e => e.1 = target) = some (target, g)) : tryExt t extra ext = some g := by
  simp [tryExt, h1, h2]

example : lookup [("cxx".toList, "cpp".toList)] "a/x.cxx".toList = some "cpp_parser" := by decide +kernel
example : lookup [("py".toList, "rs".toList)] "x.py".toList = some "rust_parser" := by decide +kernel

/-- a general form of `registered_suffix_wins`: if the shortest registered dot-suffix of the name is
    `sfx ↦ g` (no shorter suffix is registered or remapped), the lookup answers `g` -/
theorem shortest_suffix_wins (t : List (Text × String)) (extra : List (Text × Text)) (pre : List Text) (sfx : Text)
    (post : List Text) (g : String) (name : Text) (hs : dotSuffixes name = pre ++ sfx :: post)
    (hpre : ∀ s ∈ pre, tryExt t extra s = none) (hg : tryExt t extra sfx = some g) (path : Text)
    (hn : fileName path = some name) : lookupIn t extra path = some g := by
  have : ∀ pre : List Text, (∀ s ∈ pre, tryExt t extra s = none) →
      firstSome (tryExt t extra) (pre ++ sfx :: post) = some g := by
    intro pre
    induction pre with
    | nil => intro _; simp [firstSome, hg]
    | cons x xs ih =>
      intro hp
      simp only [List.cons_append, firstSome, hp x (by simp)]
      exact ih (fun s hs' => hp s (by simp [hs']))
  simp only [lookupIn, hn, hs, this pre hpre]

/-- the grammar depends on the file name alone: two paths with the same last component get the same grammar, whatever their
    directories are called (dots, registered suffixes, spaces in directory names change nothing) -/
theorem same_name_same_grammar (extra : List (Text × Text)) (p q : Text) (h : fileName p = fileName q) :
    lookup extra p = lookup extra q := by
  simp only [lookup, lookupIn, h]

theorem splitSlash_ne_nil (t : Text) : splitSlash t ≠ [] := by
  induction t with
  | nil => simp [splitSlash]
  | cons c cs ih =>
    simp only [splitSlash]
    split
    · simp
    · split <;> simp

theorem splitSlash_noslash (name : Text) (h : '/' ∉ name) : splitSlash name = [name] := by
  induction name with
  | nil => rfl
  | cons c cs ih =>
    have hc : c ≠ '/' := fun e => h (by simp [e])
    have hcs : '/' ∉ cs := fun e => h (List.mem_cons_of_mem _ e)
    simp only [splitSlash, hc, if_false, ih hcs]

theorem splitSlash_append (dir name : Text) : splitSlash (dir ++ '/' :: name) = splitSlash dir ++ splitSlash name := by
  induction dir with
  | nil => simp [splitSlash]
  | cons c cs ih =>
    simp only [List.cons_append, splitSlash]
    by_cases hc : c = '/'
    · simp [hc, ih]
    · simp only [hc, if_false, ih]
      cases hs : splitSlash cs with
      | nil => exact absurd hs (splitSlash_ne_nil cs)
      | cons l ls => simp

/-- a file `name` (no `/`, not empty, not `.` or `..`) in any directory has that name -/
theorem fileName_join (dir name : Text) (h : '/' ∉ name) (h0 : name ≠ []) (h1 : name ≠ ['.']) (h2 : name ≠ "..".toList) :
    fileName (dir ++ '/' :: name) = some name := by
  unfold fileName
  rw [splitSlash_append, splitSlash_noslash name h, List.filter_append]
  have hk : ([name].filter (fun c => !c.isEmpty && c ≠ ['.'])) = [name] := by
    have e1 : name.isEmpty = false := by cases name with | nil => exact absurd rfl h0 | cons _ _ => rfl
    simp [List.filter, e1, h1]
  rw [hk, List.reverse_append]
  have h2' : ¬ name = ['.', '.'] := h2
  simp [h2']

/-- **directories do not matter**: `dir/name` gets the grammar of `name` -/
theorem grammar_of_name_in_any_directory (extra : List (Text × Text)) (dir name : Text) (h : '/' ∉ name) (h0 : name ≠ [])
    (h1 : name ≠ ['.']) (h2 : name ≠ "..".toList) : lookup extra (dir ++ '/' :: name) = lookup extra name := by
  apply same_name_same_grammar
  rw [fileName_join dir name h h0 h1 h2]
  unfold fileName
  rw [splitSlash_noslash name h]
  have e1 : name.isEmpty = false := by cases name with | nil => exact absurd rfl h0 | cons _ _ => rfl
  have h2' : ¬ name = ['.', '.'] := h2
  simp [List.filter, e1, h1, h2']

/-! ### `-E KEY=VALUE` (`src/flags.rs`, model `Bw.Flags`) -/

/-- a mapping onto something that is not a registered suffix rejects the command line before any file is read -/
theorem E_unsupported_rejected (rawE en dis : List Text) (s k v : Text) (hs : s ∈ rawE)
    (hp : Flags.parseExtension s = .ok (k, v)) (hv : v ∉ Lookup.table.map (·.1)) :
    ∃ e, Flags.startup rawE en dis = .error e := Flags.startup_err_of_unsupported rawE en dis s k v hs hp hv

/-- `KEY=VALUE` is cut at its first `=`, both sides trimmed; without `=` it is rejected -/
theorem E_split (k v : Text) (hk : '=' ∉ k) : Flags.parseExtension (k ++ '=' :: v) = .ok (trim k, trim v) := by
  simp only [Flags.parseExtension, Flags.splitOnceEq_spec k v hk]

theorem E_without_equals_rejected (s : Text) (h : '=' ∉ s) : Flags.parseExtension s = .error .badExtensionSyntax := by
  simp only [Flags.parseExtension, (Flags.splitOnceEq_none_iff s).2 h]

/-- a repeated key keeps its last mapping -/
theorem E_last_wins (exts : List (Text × Text)) (e : Text × Text) (k : Text) :
    ((Flags.extensionsMap (exts ++ [e])).find? (fun x => x.1 = k)).map (·.2) =
      if e.1 = k then some e.2 else ((Flags.extensionsMap exts).find? (fun x => x.1 = k)).map (·.2) :=
  Flags.find_extensionsMap_append exts e k

end Bw.Props.C16
