import Bw.Pipeline
import Bw.Lemmas.BSearch
import Bw.Lemmas.LineDiff
/-! # C02 — diff mode validates exactly the touched blocks, with full-scan verdicts -/
namespace Bw.Props.C02
open Bw Bw.Blocks Bw.Diff Bw.Val Bw.Pipe

/-- **Selection**: in diff mode a block is kept iff its start tag or its content is touched -/
theorem selected_iff (bs : List Block) (changes : List LC) (b : Block) :
    (∃ x ∈ selectBlocks bs changes false, x.block = b) ↔
      b ∈ bs ∧ (contentModified b changes = true ∨ tagModified b changes = true) := by
  simp only [selectBlocks, List.mem_filterMap]
  constructor
  · rintro ⟨x, ⟨a, ha, hx⟩, rfl⟩
    by_cases h : (false || contentModified a changes || tagModified a changes) = true
    · rw [if_pos h] at hx
      injection hx with hx
      subst hx
      simp only [Bool.false_or, Bool.or_eq_true] at h
      exact ⟨ha, h⟩
    · rw [if_neg h] at hx
      cases hx
  · rintro ⟨hb, h⟩
    refine ⟨⟨b, tagModified b changes, contentModified b changes⟩, ⟨b, hb, ?_⟩, rfl⟩
    have : (false || contentModified b changes || tagModified b changes) = true := by
      simp only [Bool.false_or, Bool.or_eq_true]; exact h
    rw [if_pos this]

/-- with path arguments (`All`) every block of the file is kept, touched or not -/
theorem all_keeps_every_block (bs : List Block) (changes : List LC) :
    (selectBlocks bs changes true).map (·.block) = bs := by
  induction bs with
  | nil => simp [selectBlocks]
  | cons b bs ih =>
    simp only [selectBlocks, List.filterMap_cons, Bool.true_or, if_true, List.map_cons] at ih ⊢
    rw [ih]

/-- the recorded flags are the intersection verdicts -/
theorem flags_recorded (bs : List Block) (changes : List LC) (all : Bool) (x : BlockCtx)
    (h : x ∈ selectBlocks bs changes all) :
    x.contentMod = contentModified x.block changes ∧ x.tagMod = tagModified x.block changes := by
  simp only [selectBlocks, List.mem_filterMap] at h
  obtain ⟨a, _, hx⟩ := h
  by_cases hc : (all || contentModified a changes || tagModified a changes) = true
  · simp only [hc, if_true, Option.some.injEq] at hx
    subst hx
    exact ⟨rfl, rfl⟩
  · simp [hc] at hx

/-- no changes ⇒ nothing is selected in diff mode (a pre-existing violation in an untouched file is never reported) -/
theorem no_changes_selects_nothing (bs : List Block) : selectBlocks bs [] false = [] := by
  induction bs with
  | nil => rfl
  | cons b bs ih =>
    simp only [selectBlocks, List.filterMap_cons] at ih ⊢
    simp [contentModified, tagModified, ih]

/-! ### character arithmetic for an edited line with one changed range -/

theorem bsearch_single {α} (x : α) (f : α → Ordering) : bsearchFound [x] f = decide (f x = .eq) := by
  simp [bsearchFound, bsearchLoop]

/-- an edit on the (single-line) start tag's line touches the tag iff the changed range meets the
    closed column interval from `<` to `>` (0-based: `[s.col-1, e.col-1]`) -/
theorem tag_edit_single (s e : Pos) (line : Nat) (r : Nat × Nat) (hs : s.line = line) (he : e.line = line) :
    hit true s e ⟨line, some [r]⟩ = true ↔ r.2 > s.col - 1 ∧ r.1 ≤ e.col - 1 := by
  subst hs
  have h1 : ¬ s.line < s.line := by omega
  have h2 : ¬ s.line > e.line := by omega
  have h3 : ¬ s.line < e.line := by omega
  simp only [hit, h1, h2, h3, if_false, if_true, bsearch_single, rangeCmp, touches]
  by_cases ha : r.2 > s.col - 1 <;> by_cases hb : r.1 ≤ e.col - 1 <;> simp [ha, hb] <;> split <;> simp

/-- attribute edit: a range strictly inside the tag selects the block … -/
theorem attr_edit_selects (b : Block) (line : Nat) (r : Nat × Nat) (cs : List LC)
    (hs : b.tagStart.line = line) (he : b.tagEnd.line = line)
    (hin : b.tagStart.col - 1 < r.1 ∧ r.1 < r.2 ∧ r.2 ≤ b.tagEnd.col - 1) (hc : (⟨line, some [r]⟩ : LC) ∈ cs) :
    tagModified b cs = true := by
  simp only [tagModified, List.any_eq_true]
  exact ⟨_, hc, (tag_edit_single b.tagStart b.tagEnd line r hs he).2 ⟨by omega, by omega⟩⟩

/-- … and is not a content change when the content starts after the tag on that line -/
theorem attr_edit_not_content (b : Block) (line : Nat) (r : Nat × Nat)
    (hs : b.cPosStart.line = line) (hlt : line < b.cPosEnd.line) (hbefore : r.2 ≤ b.cPosStart.col - 1) :
    hit false b.cPosStart b.cPosEnd ⟨line, some [r]⟩ = false := by
  subst hs
  have h1 : ¬ b.cPosStart.line < b.cPosStart.line := by omega
  have h2 : ¬ b.cPosStart.line > b.cPosEnd.line := by omega
  have h3 : ¬ r.2 > b.cPosStart.col - 1 := by omega
  simp [hit, h1, h2, hlt, bsearch_single, h3, rangeCmp, touches]
  split <;> simp

/-- an edit confined to the end-tag comment's line, at or after the column where that comment
    starts, is not a content change -/
theorem end_tag_line_edit_not_content (b : Block) (line : Nat) (r : Nat × Nat)
    (he : b.cPosEnd.line = line) (hgt : b.cPosStart.line < line) (hafter : b.cPosEnd.col - 1 ≤ r.1) :
    hit false b.cPosStart b.cPosEnd ⟨line, some [r]⟩ = false := by
  subst he
  have h1 : ¬ b.cPosEnd.line < b.cPosStart.line := by omega
  have h2 : ¬ b.cPosEnd.line > b.cPosEnd.line := by omega
  have h3 : ¬ b.cPosEnd.line = b.cPosStart.line := by omega
  have h4 : ¬ b.cPosEnd.line < b.cPosEnd.line := by omega
  have h5 : ¬ r.1 < b.cPosEnd.col - 1 := by omega
  simp [hit, h1, h2, h3, h4, bsearch_single, h5, rangeCmp, touches]
  split <;> simp

/-- soundness of the range search: a hit is witnessed by an actual changed range of the line -/
theorem bsearch_sound {α} (l : List α) (f : α → Ordering) (h : bsearchFound l f = true) : ∃ x ∈ l, f x = .eq := by
  unfold bsearchFound at h
  simp only [List.size_toArray, List.getElem?_toArray] at h
  by_cases h0 : l.length = 0
  · simp [h0] at h
  · rw [if_neg h0] at h
    generalize bsearchLoop l.toArray f l.length l.length 0 = idx at h
    cases hx : l[idx]? with
    | none => rw [hx] at h; cases h
    | some x =>
      rw [hx] at h
      exact ⟨x, List.mem_of_getElem? hx, by simpa using h⟩

/-- over such ranges the comparator handed to `binary_search_by` is monotone: ranges left of the block's columns
    (`Less`), touching ones (`Equal`), ranges right of them (`Greater`) -/
theorem rangeCmp_mono (incl : Bool) (sc : Nat) (ec : Option Nat) (rs : List (Nat × Nat)) (h : SortedRanges rs) :
    Mono (rangeCmp incl sc ec) rs := by
  intro i j a b hij ha hb
  obtain ⟨hi, rfl⟩ := List.getElem?_eq_some_iff.1 ha
  obtain ⟨hj, rfl⟩ := List.getElem?_eq_some_iff.1 hb
  have hab : (rs[i]).2 ≤ (rs[j]).1 := (List.pairwise_iff_getElem.1 h.2) i j hi hj hij
  have ha' := h.1 rs[i] (List.getElem_mem hi)
  have hb' := h.1 rs[j] (List.getElem_mem hj)
  constructor
  · intro hlt
    have h2 : (rs[j]).2 ≤ sc := by
      unfold rangeCmp at hlt
      by_cases ht : touches incl sc ec rs[j] = true
      · simp [ht] at hlt
      · by_cases hl : (rs[j]).2 ≤ sc
        · exact hl
        · simp [ht, hl] at hlt
    have h1 : (rs[i]).2 ≤ sc := by omega
    have hnt : touches incl sc ec rs[i] = false := by
      simp only [touches, Bool.and_eq_false_iff, decide_eq_false_iff_not]
      exact Or.inl (by omega)
    simp [rangeCmp, hnt, h1]
  · intro hgt
    unfold rangeCmp at hgt
    by_cases ht : touches incl sc ec rs[i] = true
    · simp [ht] at hgt
    · by_cases hl : (rs[i]).2 ≤ sc
      · simp [ht, hl] at hgt
      · -- rs[i] lies right of the block's columns: its start is past `ec`; so is every later range
        have hsc : (rs[j]).2 > sc := by omega
        have hnt : touches incl sc ec rs[j] = false := by
          simp only [touches, Bool.not_eq_true, Bool.and_eq_false_iff, decide_eq_false_iff_not] at ht ⊢
          rcases ht with ht | ht
          · exact absurd (by omega : (rs[i]).2 > sc) ht
          · refine Or.inr ?_
            cases ec with
            | none => simp at ht
            | some x =>
              cases incl <;> simp only [Bool.false_eq_true, if_false, if_true, decide_eq_false_iff_not] at ht ⊢ <;> omega
        have hl' : ¬ (rs[j]).2 ≤ sc := by omega
        simp [rangeCmp, hnt, hl']

/-- **the inner range search is exact**: on a line with (sorted, disjoint) changed ranges the block is hit iff the
    change is on one of its lines and some changed range touches the block's columns on that line -/
theorem hit_exact (incl : Bool) (s e : Pos) (c : LC) (rs : List (Nat × Nat)) (hr : c.ranges = some rs)
    (hs : SortedRanges rs) :
    hit incl s e c = true ↔
      s.line ≤ c.line ∧ c.line ≤ e.line ∧
      ∃ r ∈ rs, touches incl (if c.line = s.line then s.col - 1 else 0)
        (if c.line < e.line then none else some (e.col - 1)) r = true := by
  unfold hit
  by_cases h1 : c.line < s.line
  · simp [h1]; omega
  · by_cases h2 : c.line > e.line
    · simp [h1, h2]; omega
    · simp only [h1, h2, if_false, hr]
      have e1 : s.line ≤ c.line := by omega
      have e2 : c.line ≤ e.line := by omega
      simp only [e1, e2, true_and]
      constructor
      · intro h
        obtain ⟨x, hx, hxe⟩ := bsearch_sound rs _ h
        refine ⟨x, hx, ?_⟩
        unfold rangeCmp at hxe
        by_cases ht : touches incl (if c.line = s.line then s.col - 1 else 0) (if c.line < e.line then none else some (e.col - 1)) x = true
        · exact ht
        · simp only [ht, Bool.false_eq_true, if_false] at hxe
          by_cases hl : x.2 ≤ (if c.line = s.line then s.col - 1 else 0)
          · simp [hl] at hxe
          · simp [hl] at hxe
      · rintro ⟨r, hrm, ht⟩
        exact bsearch_complete rs _ (rangeCmp_mono incl _ _ rs hs) r hrm (by simp [rangeCmp, ht])

/-- **`line_diff` satisfies that hypothesis** whenever `similar`'s ops come consecutively over the new line (`Consec`:
    every op starts where the previous one ended). `similar` does not guarantee this for very dissimilar pairs (it may report
    a deletion's new index after the following equal run; counted in the evidence), so the hypothesis of `hit_exact` is in
    addition checked directly on every implementation outcome -/
theorem line_diff_sorted (new : Text) (ops : List Diff.Op) (h : Consec new.length 0 ops) :
    SortedRanges (lineDiffOps new ops none []) := lineDiffOps_sorted new ops h

/-- … so for an edited line the search is exact outright -/
theorem edited_line_hit_exact (incl : Bool) (s e : Pos) (line : Nat) (new : Text) (ops : List Diff.Op)
    (h : Consec new.length 0 ops) :
    hit incl s e ⟨line, some (lineDiffOps new ops none [])⟩ = true ↔
      s.line ≤ line ∧ line ≤ e.line ∧
      ∃ r ∈ lineDiffOps new ops none [], touches incl (if line = s.line then s.col - 1 else 0)
        (if line < e.line then none else some (e.col - 1)) r = true :=
  hit_exact incl s e ⟨line, some (lineDiffOps new ops none [])⟩ _ rfl (line_diff_sorted new ops h)

example : Consec 5 0 [.equal 0 0 2, .delete 2 1 2, .equal 3 2 1, .replace 4 1 3 2] := by
  simp [Consec]

example : SortedRanges [(0, 2), (3, 4), (5, 6)] := by
  refine ⟨by decide, ?_⟩
  simp [List.pairwise_cons]

/-! ### rules are block-local -/

/-- the sort / unique / pattern / count / script verdict of a block depends only on the file's path
    and text and on the block itself - not on the modification flags, not on other blocks or files:
    hence identical in diff mode and in a full scan -/
theorem rules_block_local (re : Regex) (oracle : AsyncOracle) (v : String) (f f' : FileCtx) (b b' : BlockCtx)
    (hp : f.path = f'.path) (ht : f.text = f'.text) (hb : b.block = b'.block) :
    checkBlock re oracle v f b = checkBlock re oracle v f' b' := by
  unfold checkBlock
  rw [hp, ht, hb]

end Bw.Props.C02
