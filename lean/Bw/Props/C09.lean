import Bw.Validators
/-! # C09 — line-count reports a block iff its size breaks the bound -/
namespace Bw.Props.C09
set_option linter.unusedSimpArgs false
open Bw Bw.Val

/-- verdict ⇔ ¬ (count OP N), with the diagnostic carrying actual / op / expected -/
theorem lc_pass_iff (file : Text) (b : Blocks.Block) (expr : Text) (op : Op) (n : Nat)
    (h : parseConstraint expr = some (op, n)) :
    lineCount file b expr = .ok none ↔ op.holds (countLines (content file b)) n = true := by
  simp only [lineCount, h]
  by_cases hh : op.holds (countLines (content file b)) n = true
  · simp [hh]
  · simp only [hh, if_false, Bool.false_eq_true, iff_false]
    cases severityOf b.attrs <;> simp

theorem lc_data (file : Text) (b : Blocks.Block) (expr : Text) (op : Op) (n : Nat) (d : Diag)
    (h : parseConstraint expr = some (op, n)) (hd : lineCount file b expr = .ok (some d)) :
    d.code = "line-count" ∧
    d.data = [("actual", natText (countLines (content file b))), ("op", op.str.toList), ("expected", natText n)] ∧
    (d.sLine, d.sCol) = (b.tagStart.line, b.tagStart.col) ∧ (d.eLine, d.eCol) = (b.tagEnd.line, b.tagEnd.col) := by
  simp only [lineCount, h] at hd
  by_cases hh : op.holds (countLines (content file b)) n = true
  · simp [hh] at hd
  · simp only [hh, if_false, Bool.false_eq_true] at hd
    cases hs : severityOf b.attrs with
    | error e => simp [hs] at hd
    | ok sev =>
      simp only [hs, Except.ok.injEq, Option.some.injEq] at hd
      subst hd
      simp [tagDiag]

/-- the five comparisons mean what they say -/
theorem holds_def (a n : Nat) :
    (Op.lt.holds a n = true ↔ a < n) ∧ (Op.le.holds a n = true ↔ a ≤ n) ∧ (Op.eq.holds a n = true ↔ a = n) ∧
    (Op.ge.holds a n = true ↔ a ≥ n) ∧ (Op.gt.holds a n = true ↔ a > n) := by
  simp [Op.holds]

/-- a malformed constraint is an error of the validator (never a pass) -/
theorem bad_constraint_errs (file : Text) (b : Blocks.Block) (expr : Text) (h : parseConstraint expr = none) :
    lineCount file b expr = .error .badConstraint := by
  simp [lineCount, h]

/-- operator recognition over the *generated* prefix table: two-character operators win over their
    one-character prefixes, and `<` / `>` are recognised when not followed by `=` -/
theorem stripOp_le (rest : Text) : stripOp ('<' :: '=' :: rest) Gen.constraintPrefixes = some (.le, rest) := by
  simp [stripOp, Gen.constraintPrefixes, stripPrefix, Op.ofName]
theorem stripOp_ge (rest : Text) : stripOp ('>' :: '=' :: rest) Gen.constraintPrefixes = some (.ge, rest) := by
  simp [stripOp, Gen.constraintPrefixes, stripPrefix, Op.ofName]
theorem stripOp_eq (rest : Text) : stripOp ('=' :: '=' :: rest) Gen.constraintPrefixes = some (.eq, rest) := by
  simp [stripOp, Gen.constraintPrefixes, stripPrefix, Op.ofName]
theorem stripOp_lt (rest : Text) (h : ∀ r, rest ≠ '=' :: r) :
    stripOp ('<' :: rest) Gen.constraintPrefixes = some (.lt, rest) := by
  cases rest with
  | nil => simp [stripOp, Gen.constraintPrefixes, stripPrefix, Op.ofName]
  | cons c r =>
    have : c ≠ '=' := fun hc => h r (by rw [hc])
    simp [stripOp, Gen.constraintPrefixes, stripPrefix, Op.ofName, this, Ne.symm this]
theorem stripOp_gt (rest : Text) (h : ∀ r, rest ≠ '=' :: r) :
    stripOp ('>' :: rest) Gen.constraintPrefixes = some (.gt, rest) := by
  cases rest with
  | nil => simp [stripOp, Gen.constraintPrefixes, stripPrefix, Op.ofName]
  | cons c r =>
    have : c ≠ '=' := fun hc => h r (by rw [hc])
    simp [stripOp, Gen.constraintPrefixes, stripPrefix, Op.ofName, this, Ne.symm this]

/-- anything that does not start with an operator is rejected (`5`, `=5`, `=<5`, `!=3`, …) -/
theorem stripOp_none (t : Text) (h1 : ∀ r, t ≠ '<' :: r) (h2 : ∀ r, t ≠ '>' :: r) (h3 : ∀ r, t ≠ '=' :: '=' :: r) :
    stripOp t Gen.constraintPrefixes = none := by
  cases t with
  | nil => simp [stripOp, Gen.constraintPrefixes, stripPrefix]
  | cons c r =>
    have hc1 : c ≠ '<' := fun hc => h1 r (by rw [hc])
    have hc2 : c ≠ '>' := fun hc => h2 r (by rw [hc])
    cases r with
    | nil => simp [stripOp, Gen.constraintPrefixes, stripPrefix, hc1, hc2, Ne.symm hc1, Ne.symm hc2]
    | cons d r' =>
      by_cases hce : c = '='
      · subst hce
        have hd : d ≠ '=' := fun hd => h3 r' (by rw [hd])
        simp [stripOp, Gen.constraintPrefixes, stripPrefix, Ne.symm hd]
      · simp [stripOp, Gen.constraintPrefixes, stripPrefix, hc1, hc2, Ne.symm hc1, Ne.symm hc2, Ne.symm hce]

/-- the number: optional `+`, ASCII digits, below 2^64; everything else is rejected -/
theorem parseUsize_digits (ds : Text) (hne : ds ≠ []) (hd : ds.all isDigit = true) (hlt : digitsVal ds < 2 ^ 64) :
    parseUsize ds = some (digitsVal ds) := by
  cases ds with
  | nil => exact absurd rfl hne
  | cons c r =>
    have hc : c ≠ '+' := by
      intro h; subst h; simp [isDigit] at hd
    unfold parseUsize
    split
    · rename_i r' heq; injection heq with h _; exact absurd h hc
    · rename_i heq
      simp only [List.isEmpty_cons, Bool.false_or, hd, Bool.not_true, Bool.false_eq_true, if_false, hlt, if_true]

theorem parseUsize_overflow (ds : Text) (hne : ds ≠ []) (hp : ∀ r, ds ≠ '+' :: r) (hge : 2 ^ 64 ≤ digitsVal ds) :
    parseUsize ds = none := by
  unfold parseUsize
  split
  · rename_i r; exact absurd rfl (hp r)
  · by_cases h : (ds.isEmpty || !ds.all isDigit) = true
    · simp [h]
    · have : ¬ digitsVal ds < 2 ^ 64 := by omega
      simp [h, this]

/-- an empty block counts zero lines; blank lines do not count -/
theorem count_empty : countLines [] = 0 := rfl

theorem count_def (c : Text) (h : c ≠ []) :
    countLines c = ((lines c).filter (fun l => !(trim l).isEmpty)).length := by
  cases c with
  | nil => exact absurd rfl h
  | cons x xs => simp [countLines]

-- instances: the grammar accepts / rejects what the property lists
example : parseConstraint " <= 5 ".toList = some (.le, 5) := by decide
example : parseConstraint "<5".toList = some (.lt, 5) := by decide
example : parseConstraint "== +7".toList = some (.eq, 7) := by decide
example : parseConstraint ">=18446744073709551615".toList = some (.ge, 18446744073709551615) := by decide
example : parseConstraint "<18446744073709551616".toList = none := by decide
example : parseConstraint "=<5".toList = none := by decide
example : parseConstraint "= 5".toList = none := by decide
example : parseConstraint "5".toList = none := by decide
example : parseConstraint "<= five".toList = none := by decide
example : parseConstraint "< -1".toList = none := by decide
example : parseConstraint "".toList = none := by decide

end Bw.Props.C09
