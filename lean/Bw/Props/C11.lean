import Bw.Pipeline
import Bw.Lemmas.MainFlow
import Bw.Lemmas.Merge
/-! # C11 — exit status and report follow the diagnostics and their severity -/
namespace Bw.Props.C11
open Bw Bw.Pipe Bw.Val

/-- exit 1 ⇔ a validator erred or some diagnostic has severity error -/
theorem exit_iff (out : RunOut) :
    exitCode out = 1 ↔ (∃ ks, out = .err ks) ∨ (∃ ds, out = .ok ds ∧ ∃ d ∈ ds, d.2.severity = 1) := by
  cases out with
  | err ks => simp [exitCode]
  | ok ds =>
    simp only [exitCode]
    by_cases h : ds.any (fun d => d.2.severity = 1) = true
    · simp only [h, if_true, true_iff]
      obtain ⟨d, hd, hs⟩ := List.any_eq_true.1 h
      exact Or.inr ⟨ds, rfl, d, hd, by simpa using hs⟩
    · simp only [h, if_false, Bool.false_eq_true]
      constructor
      · intro h0; cases h0
      · rintro (⟨ks, hk⟩ | ⟨ds', hd, d, hm, hs⟩)
        · cases hk
        · injection hd with hd; subst hd
          exact absurd (List.any_eq_true.2 ⟨d, hm, by simpa using hs⟩) h

theorem exit_is_0_or_1 (out : RunOut) : exitCode out = 0 ∨ exitCode out = 1 := by
  cases out with
  | err ks => simp [exitCode]
  | ok ds => simp only [exitCode]; split <;> simp

/-- warning / info / hint diagnostics never fail the run -/
theorem warning_never_fails (ds : List (Text × Diag)) (h : ∀ d ∈ ds, d.2.severity ≠ 1) : exitCode (.ok ds) = 0 := by
  simp only [exitCode]
  have : ds.any (fun d => d.2.severity = 1) = false := by
    simp only [List.any_eq_false]
    intro d hd
    simpa using h d hd
  simp [this]

/-- no diagnostics ⇒ exit 0 (and nothing is printed: `main` skips `process_violations`) -/
theorem silent_when_empty : exitCode (.ok []) = 0 := rfl

/-- severity names are case-insensitive: spellings that agree up to ASCII letter case get the same level -/
theorem severity_case_insensitive (s t : Text) (h : lower s = lower t) : severityFromStr s = severityFromStr t := by
  have hc : Gen.severityCaseInsensitive = true := rfl
  simp only [severityFromStr, hc, if_true, h]

/-- the four levels of the regenerated enum: numeric severity 1-4, `error` = 1 is the only failing one -/
theorem severity_levels :
    severityFromStr "error".toList = some 1 ∧ severityFromStr "warning".toList = some 2 ∧
    severityFromStr "info".toList = some 3 ∧ severityFromStr "hint".toList = some 4 ∧
    severityFromStr "WARNING".toList = some 2 ∧ severityFromStr "Hint".toList = some 4 := by
  refine ⟨by decide, by decide, by decide, by decide, by decide, by decide⟩

/-- default severity (no attribute) is error -/
theorem default_severity (attrs : List (Text × Text)) (h : Tag.attrGet attrs "severity".toList = none) :
    severityOf attrs = .ok 1 := by
  simp only [severityOf, h]

/-- every diagnostic carries a numeric severity between 1 and 4 -/
theorem severity_range (attrs : List (Text × Text)) (n : Nat) (h : severityOf attrs = .ok n) : 1 ≤ n ∧ n ≤ 4 := by
  unfold severityOf at h
  split at h
  · injection h with h; omega
  · rename_i s hs
    split at h
    · rename_i m hm
      injection h with h
      subst h
      unfold severityFromStr at hm
      have : ∀ e ∈ Gen.severityTable, 1 ≤ e.2 ∧ e.2 ≤ 4 := by decide
      cases hf : Gen.severityTable.find? (fun e =>
          if Gen.severityCaseInsensitive then lower e.1.toList = lower s else e.1.toList = s) with
      | none => rw [hf] at hm; cases hm
      | some e =>
        rw [hf] at hm
        injection hm with hm
        rw [← hm]
        exact this e (List.mem_of_find?_eq_some hf)
    · cases h

/-- **Nothing lost, nothing duplicated**: when no validator errs, the report is the concatenation
    of the per-validator, per-block results -/
theorem report_is_union (re : Regex) (oracle : AsyncOracle) (ctx : List FileCtx) (en dis : List String)
    (ds : List (Text × Diag)) (h : run re oracle ctx en dis = .ok ds) :
    ds = resultDiags (runResults re oracle ctx en dis) := by
  unfold run at h
  simp only at h
  split at h
  · injection h with h; exact h.symm
  · cases h

/-- every diagnostic of every block's verdict appears in the report, exactly as often as it was produced -/
theorem mem_resultDiags (rs : List (Text × Except ErrKind (List Diag))) (p : Text) (l : List Diag) (d : Diag)
    (hr : (p, .ok l) ∈ rs) (hd : d ∈ l) : (p, d) ∈ resultDiags rs := by
  unfold resultDiags
  simp only [List.mem_flatten, List.mem_map]
  exact ⟨l.map (fun d => (p, d)), ⟨(p, .ok l), hr, rfl⟩, List.mem_map.2 ⟨d, hd, rfl⟩⟩

/-- any validator error makes the run an error (whatever the others report) -/
theorem run_err_iff (re : Regex) (oracle : AsyncOracle) (ctx : List FileCtx) (en dis : List String) :
    (∃ ks, run re oracle ctx en dis = .err ks) ↔
      ∃ r ∈ runResults re oracle ctx en dis, ∃ e, r.2 = .error e := by
  unfold run
  simp only
  constructor
  · rintro ⟨ks, h⟩
    split at h
    · cases h
    · rename_i hne
      cases hl : resultErrors (runResults re oracle ctx en dis) with
      | nil => rw [hl] at hne; simp at hne
      | cons e es =>
        have : e ∈ resultErrors (runResults re oracle ctx en dis) := by rw [hl]; simp
        obtain ⟨r, hr, hre⟩ := List.mem_filterMap.1 this
        refine ⟨r, hr, ?_⟩
        cases h2 : r.2 with
        | error e' => exact ⟨e', rfl⟩
        | ok v => rw [h2] at hre; cases hre
  · rintro ⟨r, hr, e, he⟩
    have hm : e ∈ resultErrors (runResults re oracle ctx en dis) :=
      List.mem_filterMap.2 ⟨r, hr, by rw [he]⟩
    split
    · rename_i hemp
      rw [List.isEmpty_iff] at hemp
      rw [hemp] at hm; cases hm
    · exact ⟨_, rfl⟩

/-! ### the per-file merge of validator results (`run_sync_validators`, `run_async_validators`, `run`) and
    `process_violations`, as the code computes them (`Bw.Merge`) -/
open Bw.Merge

/-- **per file, nothing lost, nothing duplicated, nothing displaced**: whatever maps the sync and async validators
    return (maps: distinct keys), the merged result holds for every file the sync validators' lists followed by the async
    validators' lists, each intact and in order -/
theorem merged_per_file_exact (s a : List FileMap) (k : Text)
    (hs : ∀ m ∈ s, (keys m).Nodup) (ha : ∀ m ∈ a, (keys m).Nodup) :
    held (runMerge s a) k = (s.map (held · k)).flatten ++ (a.map (held · k)).flatten :=
  held_runMerge s a k hs ha

/-- each file path is one key of the report -/
theorem merged_one_entry_per_file (s a : List FileMap) : (keys (runMerge s a)).Nodup := nodup_runMerge s a

/-- a file is a key of the report iff some validator reported on it -/
theorem merged_file_listed_iff (s a : List FileMap) (k : Text) :
    k ∈ keys (runMerge s a) ↔ ∃ m ∈ s ++ a, k ∈ keys m := mem_keys_runMerge s a k

/-- as multisets of (file, violation): the merged result is the union of the validators' results -/
theorem merged_is_union (s a : List FileMap) :
    (tagged (runMerge s a)).Perm ((s.map tagged).flatten ++ (a.map tagged).flatten) := tagged_runMerge s a

/-- **the merged report of the pipeline is the report of `run`** (every per-block verdict of every detected validator,
    each once): the theorems about `run` / `runResults` are theorems about what the merge loops produce -/
theorem merged_report_is_run_report (re : Regex) (oracle : AsyncOracle) (ctx : List FileCtx) (en dis : List String) :
    (tagged (runMerged re oracle ctx en dis)).Perm (resultDiags (runResults re oracle ctx en dis)) :=
  tagged_runMerged re oracle ctx en dis

/-- the exit flag `process_violations` computes over the merged map is the exit status of `run`'s report -/
theorem merged_exit (re : Regex) (oracle : AsyncOracle) (ctx : List FileCtx) (en dis : List String)
    (ds : List (Text × Diag)) (h : run re oracle ctx en dis = .ok ds) :
    exitMerged (runMerged re oracle ctx en dis) = exitCode (.ok ds) := exitMerged_eq re oracle ctx en dis ds h

/-- `main` prints a report iff there is at least one diagnostic ("with no diagnostics nothing is printed"), and no file is
    listed with an empty list -/
theorem printed_iff_diagnostics (re : Regex) (oracle : AsyncOracle) (ctx : List FileCtx) (en dis : List String) :
    printsReport (runMerged re oracle ctx en dis) = true ↔ resultDiags (runResults re oracle ctx en dis) ≠ [] :=
  printsReport_iff re oracle ctx en dis

theorem no_empty_entry (re : Regex) (oracle : AsyncOracle) (ctx : List FileCtx) (en dis : List String) :
    ∀ e ∈ runMerged re oracle ctx en dis, e.2 ≠ [] := full_runMerged re oracle ctx en dis

/-- non-vacuity: two validators reporting on the same file and on different files -/
example : held (runMerge [[(['a'], [⟨"keep-sorted", 1, 1, 1, 2, 1, []⟩])], [(['a'], [⟨"line-count", 1, 1, 1, 9, 2, []⟩]), (['b'], [⟨"line-count", 3, 1, 3, 9, 1, []⟩])]] []) ['a']
    = [⟨"keep-sorted", 1, 1, 1, 2, 1, []⟩, ⟨"line-count", 1, 1, 1, 9, 2, []⟩] := by decide

/-! ### the sequencing of `main` (model `Bw.MainFlow`) -/

/-- `list` exits 0 and prints the blocks; it does not depend on the regex engine, the scripts or the endpoint (no validator runs) -/
theorem list_exits_zero (cfg : Tag.Cfg) (re : Regex) (oracle : AsyncOracle) (rawE en dis : List Text) (inp : MainFlow.Input)
    (r : List (Text × List ListReport.Entry)) (h : MainFlow.run cfg re oracle rawE en dis true inp = .listed r) :
    MainFlow.exitStatus (MainFlow.run cfg re oracle rawE en dis true inp) = 0 :=
  MainFlow.list_exits_zero cfg re oracle rawE en dis inp r h

theorem list_runs_no_validator (cfg : Tag.Cfg) (re re' : Regex) (oracle oracle' : AsyncOracle) (rawE en dis : List Text)
    (inp : MainFlow.Input) :
    MainFlow.run cfg re oracle rawE en dis true inp = MainFlow.run cfg re' oracle' rawE en dis true inp :=
  MainFlow.list_independent_of_validators cfg re re' oracle oracle' rawE en dis inp

/-- the exit status of a validation run is decided by the severities in the merged report alone -/
theorem validation_exit_from_report (cfg : Tag.Cfg) (re : Regex) (oracle : AsyncOracle) (rawE en dis : List Text)
    (inp : MainFlow.Input) (m : Merge.FileMap) (x : Nat)
    (h : MainFlow.run cfg re oracle rawE en dis false inp = .validated m x) :
    x = (if Merge.hasErrorSeverity m then 1 else 0) := MainFlow.validate_exit cfg re oracle rawE en dis inp m x h

end Bw.Props.C11
