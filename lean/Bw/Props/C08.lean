import Bw.Validators
/-! # C08 — line-pattern reports a block iff some line fails the regex -/
namespace Bw.Props.C08
open Bw Bw.Val

/-- a line fails: it is non-blank and its trimmed text has no match -/
def Fails (re : Regex) (pat : Text) (l : Text) : Prop :=
  (trim l).isEmpty = false ∧ re.captures pat (trim l) = none

/-- verdict ⇔ ∃ non-blank trimmed non-matching line -/
theorem lp_iff (re : Regex) (pat : Text) (ls : List (Nat × Text)) :
    firstNonMatching re pat ls = none ↔ ∀ x ∈ ls, ¬ Fails re pat x.2 := by
  induction ls with
  | nil => simp [firstNonMatching]
  | cons x rest ih =>
    obtain ⟨i, l⟩ := x
    simp only [firstNonMatching, List.mem_cons, forall_eq_or_imp]
    by_cases h1 : (trim l).isEmpty = true
    · simp [h1, ih, Fails]
    · by_cases h2 : (re.captures pat (trim l)).isSome = true
      · have : re.captures pat (trim l) ≠ none := by
          intro h; rw [h] at h2; cases h2
        simp [h1, h2, ih, Fails, this]
      · have hn : re.captures pat (trim l) = none := by
          cases hc : re.captures pat (trim l) with
          | none => rfl
          | some v => rw [hc] at h2; simp at h2
        simp [h1, Fails, hn]

/-- the violation designates the first failing line, with the trimmed text's byte range -/
theorem lp_first (re : Regex) (pat : Text) (ls : List (Nat × Text)) (k : Key) :
    firstNonMatching re pat ls = some k →
      ∃ pre l post, ls = pre ++ (k.idx, l) :: post ∧ (∀ x ∈ pre, ¬ Fails re pat x.2) ∧ Fails re pat l ∧
        k.key = trim l ∧ k.cs = leadBytes l + 1 ∧ k.ce = k.cs + ulen (trim l) - 1 := by
  induction ls with
  | nil => simp [firstNonMatching]
  | cons x rest ih =>
    obtain ⟨i, l⟩ := x
    simp only [firstNonMatching]
    by_cases h1 : (trim l).isEmpty = true
    · simp only [h1, if_true]
      intro h
      obtain ⟨pre, l', post, hs, hp, hf, hk⟩ := ih h
      refine ⟨(i, l) :: pre, l', post, by simp [hs], ?_, hf, hk⟩
      intro y hy
      rcases List.mem_cons.1 hy with rfl | hy
      · simp [Fails, h1]
      · exact hp y hy
    · by_cases h2 : (re.captures pat (trim l)).isSome = true
      · simp only [h1, h2, if_true, if_false, Bool.false_eq_true]
        intro h
        obtain ⟨pre, l', post, hs, hp, hf, hk⟩ := ih h
        refine ⟨(i, l) :: pre, l', post, by simp [hs], ?_, hf, hk⟩
        intro y hy
        rcases List.mem_cons.1 hy with rfl | hy
        · intro hf'
          rw [hf'.2] at h2; cases h2
        · exact hp y hy
      · simp only [h1, h2, if_false, Bool.false_eq_true]
        intro h
        injection h with h
        subst h
        have hn : re.captures pat (trim l) = none := by
          cases hc : re.captures pat (trim l) with
          | none => rfl
          | some v => rw [hc] at h2; simp at h2
        exact ⟨[], l, rest, rfl, by simp, ⟨by simpa using h1, hn⟩, rfl, rfl, rfl⟩

/-- blank lines never count -/
theorem blank_never (re : Regex) (pat : Text) (l : Text) (h : (trim l).isEmpty = true) : ¬ Fails re pat l := by
  simp [Fails, h]

/-- an uncompilable pattern is an error whatever the content -/
theorem bad_regex_errs (re : Regex) (file : Text) (b : Blocks.Block) (pat : Text) (h : re.compiles pat = false) :
    linePattern re file b pat = .error .badRegex := by
  simp [linePattern, h]

theorem mem_zipIdx {α} (l : List α) (x : Nat × α) (h : x ∈ zipIdx l) : x.2 ∈ l := by
  unfold zipIdx at h
  exact (List.of_mem_zip h).2

theorem zipIdx_mem {α} (l : List α) (a : α) (h : a ∈ l) : ∃ i, (i, a) ∈ zipIdx l := by
  obtain ⟨i, hi, rfl⟩ := List.getElem_of_mem h
  refine ⟨i, ?_⟩
  unfold zipIdx
  rw [List.mem_iff_getElem]
  refine ⟨i, by simp [hi], ?_⟩
  simp

/-- **block level**: a block with a compilable `line-pattern` passes exactly when no line of its content fails -/
theorem lp_block_iff (re : Regex) (file : Text) (b : Blocks.Block) (pat : Text) (hc : re.compiles pat = true) :
    linePattern re file b pat = .ok none ↔ ∀ l ∈ lines (content file b), ¬ Fails re pat l := by
  have hq : firstNonMatching re pat (zipIdx (lines (content file b))) = none ↔
      ∀ l ∈ lines (content file b), ¬ Fails re pat l := by
    rw [lp_iff]
    constructor
    · intro h l hl
      obtain ⟨i, hi⟩ := zipIdx_mem _ l hl
      exact h (i, l) hi
    · intro h x hx
      exact h x.2 (mem_zipIdx _ x hx)
  rw [← hq]
  simp only [linePattern, hc, Bool.not_true, Bool.false_eq_true, if_false]
  cases hf : firstNonMatching re pat (zipIdx (lines (content file b))) with
  | none => simp [dupVerdict, finishKey]
  | some k =>
    simp only [dupVerdict, finishKey]
    cases severityOf b.attrs <;> simp

/-- … and otherwise it yields exactly one `line-pattern` diagnostic (or the severity attribute's error) -/
theorem lp_block_viol (re : Regex) (file : Text) (b : Blocks.Block) (pat : Text) (hc : re.compiles pat = true) (sev : Nat)
    (hs : severityOf b.attrs = .ok sev) (l : Text) (hl : l ∈ lines (content file b)) (hf : Fails re pat l) :
    ∃ k, firstNonMatching re pat (zipIdx (lines (content file b))) = some k ∧
      linePattern re file b pat = .ok (some (keyDiag "line-pattern" b k sev [("pattern", pat)])) := by
  cases hq : firstNonMatching re pat (zipIdx (lines (content file b))) with
  | none =>
    obtain ⟨i, hi⟩ := zipIdx_mem _ l hl
    exact absurd hf ((lp_iff re pat _).1 hq (i, l) hi)
  | some k =>
    refine ⟨k, rfl, ?_⟩
    simp only [linePattern, hc, Bool.not_true, Bool.false_eq_true, if_false, hq, dupVerdict, finishKey, hs]

example : ∃ re : Regex, firstNonMatching re "x".toList [(0, " ".toList), (1, " ab ".toList)]
    = some ⟨1, "ab".toList, 2, 3⟩ := ⟨⟨fun _ => true, fun _ _ => none⟩, by decide⟩

end Bw.Props.C08
