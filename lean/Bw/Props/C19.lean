import Bw.Props.C20
/-! # C19 — check-ai: request is faithful, reply decides, endpoint faults fail closed -/
namespace Bw.Props.C19
open Bw Bw.Pipe Bw.Val Bw.Blocks

/-- **reply classification** over the literals regenerated from the source: a reply passes iff it is
    `OK` or `OK.` up to ASCII letter case -/
theorem ok_reply (r : Text) : isOkReply r = true ↔ lower r = "ok".toList ∨ lower r = "ok.".toList := by
  have e1 : "ok".toList = ['o', 'k'] := rfl
  have e2 : "ok.".toList = ['o', 'k', '.'] := rfl
  rw [e1, e2]
  simp only [isOkReply, Gen.aiOkReplies, List.any_cons, List.any_nil, Bool.or_false, Bool.or_eq_true, decide_eq_true_eq]
  have h1 : lower "OK".toList = ['o', 'k'] := by decide
  have h2 : lower "OK.".toList = ['o', 'k', '.'] := by decide
  rw [h1, h2]
  constructor
  · rintro (h | h)
    · exact Or.inl h.symm
    · exact Or.inr h.symm
  · rintro (h | h)
    · exact Or.inl h.symm
    · exact Or.inr h.symm

example : isOkReply "OK".toList = true ∧ isOkReply "ok".toList = true ∧ isOkReply "Ok.".toList = true ∧ isOkReply "oK.".toList = true := by decide
example : isOkReply " OK".toList = false ∧ isOkReply "OK\n".toList = false ∧ isOkReply "OK!".toList = false ∧
    isOkReply "OK..".toList = false ∧ isOkReply "OKAY".toList = false ∧ isOkReply "NOT OK".toList = false ∧ isOkReply [] = false := by decide

/-- the user message is the fixed frame with the condition and the selected content inserted verbatim -/
theorem user_message_def (cond content : Text) :
    aiUserMessage cond content = "CONDITION:\n".toList ++ cond ++ "\n\nBLOCK (formatting preserved):\n".toList ++ content := by
  have h1 : splitAt "{condition}".toList Gen.aiUserFrame.toList =
      some ("CONDITION:\n".toList, "\n\nBLOCK (formatting preserved):\n{block_content}".toList) := by decide +kernel
  have h2 : splitAt "{block_content}".toList "\n\nBLOCK (formatting preserved):\n{block_content}".toList =
      some ("\n\nBLOCK (formatting preserved):\n".toList, []) := by decide +kernel
  simp only [aiUserMessage, h1, h2, List.append_nil]

/-- condition and content are carried verbatim: equal messages with equally long conditions have equal parts -/
theorem user_message_injective (c1 c2 x1 x2 : Text) (hl : c1.length = c2.length)
    (h : aiUserMessage c1 x1 = aiUserMessage c2 x2) : c1 = c2 ∧ x1 = x2 := by
  rw [user_message_def, user_message_def] at h
  simp only [List.append_assoc] at h
  have h' := List.append_cancel_left h
  have := List.append_inj h' hl
  exact ⟨this.1, List.append_cancel_left this.2⟩

/-- a passing reply yields no diagnostic; any other reply yields one `check-ai` diagnostic quoting it -/
theorem reply_decides (re : Regex) (o : AsyncOracle) (f : FileCtx) (b : BlockCtx) (a c r : Text) (sev : Nat)
    (h1 : Tag.attrGet b.block.attrs "check-ai".toList = some a) (h2 : (trim a).isEmpty = false)
    (hc : blockContent re f.text b.block "check-ai-pattern" .aiError = .ok c)
    (ho : o "check-ai" f.path b.block = .reply r) (hs : severityOf b.block.attrs = .ok sev) :
    checkBlock re o "check-ai" f b =
      if isOkReply r then .ok none
      else .ok (some (tagDiag "check-ai" b.block sev [("condition", trim a), ("ai_message", r)])) := by
  have e' : "check-ai".toList = ['c', 'h', 'e', 'c', 'k', '-', 'a', 'i'] := rfl
  rw [e'] at h1
  simp only [checkBlock, h1, h2, hc, ho, hs]
  split <;> simp_all

/-- **faults fail closed**: a request answered by a fault (missing key, refused connection, 4xx, malformed /
    empty / content-less body, cut connection - the outcome oracle says `fail`) is an error of the block … -/
theorem fault_is_error (re : Regex) (o : AsyncOracle) (f : FileCtx) (b : BlockCtx) (a c : Text) (e : ErrKind)
    (h1 : Tag.attrGet b.block.attrs "check-ai".toList = some a) (h2 : (trim a).isEmpty = false)
    (hc : blockContent re f.text b.block "check-ai-pattern" .aiError = .ok c)
    (ho : o "check-ai" f.path b.block = .fail e) : checkBlock re o "check-ai" f b = .error e := by
  have e' : "check-ai".toList = ['c', 'h', 'e', 'c', 'k', '-', 'a', 'i'] := rfl
  rw [e'] at h1
  simp [checkBlock, h1, h2, hc, ho]

/-- … and one erring block fails the whole run with exit status 1, for every completion order -/
theorem fault_fails_closed (re : Regex) (o : AsyncOracle) (ctx ctx' : List FileCtx) (hperm : ctx.Perm ctx') (en dis : List String)
    (r : Text × Except ErrKind (List Diag)) (hr : r ∈ runResults re o ctx en dis) (e : ErrKind) (he : r.2 = .error e) :
    exitCode (run re o ctx' en dis) = 1 := by
  have h1 : ∃ ks, run re o ctx en dis = .err ks := (C11.run_err_iff re o ctx en dis).2 ⟨r, hr, e, he⟩
  obtain ⟨ks, hk⟩ := (C20.err_perm re o ctx ctx' hperm en dis).1 h1
  rw [hk]; rfl

/-- one request per block with a non-blank condition: blocks without `check-ai` send nothing -/
theorem no_attr_no_request (re : Regex) (f : FileCtx) (h : ∀ b ∈ f.blocks, Tag.attrGet b.block.attrs "check-ai".toList = none) :
    aiRequests re [f] = [] := by
  simp only [aiRequests, List.map_cons, List.map_nil, List.flatten_cons, List.flatten_nil, List.append_nil]
  rw [List.filterMap_eq_nil_iff]
  intro b hb
  rw [h b hb]

theorem requests_at_most_blocks (re : Regex) (f : FileCtx) : (aiRequests re [f]).length ≤ f.blocks.length := by
  simp only [aiRequests, List.map_cons, List.map_nil, List.flatten_cons, List.flatten_nil, List.append_nil]
  exact List.length_filterMap_le _ _

/-- a block sends a request: it carries `check-ai` with a non-blank condition and its content selection succeeds -/
def Sends (re : Regex) (f : FileCtx) (b : BlockCtx) : Bool :=
  match Tag.attrGet b.block.attrs "check-ai".toList with
  | none => false
  | some a => !(trim a).isEmpty && (match blockContent re f.text b.block "check-ai-pattern" .aiError with
      | .error _ => false
      | .ok _ => true)

theorem len_filterMap {α β} (g : α → Option β) (p : α → Bool) (h : ∀ a, (g a).isSome = p a) (l : List α) :
    (l.filterMap g).length = (l.filter p).length := by
  induction l with
  | nil => rfl
  | cons a as ih =>
    have := h a
    cases hg : g a with
    | none => rw [hg] at this; simp [List.filterMap_cons, List.filter_cons, hg, ← this, ih]
    | some x => rw [hg] at this; simp [List.filterMap_cons, List.filter_cons, hg, ← this, ih]

/-- **exactly one request per sending block**, over any number of files -/
theorem requests_exact (re : Regex) (ctx : List FileCtx) :
    (aiRequests re ctx).length = ((ctx.map (fun f => (f.blocks.filter (Sends re f)).length)).sum) := by
  induction ctx with
  | nil => rfl
  | cons f fs ih =>
    simp only [aiRequests, List.map_cons, List.flatten_cons, List.length_append, List.sum_cons] at ih ⊢
    rw [ih]
    congr 1
    apply len_filterMap
    intro b
    unfold Sends
    cases Tag.attrGet b.block.attrs "check-ai".toList with
    | none => rfl
    | some a =>
      by_cases h2 : (trim a).isEmpty = true
      · simp [h2]
      · simp only [h2, if_false, Bool.not_false, Bool.true_and, Bool.false_eq_true]
        cases blockContent re f.text b.block "check-ai-pattern" .aiError <;> rfl

/-- the message a sending block sends is the frame around its own condition and selected content -/
theorem request_of_block (re : Regex) (f : FileCtx) (b : BlockCtx) (a c : Text) (hb : b ∈ f.blocks)
    (h1 : Tag.attrGet b.block.attrs "check-ai".toList = some a) (h2 : (trim a).isEmpty = false)
    (h3 : blockContent re f.text b.block "check-ai-pattern" .aiError = .ok c) :
    aiUserMessage a c ∈ aiRequests re [f] := by
  simp only [aiRequests, List.map_cons, List.map_nil, List.flatten_cons, List.flatten_nil, List.append_nil, List.mem_filterMap]
  exact ⟨b, hb, by rw [h1]; simp only [h2, h3, Bool.false_eq_true, if_false]⟩

end Bw.Props.C19
