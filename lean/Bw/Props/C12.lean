import Bw.Props.C03
/-! # C12 — unbalanced block tags are a hard error, never a silent skip -/
namespace Bw.Props.C12
open Bw Bw.Blocks Bw.Pipe Bw.Props.C03

/-- starts minus stops -/
def balance : List Ev → Int
  | [] => 0
  | .start _ :: w => balance w + 1
  | .stop .. :: w => balance w - 1

theorem balance_append (a b : List Ev) : balance (a ++ b) = balance a + balance b := by
  induction a with
  | nil => simp [balance]
  | cons e a ih => cases e <;> simp [balance, ih] <;> omega

theorem depth_balance (w : List Ev) : ∀ d r, depth w d = some r → (r : Int) = d + balance w := by
  induction w with
  | nil => intro d r h; simp [depth] at h; simp [balance, h]
  | cons e w ih =>
    intro d r h
    cases e with
    | start o =>
      have := ih (d + 1) r (by simpa [depth] using h)
      simp [balance]; omega
    | stop c idx s =>
      cases d with
      | zero => simp [depth] at h
      | succ d =>
        have := ih d r (by simpa [depth] using h)
        simp [balance]; omega

/-- a tag sequence that yields blocks has as many starts as stops -/
theorem ok_balanced (w : List Ev) (out : List Block) (h : pair w [] [] = .ok out) : balance w = 0 := by
  have hd := (pair_ok_iff_depth w [] []).1 ⟨out, h⟩
  have := depth_balance w 0 0 (by simpa using hd)
  simpa using this.symm

theorem not_ok_of_unbalanced (w : List Ev) (h : balance w ≠ 0) : ∃ e, pair w [] [] = .error e := by
  cases hp : pair w [] [] with
  | ok out => exact absurd (ok_balanced w out hp) h
  | error e => exact ⟨e, rfl⟩

/-- **Deleting any one tag** of a sequence that balances makes the parse an error -
    whichever tag it is, at any nesting depth. -/
theorem delete_any_tag_errs (pre post : List Ev) (e : Ev) (out : List Block)
    (h : pair (pre ++ e :: post) [] [] = .ok out) : ∃ err, pair (pre ++ post) [] [] = .error err := by
  have hb := ok_balanced _ out h
  apply not_ok_of_unbalanced
  rw [balance_append] at hb ⊢
  cases e <;> simp [balance] at hb <;> omega

/-- **Duplicating any one tag** makes the parse an error. -/
theorem duplicate_any_tag_errs (pre post : List Ev) (e : Ev) (out : List Block)
    (h : pair (pre ++ e :: post) [] [] = .ok out) : ∃ err, pair (pre ++ e :: e :: post) [] [] = .error err := by
  have hb := ok_balanced _ out h
  apply not_ok_of_unbalanced
  rw [balance_append] at hb ⊢
  cases e <;> simp [balance] at hb ⊢ <;> omega

/-- never a guessed pairing: blocks are only returned for words that never dip below depth 0 and end at 0 -/
theorem no_guess (w : List Ev) (out : List Block) (h : pair w [] [] = .ok out) : depth w 0 = some 0 := by
  simpa using (pair_ok_iff_depth w [] []).1 ⟨out, h⟩

/-- a parse error of the comment list is an error of `parse_blocks_from_comments` -/
theorem parse_err_propagates (cfg : Tag.Cfg) (cs : List Comment) (e : Blocks.Err)
    (h : pair (events cfg cs) [] [] = .error e) : parseBlocksFromComments cfg cs = .error e := by
  simp [parseBlocksFromComments, h, Except.map]

/-- **The run fails**: if any file in scope yields an error, the context is an error naming that file,
    whatever the other files contain; otherwise no file is dropped silently. -/
theorem err_propagates (rs : List (Text × Except PErr (Option FileCtx))) (p : Text) (e : PErr)
    (h : (p, .error e) ∈ rs) : ∃ errs, contextOf rs = .error errs ∧ (p, e) ∈ errs := by
  have hm : (p, e) ∈ errorsOf rs := List.mem_filterMap.2 ⟨(p, .error e), h, rfl⟩
  have hne : (errorsOf rs).isEmpty = false := by
    cases hl : errorsOf rs with
    | nil => rw [hl] at hm; cases hm
    | cons x xs => rfl
  exact ⟨errorsOf rs, by simp [contextOf, hne], hm⟩

theorem ok_only_if_all_ok (rs : List (Text × Except PErr (Option FileCtx))) (ctx : List FileCtx)
    (h : contextOf rs = .ok ctx) : ∀ r ∈ rs, ∃ v, r.2 = .ok v := by
  intro r hr
  cases hv : r.2 with
  | ok v => exact ⟨v, rfl⟩
  | error e =>
    obtain ⟨errs, he, _⟩ := err_propagates rs r.1 e (by rw [← hv]; exact hr)
    rw [he] at h; cases h

/-- exit status is non-zero whenever validation ends in an error -/
theorem run_err_exit (ks : List Val.ErrKind) : exitCode (.err ks) = 1 := rfl

end Bw.Props.C12
