import Bw.Validators
import Bw.Lemmas.NumRat
/-! # C06 — keep-sorted reports a block iff its keys are out of order

Theorems about `Bw.Val.sortLoop` / `keysOf` / `keepSorted` (the model of
`KeepSortedValidator::validate`), for every key list, every comparator and every block. -/
namespace Bw.Props.C06
open Bw Bw.Val

/-- Specification: walk the adjacent pairs; the first pair that errs or is out of order decides. -/
def firstEvent (cmp : Text → Text → Except ErrKind Ordering) (bad : Ordering) : List Key → Verdict
  | [] => .pass
  | [_] => .pass
  | p :: k :: rest =>
    match cmp p.key k.key with
    | .error e => .err e
    | .ok o => if o = bad then .viol k else firstEvent cmp bad (k :: rest)

theorem sortLoop_some (cmp : Text → Text → Except ErrKind Ordering) (bad : Ordering) (p : Key) (ks : List Key) :
    sortLoop cmp bad (some p) ks = firstEvent cmp bad (p :: ks) := by
  induction ks generalizing p with
  | nil => simp [sortLoop, firstEvent]
  | cons k rest ih =>
    simp only [sortLoop, firstEvent]
    cases cmp p.key k.key with
    | error e => rfl
    | ok o =>
      by_cases h : o = bad
      · simp [h]
      · simp [h, ih k]

/-- the code's loop is the "first adjacent event" specification, for every comparator and key list -/
theorem ks_loop_is_first_event (cmp : Text → Text → Except ErrKind Ordering) (bad : Ordering) (ks : List Key) :
    sortLoop cmp bad none ks = firstEvent cmp bad ks := by
  cases ks with
  | nil => simp [sortLoop, firstEvent]
  | cons k rest => simp only [sortLoop]; exact sortLoop_some cmp bad k rest

/-- some adjacent pair is strictly out of order -/
def OutOfOrder (cmp : Text → Text → Ordering) (bad : Ordering) : List Key → Prop
  | [] => False
  | [_] => False
  | p :: k :: rest => cmp p.key k.key = bad ∨ OutOfOrder cmp bad (k :: rest)

/-- verdict ⇔ ∃ adjacent strictly-out-of-order pair (total comparators, e.g. lexicographic) -/
theorem ks_pass_iff (cmp : Text → Text → Ordering) (bad : Ordering) (ks : List Key) :
    sortLoop (fun a b => .ok (cmp a b)) bad none ks = .pass ↔ ¬ OutOfOrder cmp bad ks := by
  rw [ks_loop_is_first_event]
  induction ks with
  | nil => simp [firstEvent, OutOfOrder]
  | cons p rest ih =>
    cases rest with
    | nil => simp [firstEvent, OutOfOrder]
    | cons k rest =>
      simp only [firstEvent, OutOfOrder]
      by_cases h : cmp p.key k.key = bad
      · simp [h]
      · simp [h, ih]

/-- the reported key is the second element of the *first* out-of-order adjacent pair -/
theorem ks_reports_first (cmp : Text → Text → Ordering) (bad : Ordering) (ks : List Key) (k : Key) :
    sortLoop (fun a b => .ok (cmp a b)) bad none ks = .viol k ↔
      ∃ pre p post, ks = pre ++ p :: k :: post ∧ cmp p.key k.key = bad ∧ ¬ OutOfOrder cmp bad (pre ++ [p]) := by
  rw [ks_loop_is_first_event]
  induction ks with
  | nil => simp [firstEvent]
  | cons a rest ih =>
    cases rest with
    | nil =>
      simp only [firstEvent]
      constructor
      · intro h; cases h
      · rintro ⟨pre, p, post, h, _⟩
        have := congrArg List.length h
        simp at this; omega
    | cons b rest =>
      simp only [firstEvent]
      by_cases hbad : cmp a.key b.key = bad
      · simp only [hbad, if_true]
        constructor
        · intro h
          cases h
          exact ⟨[], a, rest, rfl, hbad, by simp [OutOfOrder]⟩
        · rintro ⟨pre, p, post, h, hc, hno⟩
          cases pre with
          | nil =>
            simp at h
            obtain ⟨rfl, rfl, _⟩ := h
            rfl
          | cons x pre =>
            exfalso
            simp at h
            obtain ⟨rfl, h⟩ := h
            cases pre with
            | nil =>
              simp at h
              obtain ⟨rfl, _⟩ := h
              simp [OutOfOrder] at hno
              exact hno hbad
            | cons y pre =>
              simp at h
              obtain ⟨rfl, _⟩ := h
              simp [OutOfOrder] at hno
              exact hno.1 hbad
      · simp only [hbad, if_false]
        rw [ih]
        constructor
        · rintro ⟨pre, p, post, h, hc, hno⟩
          refine ⟨a :: pre, p, post, by simp [h], hc, ?_⟩
          cases pre with
          | nil =>
            simp at h
            obtain ⟨rfl, _⟩ := h
            simp [OutOfOrder, hbad]
          | cons x pre =>
            simp at h
            obtain ⟨rfl, _⟩ := h
            simp only [List.cons_append, OutOfOrder]
            rintro (h' | h')
            · exact hbad h'
            · exact hno h'
        · rintro ⟨pre, p, post, h, hc, hno⟩
          cases pre with
          | nil =>
            simp at h
            obtain ⟨rfl, rfl, _⟩ := h
            exact absurd hc hbad
          | cons x pre =>
            simp at h
            obtain ⟨rfl, h⟩ := h
            refine ⟨pre, p, post, h, hc, ?_⟩
            cases pre with
            | nil =>
              simp [OutOfOrder]
            | cons y pre =>
              simp only [List.cons_append, OutOfOrder] at hno
              intro h'
              exact hno (Or.inr h')

/-- equal neighbours are in order: a list of equal keys passes in both directions -/
theorem equal_ok (cmp : Text → Text → Ordering) (hrefl : ∀ a, cmp a a = .eq) (bad : Ordering) (hb : bad ≠ .eq)
    (k : Text) (ks : List Key) (h : ∀ x ∈ ks, x.key = k) :
    sortLoop (fun a b => .ok (cmp a b)) bad none ks = .pass := by
  rw [ks_pass_iff]
  induction ks with
  | nil => simp [OutOfOrder]
  | cons a rest ih =>
    cases rest with
    | nil => simp [OutOfOrder]
    | cons b rest =>
      simp only [OutOfOrder]
      rintro (h' | h')
      · rw [h a (by simp), h b (by simp), hrefl] at h'
        exact hb h'.symm
      · exact ih (fun x hx => h x (by simp [hx])) h'

/-- keys without a pattern = the trimmed non-blank lines, each with its line index -/
theorem keys_def_plain (re : Regex) (ls : List Text) :
    (keysOf re none ls).map (fun k => (k.idx, k.key)) =
      (zipIdx ls).filterMap (fun (i, l) => if (trim l).isEmpty then none else some (i, trim l)) := by
  unfold keysOf
  rw [List.map_filterMap]
  congr 1
  funext ⟨i, l⟩
  simp only [keyOf]
  by_cases h : (trim l).isEmpty = true <;> simp [h]

/-- keys with a pattern = `value` group (else whole match) of each matching line; others are skipped -/
theorem keys_def_pattern (re : Regex) (p : Text) (ls : List Text) :
    (keysOf re (some p) ls).map (fun k => (k.idx, k.key)) =
      (zipIdx ls).filterMap (fun (i, l) => (re.captures p l).map (fun lm =>
        (i, sliceBytes (lm.value.getD lm.whole).1 (lm.value.getD lm.whole).2 l))) := by
  unfold keysOf
  rw [List.map_filterMap]
  congr 1
  funext ⟨i, l⟩
  simp only [keyOf]
  cases re.captures p l <;> simp

/-- lexicographic comparison: `eq` exactly on equal strings -/
theorem lexCmp_eq_iff (a b : Text) : lexCmp a b = .eq ↔ a = b := by
  induction a generalizing b with
  | nil => cases b <;> simp [lexCmp]
  | cons x xs ih =>
    cases b with
    | nil => simp [lexCmp]
    | cons y ys =>
      simp only [lexCmp]
      by_cases h1 : x.toNat < y.toNat
      · simp only [h1, if_true]
        constructor
        · intro h; cases h
        · intro h; injection h with h _; rw [h] at h1; omega
      · by_cases h2 : y.toNat < x.toNat
        · simp only [h1, h2, if_true, if_false]
          constructor
          · intro h; cases h
          · intro h; injection h with h _; rw [h] at h2; omega
        · have hxy : x = y := Char.toNat_inj.1 (by omega)
          simp [ih, hxy]

/-- lexicographic comparison is antisymmetric: swapping the arguments swaps the verdict -/
theorem lexCmp_swap (a b : Text) : lexCmp b a = (lexCmp a b).swap := by
  induction a generalizing b with
  | nil => cases b <;> simp [lexCmp, Ordering.swap]
  | cons x xs ih =>
    cases b with
    | nil => simp [lexCmp, Ordering.swap]
    | cons y ys =>
      simp only [lexCmp]
      by_cases h1 : x.toNat < y.toNat
      · have : ¬ y.toNat < x.toNat := by omega
        simp [h1, this, Ordering.swap]
      · by_cases h2 : y.toNat < x.toNat
        · simp [h1, h2, Ordering.swap]
        · simp [h1, h2, ih]

/-- direction: blank ⇒ ascending -/
theorem direction_blank (dir : Text) (h : (trim dir).isEmpty = true) : normDirection dir = some "asc".toList := by
  simp [normDirection, h]

/-- direction: any letter case of asc / desc is accepted as that direction -/
theorem direction_known (dir : Text) (h : ¬ (trim dir).isEmpty = true)
    (h2 : lower dir = "asc".toList ∨ lower dir = "desc".toList) : normDirection dir = some (lower dir) := by
  have e1 : "asc".toList = ['a', 's', 'c'] := rfl
  have e2 : "desc".toList = ['d', 'e', 's', 'c'] := rfl
  rw [e1, e2] at h2
  simp only [normDirection, h, e1, e2]
  simp [h2]

/-- direction: anything else is an error of the validator -/
theorem direction_error (re : Regex) (file : Text) (b : Blocks.Block) (dir : Text)
    (h1 : ¬ (trim dir).isEmpty = true) (h2 : lower dir ≠ "asc".toList) (h3 : lower dir ≠ "desc".toList) :
    keepSorted re file b dir = .error .badDirection := by
  have e1 : "asc".toList = ['a', 's', 'c'] := rfl
  have e2 : "desc".toList = ['d', 'e', 's', 'c'] := rfl
  rw [e1] at h2; rw [e2] at h3
  have : normDirection dir = none := by
    simp only [normDirection, h1, e1, e2]
    simp [h2, h3]
  simp [keepSorted, this]

/-- ascending flags `Greater`, descending flags `Less` -/
theorem bad_ordering_def : badOrdering "asc".toList = .gt ∧ badOrdering "desc".toList = .lt := by
  constructor <;> decide

/-- at most one diagnostic per block and rule, carrying the rule's code and the key's range on
    the key's own content line -/
theorem finish_viol (code : String) (b : Blocks.Block) (data) (k : Key) (d : Diag)
    (h : finishKey code b data (.viol k) = .ok (some d)) :
    d.code = code ∧ d.sLine = b.cPosStart.line + k.idx ∧ d.eLine = d.sLine ∧
    d.eCol - d.sCol = k.ce - k.cs := by
  simp only [finishKey] at h
  cases hs : severityOf b.attrs with
  | error e => simp [hs] at h
  | ok sev =>
    simp only [hs, Except.ok.injEq, Option.some.injEq] at h
    subst h
    simp [keyDiag]
    omega

theorem finish_pass (code : String) (b : Blocks.Block) (data) : finishKey code b data .pass = .ok none := rfl

theorem finish_err (code : String) (b : Blocks.Block) (data) (e : ErrKind) :
    finishKey code b data (.err e) = .error e := rfl

-- non-vacuity: a concrete out-of-order block is flagged at the right key
/-! ### numeric format: the comparison is the order of the numbers the keys denote -/
open Bw.Num in
/-- finite keys compare as the rational numbers they denote (m·10^e, exactly - no rounding in the model);
    ties are broken the `f64::total_cmp` way: -0 sorts before +0 -/
theorem numeric_lt_iff (na nb : Bool) (m₁ m₂ : Nat) (e₁ e₂ : Int) :
    totalCmp (.fin na m₁ e₁) (.fin nb m₂ e₂) = .lt ↔
      svalue na m₁ e₁ < svalue nb m₂ e₂ ∨ (svalue na m₁ e₁ = svalue nb m₂ e₂ ∧ na = true ∧ nb = false) := by
  have h1 := value_nonneg m₁ e₁
  have h2 := value_nonneg m₂ e₂
  cases na <;> cases nb
  · simp only [totalCmp, cls, svalue, ne_eq, not_true_eq_false, if_false, magCmp_lt]; simp
  · simp only [totalCmp, cls, svalue]
    have : cmpNat 3 2 = .gt := by decide
    simp [this]; grind
  · simp only [totalCmp, cls, svalue]
    have : cmpNat 2 3 = .lt := by decide
    simp [this]; grind
  · simp only [totalCmp, cls, svalue, ne_eq, not_true_eq_false, if_false, magCmp_lt]
    simp [Rat.neg_lt_neg_iff]

open Bw.Num in
theorem numeric_gt_iff (na nb : Bool) (m₁ m₂ : Nat) (e₁ e₂ : Int) :
    totalCmp (.fin na m₁ e₁) (.fin nb m₂ e₂) = .gt ↔
      svalue nb m₂ e₂ < svalue na m₁ e₁ ∨ (svalue na m₁ e₁ = svalue nb m₂ e₂ ∧ na = false ∧ nb = true) := by
  have h1 := value_nonneg m₁ e₁
  have h2 := value_nonneg m₂ e₂
  cases na <;> cases nb
  · simp only [totalCmp, cls, svalue, ne_eq, not_true_eq_false, if_false, magCmp_gt]; simp
  · simp only [totalCmp, cls, svalue]
    have : cmpNat 3 2 = .gt := by decide
    simp [this]; grind
  · simp only [totalCmp, cls, svalue]
    have : cmpNat 2 3 = .lt := by decide
    simp [this]; grind
  · simp only [totalCmp, cls, svalue, ne_eq, not_true_eq_false, if_false, magCmp_gt]
    simp [Rat.neg_lt_neg_iff]

open Bw.Num in
/-- equal numbers of the same sign are in order in both directions (`1.0`, `1`, `10e-1`) -/
theorem numeric_eq_iff (n : Bool) (m₁ m₂ : Nat) (e₁ e₂ : Int) :
    totalCmp (.fin n m₁ e₁) (.fin n m₂ e₂) = .eq ↔ svalue n m₁ e₁ = svalue n m₂ e₂ := by
  cases n
  · simp only [totalCmp, cls, svalue, ne_eq, not_true_eq_false, if_false, magCmp_eq]; simp
  · simp only [totalCmp, cls, svalue, ne_eq, not_true_eq_false, if_false, magCmp_eq]
    simp only [Bool.true_eq_false, if_true]
    constructor
    · intro h; rw [h]
    · intro h; grind

open Bw.Num in
/-- infinities and NaNs sit outside every finite number, in `total_cmp`'s rank order -/
theorem numeric_special (a b : Num) (h : cls a ≠ cls b) : totalCmp a b = cmpNat (cls a) (cls b) := by
  simp [totalCmp, h]

/-- the pattern a block's `keep-sorted-pattern` attribute selects (absent or empty: none) -/
def patternOf (b : Blocks.Block) : Option Text :=
  if ((Tag.attrGet b.attrs "keep-sorted-pattern".toList).getD []).isEmpty then none
  else some ((Tag.attrGet b.attrs "keep-sorted-pattern".toList).getD [])

/-- **block level** (lexicographic format): with a valid direction and a usable pattern the block passes
    exactly when no adjacent pair of its keys is strictly out of order -/
theorem ks_block_iff_lex (re : Regex) (file : Text) (b : Blocks.Block) (dir norm : Text)
    (hd : normDirection dir = some norm) (hf : sortFormat b.attrs = some false)
    (hp : patternOf b = none ∨ re.compiles ((Tag.attrGet b.attrs "keep-sorted-pattern".toList).getD []) = true) :
    keepSorted re file b dir = .ok none ↔
      ¬ OutOfOrder lexCmp (badOrdering norm) (keysOf re (patternOf b) (lines (content file b))) := by
  rw [← ks_pass_iff]
  have hg : ((patternOf b).isSome && !re.compiles ((Tag.attrGet b.attrs "keep-sorted-pattern".toList).getD [])) = false := by
    rcases hp with h | h
    · simp [h]
    · rw [h]; simp
  unfold keepSorted
  rw [hd]
  simp only [hf]
  unfold patternOf at hg
  unfold patternOf
  simp only [hg, Bool.false_eq_true, if_false]
  have hc : sortCmp false = fun a b => .ok (lexCmp a b) := by
    funext a b; simp [sortCmp]
  rw [hc]
  generalize sortLoop (fun a b => Except.ok (lexCmp a b)) (badOrdering norm) none _ = v
  cases v with
  | pass => simp [finishKey]
  | err e => simp [finishKey]
  | viol k =>
    simp only [finishKey]
    cases severityOf b.attrs <;> simp

example : sortLoop (fun a b => .ok (lexCmp a b)) .gt none
    [⟨1, "a".toList, 1, 1⟩, ⟨2, "c".toList, 1, 1⟩, ⟨4, "b".toList, 1, 1⟩, ⟨5, "a".toList, 1, 1⟩]
    = .viol ⟨4, "b".toList, 1, 1⟩ := by decide

example : OutOfOrder lexCmp .gt [⟨1, "b".toList, 1, 1⟩, ⟨2, "a".toList, 1, 1⟩] := by
  simp [OutOfOrder]; decide

end Bw.Props.C06
