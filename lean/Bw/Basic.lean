def hello := "world"
