import Bw.Blocks
import Bw.Num
import Bw.Gen.Misc
/-! Model of the five synchronous validators (`src/validators/{keep_sorted,keep_unique,line_pattern,
    line_count,affects}.rs`) for one block, and of `Block::severity`. The regex engine is an oracle. -/
namespace Bw.Val
open Bw.Blocks Bw.Tag

/-- one `regex::Captures`: byte range of the whole match and of the `value` group -/
structure LineMatch where
  whole : Nat × Nat
  value : Option (Nat × Nat)
deriving Repr, DecidableEq

/-- the regex engine as an oracle: does the pattern compile; captures of a pattern on a text -/
structure Regex where
  compiles : Text → Bool
  captures : Text → Text → Option LineMatch

inductive ErrKind where
  | badDirection | badFormat | badRegex | notANumber | badConstraint | badAffects | badSeverity
  | emptyLuaPath | emptyAiCondition | luaError | aiError | oracleMiss
deriving Repr, DecidableEq

/-- `ViolationRange` + code + the machine-readable details the properties talk about -/
structure Diag where
  code : String
  sLine : Nat
  sCol : Nat
  eLine : Nat
  eCol : Nat
  severity : Nat
  data : List (String × Text)
deriving Repr, DecidableEq

/-- `BlockSeverity::from_str` over the generated variant table (ASCII-case-insensitive) -/
def severityFromStr (s : Text) : Option Nat :=
  (Gen.severityTable.find? (fun e =>
    if Gen.severityCaseInsensitive then lower e.1.toList = lower s else e.1.toList = s)).map (·.2)

/-- `Block::severity`: default error (1) -/
def severityOf (attrs : List (Text × Text)) : Except ErrKind Nat :=
  match attrGet attrs "severity".toList with
  | none => .ok 1
  | some s =>
    match severityFromStr s with
    | some n => .ok n
    | none => .error .badSeverity

/-- `Block::content` -/
def content (file : Text) (b : Block) : Text := sliceBytes b.cStart b.cEnd file

/-- key and 1-based inclusive byte range within its line (`trimmed_line_value` / `regex_value`) -/
def keyOf (re : Regex) (pattern : Option Text) (line : Text) : Option (Text × Nat × Nat) :=
  match pattern with
  | some p =>
    match re.captures p line with
    | none => none
    | some lm =>
      let (s, e) := lm.value.getD lm.whole
      some (sliceBytes s e line, s + 1, e)
  | none =>
    let t := trim line
    if t.isEmpty then none else
      let s := leadBytes line + 1
      some (t, s, s + ulen t - 1)

/-- a key with its content-line index and in-line range -/
structure Key where
  idx : Nat
  key : Text
  cs : Nat
  ce : Nat
deriving Repr, DecidableEq

def keysOf (re : Regex) (pattern : Option Text) (ls : List Text) : List Key :=
  (zipIdx ls).filterMap (fun (i, l) => (keyOf re pattern l).map (fun (k, s, e) => ⟨i, k, s, e⟩))

/-- position of a key diagnostic (after the fix): content start line + index; on the first content
    line the columns are offset by the content's start column -/
def keyDiag (code : String) (b : Block) (k : Key) (sev : Nat) (data : List (String × Text)) : Diag :=
  let line := b.cPosStart.line + k.idx
  let off := if k.idx = 0 then b.cPosStart.col - 1 else 0
  ⟨code, line, k.cs + off, line, k.ce + off, sev, data⟩

def tagDiag (code : String) (b : Block) (sev : Nat) (data : List (String × Text)) : Diag :=
  ⟨code, b.tagStart.line, b.tagStart.col, b.tagEnd.line, b.tagEnd.col, sev, data⟩

/-! ### keep-sorted -/

/-- lexicographic comparison by code point (Rust compares UTF-8 bytes: the same order) -/
def lexCmp : Text → Text → Ordering
  | [], [] => .eq
  | [], _ :: _ => .lt
  | _ :: _, [] => .gt
  | a :: as, b :: bs => if a.toNat < b.toNat then .lt else if b.toNat < a.toNat then .gt else lexCmp as bs

def numCmp (a b : Text) : Except ErrKind Ordering :=
  match Num.parseNum a, Num.parseNum b with
  | some x, some y => .ok (Num.totalCmp x y)
  | _, _ => .error .notANumber

inductive Verdict where
  | pass
  | viol (k : Key)
  | err (e : ErrKind)
deriving Repr, DecidableEq

/-- the `for line in content.lines()` loop after key extraction -/
def sortLoop (cmp : Text → Text → Except ErrKind Ordering) (bad : Ordering) : Option Key → List Key → Verdict
  | _, [] => .pass
  | none, k :: rest => sortLoop cmp bad (some k) rest
  | some p, k :: rest =>
    match cmp p.key k.key with
    | .error e => .err e
    | .ok o => if o = bad then .viol k else sortLoop cmp bad (some k) rest

/-- direction: blank ⇒ "asc"; otherwise the lower-cased value must be "asc" or "desc" -/
def normDirection (dir : Text) : Option Text :=
  let norm := if (trim dir).isEmpty then "asc".toList else lower dir
  if norm = "asc".toList ∨ norm = "desc".toList then some norm else none

/-- `keep-sorted-format`: blank ⇒ lexicographic (`false`); `some true` = numeric; `none` = unsupported -/
def sortFormat (attrs : List (Text × Text)) : Option Bool :=
  let fmtRaw := trim ((attrGet attrs "keep-sorted-format".toList).getD [])
  if fmtRaw.isEmpty then some false
  else if lower fmtRaw = "numeric".toList then some true
  else if lower fmtRaw = "lexicographic".toList then some false
  else none

def sortCmp (numeric : Bool) : Text → Text → Except ErrKind Ordering :=
  fun a b => if numeric then numCmp a b else .ok (lexCmp a b)

def badOrdering (norm : Text) : Ordering := if norm = "asc".toList then .gt else .lt

/-- a key verdict becomes at most one diagnostic; the severity is looked up only for a violation -/
def finishKey (code : String) (b : Block) (data : List (String × Text)) : Verdict → Except ErrKind (Option Diag)
  | .pass => .ok none
  | .err e => .error e
  | .viol k =>
    match severityOf b.attrs with
    | .error e => .error e
    | .ok sev => .ok (some (keyDiag code b k sev data))

/-- `KeepSortedValidator::validate` for one block carrying `keep-sorted` -/
def keepSorted (re : Regex) (file : Text) (b : Block) (dir : Text) : Except ErrKind (Option Diag) :=
  match normDirection dir with
  | none => .error .badDirection
  | some norm =>
    let pat := (attrGet b.attrs "keep-sorted-pattern".toList).getD []
    let pattern : Option Text := if pat.isEmpty then none else some pat
    match sortFormat b.attrs with
    | none => .error .badFormat
    | some numeric =>
      let ls := lines (content file b)
      if pattern.isSome && !re.compiles pat then (if ls.isEmpty then .ok none else .error .badRegex) else
      finishKey "keep-sorted" b [("order_by", norm)]
        (sortLoop (sortCmp numeric) (badOrdering norm) none (keysOf re pattern ls))

/-! ### keep-unique -/

/-- first key that already occurred (`HashSet::insert` returning false) -/
def firstDup : List Text → List Key → Option Key
  | _, [] => none
  | seen, k :: rest => if seen.contains k.key then some k else firstDup (k.key :: seen) rest

def dupVerdict : Option Key → Verdict
  | none => .pass
  | some k => .viol k

def keepUnique (re : Regex) (file : Text) (b : Block) (pat : Text) : Except ErrKind (Option Diag) :=
  let pattern : Option Text := if pat.isEmpty then none else some pat
  let ls := lines (content file b)
  if pattern.isSome && !re.compiles pat then (if ls.isEmpty then .ok none else .error .badRegex) else
  finishKey "keep-unique" b [] (dupVerdict (firstDup [] (keysOf re pattern ls)))

/-! ### line-pattern -/

/-- first non-blank line whose trimmed text has no match -/
def firstNonMatching (re : Regex) (pat : Text) : List (Nat × Text) → Option Key
  | [] => none
  | (i, l) :: rest =>
    let t := trim l
    if t.isEmpty then firstNonMatching re pat rest
    else if (re.captures pat t).isSome then firstNonMatching re pat rest
    else
      let s := leadBytes l + 1
      some ⟨i, t, s, s + ulen t - 1⟩

def linePattern (re : Regex) (file : Text) (b : Block) (pat : Text) : Except ErrKind (Option Diag) :=
  if !re.compiles pat then .error .badRegex else
  finishKey "line-pattern" b [("pattern", pat)]
    (dupVerdict (firstNonMatching re pat (zipIdx (lines (content file b)))))

/-! ### line-count -/

inductive Op where
  | lt | le | eq | ge | gt
deriving Repr, DecidableEq

def Op.str : Op → String
  | .lt => "<" | .le => "<=" | .eq => "==" | .ge => ">=" | .gt => ">"

def Op.holds : Op → Nat → Nat → Bool
  | .lt, a, n => a < n
  | .le, a, n => a ≤ n
  | .eq, a, n => a == n
  | .ge, a, n => a ≥ n
  | .gt, a, n => a > n

def Op.ofName : String → Option Op
  | "Lt" => some .lt | "Le" => some .le | "Eq" => some .eq | "Ge" => some .ge | "Gt" => some .gt
  | _ => none

/-- the `if let Some(r) = trimmed.strip_prefix(..)` chain, in the order of the source -/
def stripOp (t : Text) : List (String × String) → Option (Op × Text)
  | [] => none
  | (pre, name) :: rest =>
    match stripPrefix pre.toList t, Op.ofName name with
    | some r, some op => some (op, r)
    | _, _ => stripOp t rest

/-- `parse_constraint` -/
def parseConstraint (s : Text) : Option (Op × Nat) :=
  match stripOp (trim s) Gen.constraintPrefixes with
  | none => none
  | some (op, rest) =>
    let num := trim rest
    if num.isEmpty then none else
    match parseUsize num with
    | some n => some (op, n)
    | none => none

/-- number of non-blank content lines -/
def countLines (c : Text) : Nat :=
  if c.isEmpty then 0 else ((lines c).filter (fun l => !(trim l).isEmpty)).length

def natText (n : Nat) : Text := (toString n).toList

def lineCount (file : Text) (b : Block) (expr : Text) : Except ErrKind (Option Diag) :=
  match parseConstraint expr with
  | none => .error .badConstraint
  | some (op, expected) =>
    let actual := countLines (content file b)
    if op.holds actual expected then .ok none
    else match severityOf b.attrs with
      | .error e => .error e
      | .ok sev => .ok (some (tagDiag "line-count" b sev
          [("actual", natText actual), ("op", op.str.toList), ("expected", natText expected)]))

/-! ### affects -/

/-- `parse_affects_attribute`: comma list of `file:name`, blanks trimmed, empty file = same file -/
def splitOnce (sep : Char) : Text → Option (Text × Text)
  | [] => none
  | c :: cs => if c = sep then some ([], cs) else (splitOnce sep cs).map (fun (a, b) => (c :: a, b))

def parseAffects (v : Text) : Except ErrKind (List (Option Text × Text)) :=
  (splitOn ',' v).mapM (fun r =>
    match splitOnce ':' (trim r) with
    | none => .error .badAffects
    | some (f, n) =>
      let f := trim f
      .ok (if f.isEmpty then none else some f, trim n))

end Bw.Val
