/-! Abstract edit-script view of the hunk walk: a file diff as segments `keep | del | add` in git order.

`walk` is the code's behaviour (deletions recorded under the OLD file's line number, surplus removals of a
replaced group dropped); `walkR` is the repaired walk the property asks for (everything numbered in the NEW
file). Used for the C01 specification theorems and the known-finding witnesses D1 / D9. -/
namespace Bw.Walk

inductive Seg where
  | keep
  | del
  | add
deriving Repr, DecidableEq

structure St where
  newNo : Nat := 1
  oldNo : Nat := 1
  pending : List Nat := []          -- old line numbers of removed lines not yet paired
  prevAdd : Bool := false
  out : List (Nat × Bool) := []     -- (line, isEdit)
deriving Repr

def flush (st : St) : St :=
  if st.prevAdd then { st with pending := [] }
  else match st.pending with
    | [] => st
    | m :: _ => { st with out := st.out ++ [(m, false)], pending := [] }

def step (st : St) : Seg → St
  | .keep =>
    let st := flush st
    { st with newNo := st.newNo + 1, oldNo := st.oldNo + 1, prevAdd := false }
  | .del => { st with pending := st.pending ++ [st.oldNo], oldNo := st.oldNo + 1, prevAdd := false }
  | .add =>
    match st.pending with
    | _ :: ps => { st with out := st.out ++ [(st.newNo, true)], pending := ps, newNo := st.newNo + 1, prevAdd := true }
    | [] => { st with out := st.out ++ [(st.newNo, false)], newNo := st.newNo + 1, prevAdd := true }

/-- entries (line, isEdit) the code reports; independent of how much context the hunks show -/
def walk (segs : List Seg) : List (Nat × Bool) := (flush (segs.foldl step {})).out

structure StR where
  newNo : Nat := 1
  pending : Nat := 0
  out : List (Nat × Bool) := []

def flushR (st : StR) : StR :=
  if st.pending = 0 then st else { st with out := st.out ++ [(st.newNo, false)], pending := 0 }

def stepR (st : StR) : Seg → StR
  | .keep => let st := flushR st; { st with newNo := st.newNo + 1 }
  | .del => { st with pending := st.pending + 1 }
  | .add =>
    if st.pending > 0 then { st with out := st.out ++ [(st.newNo, true)], pending := st.pending - 1, newNo := st.newNo + 1 }
    else { st with out := st.out ++ [(st.newNo, false)], newNo := st.newNo + 1 }

/-- the repaired walk: deletions numbered in the new file, surplus deletions kept -/
def walkR (segs : List Seg) : List (Nat × Bool) := (flushR (segs.foldl stepR {})).out

def newCount : List Seg → Nat
  | [] => 0
  | .del :: r => newCount r
  | _ :: r => newCount r + 1

def foldR (st : StR) (segs : List Seg) : StR := segs.foldl stepR st

theorem foldR_append (st : StR) (a b : List Seg) : foldR st (a ++ b) = foldR (foldR st a) b := by
  simp [foldR, List.foldl_append]

theorem flushR_newNo (st : StR) : (flushR st).newNo = st.newNo := by
  unfold flushR; split <;> rfl

theorem stepR_newNo (st : StR) (s : Seg) :
    (stepR st s).newNo = st.newNo + (match s with | .del => 0 | _ => 1) := by
  cases s <;> simp [stepR, flushR_newNo]
  split <;> rfl

theorem foldR_newNo (st : StR) (segs : List Seg) : (foldR st segs).newNo = st.newNo + newCount segs := by
  induction segs generalizing st with
  | nil => simp [foldR, newCount]
  | cons s r ih =>
    have : foldR st (s :: r) = foldR (stepR st s) r := rfl
    rw [this, ih, stepR_newNo]
    cases s <;> simp [newCount] <;> omega

theorem flushR_out_mono (st : StR) (x) (h : x ∈ st.out) : x ∈ (flushR st).out := by
  unfold flushR; split
  · exact h
  · simp [h]

theorem stepR_out_mono (st : StR) (s : Seg) (x) (h : x ∈ st.out) : x ∈ (stepR st s).out := by
  cases s
  · simp only [stepR]; exact flushR_out_mono st x h
  · simpa [stepR] using h
  · simp only [stepR]; split <;> simp [h]

theorem foldR_out_mono (st : StR) (segs : List Seg) (x) (h : x ∈ st.out) : x ∈ (foldR st segs).out := by
  induction segs generalizing st with
  | nil => simpa [foldR] using h
  | cons s r ih => exact ih (stepR st s) (stepR_out_mono st s x h)

theorem pending_reported (st : StR) (hp : st.pending > 0) (q : List Seg) :
    ∃ e, (st.newNo, e) ∈ (flushR (foldR st q)).out := by
  induction q generalizing st with
  | nil =>
    refine ⟨false, ?_⟩
    have : ¬ st.pending = 0 := by omega
    simp [foldR, flushR, this]
  | cons s r ih =>
    have hstep : foldR st (s :: r) = foldR (stepR st s) r := rfl
    rw [hstep]
    cases s with
    | keep =>
      refine ⟨false, flushR_out_mono _ _ (foldR_out_mono _ r _ ?_)⟩
      have : ¬ st.pending = 0 := by omega
      simp [stepR, flushR, this]
    | del =>
      have := ih (stepR st .del) (by simp [stepR])
      simpa [stepR] using this
    | add =>
      refine ⟨true, flushR_out_mono _ _ (foldR_out_mono _ r _ ?_)⟩
      simp [stepR, hp]

end Bw.Walk
