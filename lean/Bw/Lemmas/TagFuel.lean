import Bw.Tag
/-! Termination of the tag scanner: every step consumes input, so the fuel `|text| + 1` is always enough. -/
namespace Bw.Tag
variable (cfg : Cfg)

theorem span_snd_le (p : Char → Bool) (t : Text) : (span p t).2.length ≤ t.length := by
  induction t with
  | nil => simp [span]
  | cons c cs ih =>
    simp only [span]
    split
    · simp only [List.length_cons]; omega
    · simp

theorem span_fst_snd (p : Char → Bool) (t : Text) : (span p t).1.length + (span p t).2.length = t.length := by
  induction t with
  | nil => simp [span]
  | cons c cs ih =>
    simp only [span]
    split
    · simp only [List.length_cons]; omega
    · simp

theorem stripPrefix_length {p t r : Text} (h : stripPrefix p t = some r) : r.length + p.length = t.length := by
  induction p generalizing t with
  | nil => simp [stripPrefix] at h; simp [h]
  | cons x xs ih =>
    cases t with
    | nil => simp [stripPrefix] at h
    | cons c cs =>
      simp only [stripPrefix] at h
      split at h
      · have := ih h; simp only [List.length_cons]; omega
      · cases h

theorem parseValue_lt (s v r : Text) (h : parseValue cfg s = some (v, r)) : r.length < s.length := by
  unfold parseValue at h
  split at h
  · rename_i r0
    have hs := span_fst_snd (· != '"') r0
    generalize hsp : span (· != '"') r0 = pr at h hs
    obtain ⟨a, b⟩ := pr
    simp only at h hs
    split at h
    · rename_i r''
      simp only [Option.some.injEq, Prod.mk.injEq] at h
      obtain ⟨_, rfl⟩ := h
      simp only [List.length_cons] at hs ⊢; omega
    · cases h
  · rename_i r0
    have hs := span_fst_snd (· != '\'') r0
    generalize hsp : span (· != '\'') r0 = pr at h hs
    obtain ⟨a, b⟩ := pr
    simp only at h hs
    split at h
    · rename_i r''
      simp only [Option.some.injEq, Prod.mk.injEq] at h
      obtain ⟨_, rfl⟩ := h
      simp only [List.length_cons] at hs ⊢; omega
    · cases h
  · have hs := span_fst_snd cfg.isName s
    generalize hsp : span cfg.isName s = pr at h hs
    obtain ⟨a, b⟩ := pr
    simp only at h hs
    split at h
    · cases h
    · rename_i hne
      simp only [Option.some.injEq, Prod.mk.injEq] at h
      obtain ⟨rfl, rfl⟩ := h
      have : a.length ≠ 0 := by
        intro h0; apply hne; simp [List.length_eq_zero_iff.1 h0]
      omega

theorem parseAttr_lt (s : Text) (a : Text × Text) (r : Text) (h : parseAttr cfg s = some (a, r)) :
    r.length < s.length := by
  unfold parseAttr at h
  have h1 := span_fst_snd isSp s
  generalize hsp : span isSp s = p1 at h h1
  obtain ⟨w, r0⟩ := p1
  simp only at h h1
  split at h
  · cases h
  · rename_i hw
    have hwl : w.length ≠ 0 := by intro h0; apply hw; simp [List.length_eq_zero_iff.1 h0]
    have h2 := span_fst_snd cfg.isName r0
    generalize hsn : span cfg.isName r0 = p2 at h h2
    obtain ⟨n, r1⟩ := p2
    simp only at h h2
    split at h
    · cases h
    · -- in every remaining branch the rest is `r1` or a suffix of it
      have hr1 : r1.length < s.length := by omega
      have h3 := span_snd_le isSp r1
      generalize hs3 : span isSp r1 = p3 at h h3
      obtain ⟨w2, r2⟩ := p3
      simp only at h h3
      split at h
      · rename_i r3
        have h4 := span_snd_le isSp r3
        generalize hs4 : span isSp r3 = p4 at h h4
        obtain ⟨w3, r4⟩ := p4
        simp only at h h4
        split at h
        · rename_i v r5 hv
          simp only [Option.some.injEq, Prod.mk.injEq] at h
          obtain ⟨_, rfl⟩ := h
          have := parseValue_lt cfg r4 v r5 hv
          simp only [List.length_cons] at h3
          omega
        · simp only [Option.some.injEq, Prod.mk.injEq] at h
          obtain ⟨_, rfl⟩ := h
          exact hr1
      · simp only [Option.some.injEq, Prod.mk.injEq] at h
        obtain ⟨_, rfl⟩ := h
        exact hr1

theorem parseAttrs_le (fuel : Nat) (s : Text) : (parseAttrs cfg fuel s).2.length ≤ s.length := by
  induction fuel generalizing s with
  | zero => simp [parseAttrs]
  | succ f ih =>
    simp only [parseAttrs]
    cases h : parseAttr cfg s with
    | none => simp
    | some ar =>
      obtain ⟨a, r⟩ := ar
      have := parseAttr_lt cfg s a r h
      have := ih r
      simp only
      omega

theorem parseStart_lt (s : Text) (as : List (Text × Text)) (r : Text) (h : parseStart cfg s = some (as, r)) :
    r.length < s.length := by
  unfold parseStart at h
  cases hp : stripPrefix "<block".toList s with
  | none => rw [hp] at h; cases h
  | some r0 =>
    rw [hp] at h
    simp only at h
    have h0 := stripPrefix_length hp
    have h1 := parseAttrs_le cfg r0.length r0
    generalize hpa : parseAttrs cfg r0.length r0 = pa at h h1
    obtain ⟨as', r1⟩ := pa
    simp only at h h1
    have h2 := span_snd_le isSp r1
    generalize hs2 : span isSp r1 = p2 at h h2
    obtain ⟨w, r2⟩ := p2
    simp only at h h2
    split at h
    · rename_i r3
      simp only [Option.some.injEq, Prod.mk.injEq] at h
      obtain ⟨_, rfl⟩ := h
      simp only [List.length_cons] at h2
      have : ("<block".toList).length = 6 := by decide
      omega
    · cases h

theorem parseEnd_lt (s r : Text) (h : parseEnd s = some r) : r.length < s.length := by
  unfold parseEnd at h
  split at h
  · rename_i r0
    have h1 := span_snd_le isSp r0
    generalize hs1 : span isSp r0 = p1 at h h1
    obtain ⟨w1, r1⟩ := p1
    simp only at h h1
    split at h
    · rename_i r2
      have h2 := span_snd_le isSp r2
      generalize hs2 : span isSp r2 = p2 at h h2
      obtain ⟨w2, r3⟩ := p2
      simp only at h h2
      cases hp : stripPrefix "block".toList r3 with
      | none => rw [hp] at h; cases h
      | some r4 =>
        rw [hp] at h
        simp only at h
        have h3 := stripPrefix_length hp
        have h4 := span_snd_le isSp r4
        generalize hs4 : span isSp r4 = p4 at h h4
        obtain ⟨w4, r5⟩ := p4
        simp only at h h4
        split at h
        · rename_i r6
          injection h with h; subst h
          simp only [List.length_cons] at h1 h4 ⊢
          omega
        · cases h
    · cases h
  · cases h

/-- **the scanner never runs out of fuel**: any fuel above the text length gives the same tag list -/
theorem scan_fuel_irrelevant : ∀ (n : Nat) (t : Text), t.length ≤ n → ∀ f1 f2 off, t.length < f1 → t.length < f2 →
    scan cfg f1 off t = scan cfg f2 off t := by
  intro n
  induction n with
  | zero =>
    intro t ht f1 f2 off h1 h2
    have : t = [] := List.length_eq_zero_iff.1 (by omega)
    subst this
    cases f1 <;> cases f2 <;> simp [scan] at *
  | succ n ih =>
    intro t ht f1 f2 off h1 h2
    cases t with
    | nil => cases f1 <;> cases f2 <;> simp [scan] at *
    | cons c cs =>
      cases f1 with
      | zero => simp at h1
      | succ f1 =>
        cases f2 with
        | zero => simp at h2
        | succ f2 =>
          simp only [List.length_cons] at ht h1 h2
          simp only [scan]
          split
          · cases hs : parseStart cfg (c :: cs) with
            | some ar =>
              obtain ⟨attrs, rest⟩ := ar
              have hlt := parseStart_lt cfg (c :: cs) attrs rest hs
              simp only [List.length_cons] at hlt
              simp only
              congr 1
              exact ih rest (by omega) f1 f2 _ (by omega) (by omega)
            | none =>
              simp only
              cases he : parseEnd (c :: cs) with
              | some rest =>
                have hlt := parseEnd_lt (c :: cs) rest he
                simp only [List.length_cons] at hlt
                simp only
                congr 1
                exact ih rest (by omega) f1 f2 _ (by omega) (by omega)
              | none =>
                simp only
                exact ih cs (by omega) f1 f2 _ (by omega) (by omega)
          · exact ih cs (by omega) f1 f2 _ (by omega) (by omega)

/-- `scanAll` (fuel `|t| + 1`) equals the scan with any larger fuel: the loop always terminates by
    exhausting the text, never the fuel -/
theorem scanAll_eq (t : Text) (fuel : Nat) (h : t.length < fuel) : scan cfg fuel 0 t = scanAll cfg t :=
  scan_fuel_irrelevant cfg t.length t (Nat.le_refl _) fuel (t.length + 1) 0 h (Nat.lt_succ_self _)

end Bw.Tag
