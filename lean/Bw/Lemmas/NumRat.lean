import Bw.Num
/-! The exact-decimal comparison of `Bw.Num` is the order of the rational numbers the decimals denote. -/
namespace Bw.Num

/-- the rational number a finite decimal m·10^e denotes -/
def value (m : Nat) (e : Int) : Rat := (m : Rat) * (10 : Rat) ^ e

/-- … with its sign -/
def svalue (neg : Bool) (m : Nat) (e : Int) : Rat := if neg then - value m e else value m e

theorem ten_ne : (10 : Rat) ≠ 0 := by decide
theorem ten_pos : (0 : Rat) < 10 := by decide

theorem value_nonneg (m : Nat) (e : Int) : 0 ≤ value m e :=
  Rat.mul_nonneg Rat.natCast_nonneg (Rat.le_of_lt (Rat.zpow_pos ten_pos))

theorem value_split (m : Nat) (e e0 : Int) (h : e0 ≤ e) :
    value m e = ((m * 10 ^ (e - e0).toNat : Nat) : Rat) * (10 : Rat) ^ e0 := by
  unfold value
  have he : e = ((e - e0).toNat : Int) + e0 := by omega
  conv => lhs; rw [he]
  rw [Rat.zpow_add ten_ne, Rat.zpow_natCast, Rat.natCast_mul, Rat.natCast_pow, Rat.mul_assoc]
  rfl

theorem cmpNat_lt (a b : Nat) : cmpNat a b = .lt ↔ a < b := by
  unfold cmpNat
  by_cases h1 : a < b
  · simp [h1]
  · by_cases h2 : b < a <;> simp [h1, h2]
theorem cmpNat_eq (a b : Nat) : cmpNat a b = .eq ↔ a = b := by
  unfold cmpNat
  by_cases h1 : a < b
  · simp [h1]; omega
  · by_cases h2 : b < a <;> simp [h1, h2] <;> omega
theorem cmpNat_gt (a b : Nat) : cmpNat a b = .gt ↔ b < a := by
  unfold cmpNat
  by_cases h1 : a < b
  · simp [h1]; omega
  · by_cases h2 : b < a <;> simp [h1, h2]

theorem rat_cancel (a b c : Rat) (hc : 0 < c) (h : a * c = b * c) : a = b := by
  have h1 := (Rat.mul_lt_mul_right (a := a) (b := b) hc)
  have h2 := (Rat.mul_lt_mul_right (a := b) (b := a) hc)
  grind

theorem magCmp_lt (m₁ : Nat) (e₁ : Int) (m₂ : Nat) (e₂ : Int) :
    magCmp m₁ e₁ m₂ e₂ = .lt ↔ value m₁ e₁ < value m₂ e₂ := by
  unfold magCmp
  simp only []
  rw [cmpNat_lt, value_split m₁ e₁ (min e₁ e₂) (by omega), value_split m₂ e₂ (min e₁ e₂) (by omega),
    Rat.mul_lt_mul_right (Rat.zpow_pos ten_pos), Rat.natCast_lt_natCast]

theorem magCmp_gt (m₁ : Nat) (e₁ : Int) (m₂ : Nat) (e₂ : Int) :
    magCmp m₁ e₁ m₂ e₂ = .gt ↔ value m₂ e₂ < value m₁ e₁ := by
  unfold magCmp
  simp only []
  rw [cmpNat_gt, value_split m₁ e₁ (min e₁ e₂) (by omega), value_split m₂ e₂ (min e₁ e₂) (by omega),
    Rat.mul_lt_mul_right (Rat.zpow_pos ten_pos), Rat.natCast_lt_natCast]

theorem magCmp_eq (m₁ : Nat) (e₁ : Int) (m₂ : Nat) (e₂ : Int) :
    magCmp m₁ e₁ m₂ e₂ = .eq ↔ value m₁ e₁ = value m₂ e₂ := by
  unfold magCmp
  simp only []
  rw [cmpNat_eq, value_split m₁ e₁ (min e₁ e₂) (by omega), value_split m₂ e₂ (min e₁ e₂) (by omega)]
  constructor
  · intro h; rw [h]
  · intro h
    exact Rat.natCast_inj.1 (rat_cancel _ _ _ (Rat.zpow_pos ten_pos) h)

end Bw.Num
