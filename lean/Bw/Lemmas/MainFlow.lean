import Bw.MainFlow
import Bw.Lemmas.Flags
import Bw.Lemmas.Merge
namespace Bw.MainFlow
open Bw Bw.Pipe Bw.Val Bw.Diff Bw.Tag

/-- **invalid options are rejected before anything is read, parsed or validated**: when the option values are refused the
    outcome does not depend on the files, the diff, the regex engine or the scripts at all -/
theorem rejected_before_anything (cfg cfg' : Cfg) (re re' : Regex) (oracle oracle' : AsyncOracle) (rawE en dis : List Text)
    (list list' : Bool) (inp inp' : Input) (e : Flags.FlagErr) (h : Flags.startup rawE en dis = .error e) :
    run cfg re oracle rawE en dis list inp = .rejected e ∧
    run cfg re oracle rawE en dis list inp = run cfg' re' oracle' rawE en dis list' inp' := by
  simp only [run, h, and_self]

/-- both flags together / an unknown validator: rejected, whatever the repository holds -/
theorem both_flags_never_validate (cfg : Cfg) (re : Regex) (oracle : AsyncOracle) (rawE en dis : List Text) (list : Bool)
    (inp : Input) (he : en ≠ []) (hd : dis ≠ []) : ∃ e, run cfg re oracle rawE en dis list inp = .rejected e := by
  obtain ⟨e, h⟩ := Flags.startup_err_of_both rawE en dis he hd
  exact ⟨e, by simp only [run, h]⟩

/-- `list` exits 0 whenever the options are accepted and every file in scope parses; it never runs a validator -/
theorem list_exits_zero (cfg : Cfg) (re : Regex) (oracle : AsyncOracle) (rawE en dis : List Text) (inp : Input)
    (r : List (Text × List ListReport.Entry)) (h : run cfg re oracle rawE en dis true inp = .listed r) :
    exitStatus (run cfg re oracle rawE en dis true inp) = 0 := by
  rw [h]; rfl

theorem list_independent_of_validators (cfg : Cfg) (re re' : Regex) (oracle oracle' : AsyncOracle) (rawE en dis : List Text)
    (inp : Input) : run cfg re oracle rawE en dis true inp = run cfg re' oracle' rawE en dis true inp := by
  unfold run
  split
  · rfl
  · split
    · rfl
    · split
      · rfl
      · simp

/-- a validation run exits 1 exactly when the merged report holds a diagnostic of severity error (or the run failed), 0 otherwise;
    2 only when the command line was refused -/
theorem validate_exit (cfg : Cfg) (re : Regex) (oracle : AsyncOracle) (rawE en dis : List Text) (inp : Input)
    (m : Merge.FileMap) (x : Nat) (h : run cfg re oracle rawE en dis false inp = .validated m x) :
    x = (if Merge.hasErrorSeverity m then 1 else 0) := by
  unfold run at h
  split at h
  · cases h
  · split at h
    · cases h
    · split at h
      · cases h
      · simp only [Bool.false_eq_true, if_false] at h
        split at h
        · cases h
        · injection h with h1 h2
          rw [← h2, ← h1]
          rfl

end Bw.MainFlow
