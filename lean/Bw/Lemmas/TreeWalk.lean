import Bw.TreeWalk
/-! The cursor walk of `CommentsIterator` visits the tree in document order (`Bw.TreeWalk`). -/
namespace Bw.TreeWalk

variable {α : Type}

def stackOrder (st : List (List (Tree α))) : List α := (st.map preorderL).flatten
def stackSize (st : List (List (Tree α))) : Nat := (st.map sizeL).sum

theorem preorder_eq (t : Tree α) : preorder t = t.label :: preorderL t.children := by
  cases t with | node l cs => simp [preorder, Tree.label, Tree.children]

theorem size_eq (t : Tree α) : size t = 1 + sizeL t.children := by
  cases t with | node l cs => simp [size, Tree.children]

theorem advance_none (st : List (List (Tree α))) (h : advance st = none) : stackOrder st = [] ∧ stackSize st = 0 := by
  induction st with
  | nil => simp [stackOrder, stackSize]
  | cons ts st ih =>
    cases ts with
    | nil =>
      simp only [advance] at h
      have := ih h
      simp [stackOrder, stackSize, preorderL, sizeL] at this ⊢
      exact this
    | cons t ts => simp [advance] at h

theorem advance_some (st : List (List (Tree α))) (t : Tree α) (st' : List (List (Tree α)))
    (h : advance st = some (t, st')) :
    stackOrder st = t.label :: stackOrder st' ∧ stackSize st = 1 + stackSize st' := by
  induction st with
  | nil => simp [advance] at h
  | cons ts st ih =>
    cases ts with
    | nil =>
      simp only [advance] at h
      have := ih h
      simp only [stackOrder, stackSize, List.map_cons, List.flatten_cons, preorderL, List.nil_append, sizeL, List.sum_cons,
        Nat.zero_add] at this ⊢
      exact this
    | cons u us =>
      simp only [advance, Option.some.injEq, Prod.mk.injEq] at h
      obtain ⟨rfl, rfl⟩ := h
      refine ⟨?_, ?_⟩
      · simp only [stackOrder, List.map_cons, List.flatten_cons, preorderL, preorder_eq u, List.cons_append, List.append_assoc]
      · simp only [stackSize, List.map_cons, List.sum_cons, sizeL, size_eq u]
        omega

/-- with enough fuel the loop yields exactly the reachable nodes in document order -/
theorem walkFrom_eq (fuel : Nat) (st : List (List (Tree α))) (h : stackSize st ≤ fuel) :
    walkFrom fuel st = stackOrder st := by
  induction fuel generalizing st with
  | zero =>
    have h0 : stackSize st = 0 := by omega
    cases ha : advance st with
    | none => simp [walkFrom, (advance_none st ha).1]
    | some p =>
      obtain ⟨t, st'⟩ := p
      have := (advance_some st t st' ha).2
      omega
  | succ n ih =>
    unfold walkFrom
    cases ha : advance st with
    | none => simp [(advance_none st ha).1]
    | some p =>
      obtain ⟨t, st'⟩ := p
      obtain ⟨ho, hs⟩ := advance_some st t st' ha
      simp only
      rw [ho, ih st' (by omega)]

/-- **the cursor walk visits every node of the tree exactly once, in document order** -/
theorem walk_eq_preorder (t : Tree α) : walk t = preorder t := by
  unfold walk
  rw [walkFrom_eq (size t) [t.children] (by simp [stackSize, size_eq t]), preorder_eq t]
  simp [stackOrder]

mutual
  theorem preorder_prune (keep : α → Bool) : ∀ t : Tree α, (preorderO (prune keep t)).filter keep = (preorder t).filter keep
    | .node l cs => by
      have ih := preorderL_pruneL keep cs
      simp only [prune]
      by_cases hk : keep l = true
      · simp only [hk, Bool.true_or, if_true, preorderO, preorder, List.filter_cons, ih]
      · have hk' : keep l = false := by simpa using hk
        simp only [hk', Bool.false_or]
        by_cases he : (pruneL keep cs).isEmpty = true
        · simp only [he, Bool.not_true, Bool.false_eq_true, if_false, preorderO, preorder, List.filter_cons, hk']
          rw [← ih]
          rw [List.isEmpty_iff] at he
          simp [he, preorderL]
        · have he' : (pruneL keep cs).isEmpty = false := by simpa using he
          simp only [he', Bool.not_false, if_true, preorderO, preorder, List.filter_cons, hk', ih]
  theorem preorderL_pruneL (keep : α → Bool) : ∀ ts : List (Tree α), (preorderL (pruneL keep ts)).filter keep = (preorderL ts).filter keep
    | [] => by simp [pruneL, preorderL]
    | t :: ts => by
      have h1 := preorder_prune keep t
      have h2 := preorderL_pruneL keep ts
      simp only [pruneL]
      cases hp : prune keep t with
      | none =>
        rw [hp] at h1
        simp only [preorderO, List.filter_nil] at h1
        simp only [preorderL, List.filter_append, ← h1, List.nil_append, h2]
      | some t' =>
        rw [hp] at h1
        simp only [preorderO] at h1
        simp only [preorderL, List.filter_append, h1, h2]
end

/-- **pruning loses no node of interest and keeps their order**: the nodes of interest the cursor walk yields over the shipped
    (pruned) tree are those it yields over the full syntax tree -/
theorem walk_pruned (keep : α → Bool) (t t' : Tree α) (h : prune keep t = some t') :
    (walk t').filter keep = (walk t).filter keep := by
  rw [walk_eq_preorder, walk_eq_preorder]
  have := preorder_prune keep t
  rw [h] at this
  exact this

end Bw.TreeWalk
