import Bw.Walk
/-! The code's hunk walk equals the repaired walk on every edit script outside the known-finding classes
    D1 (a pure deletion group after a net line shift) and D9 (a group removing more lines than it adds). -/
namespace Bw.Walk

/-- at a flush point: deletions are pending and the code either drops them (previous line was an
    addition: D9) or reports them under a line number that is not the current new-file line (D1) -/
def badFlush (st : St) : Bool :=
  !st.pending.isEmpty && (st.prevAdd || st.pending.head? != some st.newNo)

/-- does the code's walk ever reach a bad flush on this edit script (the decidable class of D1/D9) -/
def knownDelFrom (st : St) : List Seg → Bool
  | [] => badFlush st
  | .keep :: r => badFlush st || knownDelFrom (step st .keep) r
  | s :: r => knownDelFrom (step st s) r

def knownDel (segs : List Seg) : Bool := knownDelFrom {} segs

/-- simulation relation between the two walks -/
def Sim (st : St) (sr : StR) : Prop :=
  st.newNo = sr.newNo ∧ st.pending.length = sr.pending ∧ st.out = sr.out

theorem flush_sim (st : St) (sr : StR) (h : Sim st sr) (hb : badFlush st = false) : Sim (flush st) (flushR sr) := by
  obtain ⟨h1, h2, h3⟩ := h
  unfold flush flushR
  cases hp : st.pending with
  | nil =>
    have : sr.pending = 0 := by rw [← h2, hp]; rfl
    simp only [this, if_true]
    split
    · exact ⟨h1, by simp [this], h3⟩
    · exact ⟨h1, by simp [hp, this], h3⟩
  | cons m ms =>
    have hne : ¬ sr.pending = 0 := by rw [← h2, hp]; simp
    simp only [badFlush, hp, List.isEmpty_cons, Bool.not_false, Bool.true_and, List.head?_cons,
      Bool.or_eq_false_iff, bne_eq_false_iff_eq, Option.some.injEq] at hb
    obtain ⟨hpa, hm⟩ := hb
    simp only [hpa, Bool.false_eq_true, if_false, hne]
    refine ⟨h1, rfl, ?_⟩
    simp [h3, hm, h1]

theorem step_sim (st : St) (sr : StR) (h : Sim st sr) (s : Seg) (hb : s = .keep → badFlush st = false) :
    Sim (step st s) (stepR sr s) := by
  cases s with
  | keep =>
    have hf := flush_sim st sr h (hb rfl)
    obtain ⟨h1, h2, h3⟩ := hf
    exact ⟨by simp [step, stepR, h1], by simpa [step, stepR] using h2, by simpa [step, stepR] using h3⟩
  | del =>
    obtain ⟨h1, h2, h3⟩ := h
    exact ⟨by simp [step, stepR, h1], by simp [step, stepR, h2], by simp [step, stepR, h3]⟩
  | add =>
    obtain ⟨h1, h2, h3⟩ := h
    cases hp : st.pending with
    | nil =>
      have : ¬ sr.pending > 0 := by rw [← h2, hp]; simp
      simp only [step, hp, stepR, this, if_false]
      exact ⟨by simp [h1], by simpa [hp] using h2, by simp [h3, h1]⟩
    | cons m ms =>
      have : sr.pending > 0 := by rw [← h2, hp]; simp
      simp only [step, hp, stepR, this, if_true]
      refine ⟨by simp [h1], ?_, by simp [h3, h1]⟩
      rw [← h2, hp]; simp

theorem fold_sim (segs : List Seg) : ∀ (st : St) (sr : StR), Sim st sr → knownDelFrom st segs = false →
    (flush (segs.foldl step st)).out = (flushR (segs.foldl stepR sr)).out := by
  induction segs with
  | nil =>
    intro st sr h hk
    simp only [knownDelFrom] at hk
    exact (flush_sim st sr h hk).2.2
  | cons s r ih =>
    intro st sr h hk
    simp only [List.foldl_cons]
    cases s with
    | keep =>
      simp only [knownDelFrom, Bool.or_eq_false_iff] at hk
      exact ih _ _ (step_sim st sr h .keep (fun _ => hk.1)) hk.2
    | del =>
      simp only [knownDelFrom] at hk
      exact ih _ _ (step_sim st sr h .del (fun h' => by cases h')) hk
    | add =>
      simp only [knownDelFrom] at hk
      exact ih _ _ (step_sim st sr h .add (fun h' => by cases h')) hk

/-- **outside the known classes the code's walk is the repaired walk** -/
theorem walk_eq_walkR (segs : List Seg) (h : knownDel segs = false) : walk segs = walkR segs :=
  fold_sim segs {} {} ⟨rfl, rfl, rfl⟩ h

/-- an edit script without deletions is never in the known class -/
theorem noDel_pending (segs : List Seg) (h : ∀ s ∈ segs, s ≠ .del) : ∀ st : St, st.pending = [] →
    knownDelFrom st segs = false := by
  induction segs with
  | nil => intro st hp; simp [knownDelFrom, badFlush, hp]
  | cons s r ih =>
    intro st hp
    have hr : ∀ x ∈ r, x ≠ .del := fun x hx => h x (by simp [hx])
    cases s with
    | keep =>
      simp only [knownDelFrom, badFlush, hp, List.isEmpty_nil, Bool.not_true, Bool.false_and, Bool.false_or]
      exact ih hr _ (by simp [step, flush, hp]; split <;> simp [hp])
    | del => exact absurd rfl (h .del (by simp))
    | add =>
      simp only [knownDelFrom]
      exact ih hr _ (by simp [step, hp])

theorem noDel_not_known (segs : List Seg) (h : ∀ s ∈ segs, s ≠ .del) : knownDel segs = false :=
  noDel_pending segs h {} rfl

end Bw.Walk
