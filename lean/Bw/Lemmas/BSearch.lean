import Bw.Diff
/-! `binary_search_by` finds an `Equal` element whenever one exists, provided the comparator is monotone along the slice. -/
namespace Bw.Diff

/-- the comparator is monotone along the list: `lt`s, then `eq`s, then `gt`s -/
def Mono {α} (f : α → Ordering) (l : List α) : Prop :=
  ∀ (i j : Nat) (a b : α), i < j → l[i]? = some a → l[j]? = some b → (f b = .lt → f a = .lt) ∧ (f a = .gt → f b = .gt)

def NotGt {α} (f : α → Ordering) (l : List α) (i : Nat) : Prop := ∃ x, l[i]? = some x ∧ f x ≠ .gt

theorem bsearchLoop_inv {α} (l : List α) (f : α → Ordering) (hm : Mono f l) (fuel size base : Nat)
    (hf : size ≤ fuel) (hs : 1 ≤ size) (hb : base + size ≤ l.length)
    (i1 : base = 0 ∨ NotGt f l base) (i2 : ∀ i, base + size ≤ i → ¬ NotGt f l i) :
    let r := bsearchLoop l.toArray f fuel size base
    r < l.length ∧ (r = 0 ∨ NotGt f l r) ∧ ∀ i, r + 1 ≤ i → ¬ NotGt f l i := by
  induction fuel generalizing size base with
  | zero => omega
  | succ fuel ih =>
    simp only [bsearchLoop]
    by_cases h1 : size ≤ 1
    · simp only [h1, if_true]
      have : size = 1 := by omega
      subst this
      exact ⟨by omega, i1, i2⟩
    · simp only [h1, if_false, List.getElem?_toArray]
      have hmid : base + size / 2 < l.length := by omega
      obtain ⟨x, hx⟩ : ∃ x, l[base + size / 2]? = some x := ⟨l[base + size / 2], by simp [hmid]⟩
      rw [hx]
      by_cases hg : f x = .gt
      · simp only [hg, if_true]
        apply ih (size - size / 2) base (by omega) (by omega) (by omega) i1
        intro i hi hn
        obtain ⟨y, hy, hyg⟩ := hn
        by_cases he : i = base + size / 2
        · subst he; rw [hx] at hy; injection hy with hy; subst hy; exact hyg hg
        · exact hyg ((hm (base + size / 2) i x y (by omega) hx hy).2 hg)
      · simp only [hg, if_false]
        apply ih (size - size / 2) (base + size / 2) (by omega) (by omega) (by omega) (Or.inr ⟨x, hx, hg⟩)
        intro i hi
        exact i2 i (by omega)

/-- **completeness of `binary_search_by`** for a monotone comparator: if some element compares `Equal`, the search finds one -/
theorem bsearch_complete {α} (l : List α) (f : α → Ordering) (hm : Mono f l) (x : α) (hx : x ∈ l) (he : f x = .eq) :
    bsearchFound l f = true := by
  obtain ⟨j, hj, hjx⟩ := List.getElem_of_mem hx
  have hn : l.length ≠ 0 := by omega
  unfold bsearchFound
  simp only [List.size_toArray, hn, if_false, List.getElem?_toArray]
  obtain ⟨hr, h1, h2⟩ := bsearchLoop_inv l f hm l.length l.length 0 (Nat.le_refl _) (by omega) (by omega) (Or.inl rfl)
    (by intro i hi ⟨y, hy, _⟩; have := List.getElem?_eq_none (l := l) (i := i) (by omega); rw [this] at hy; cases hy)
  generalize bsearchLoop l.toArray f l.length l.length 0 = r at hr h1 h2
  have hjs : l[j]? = some x := by simp [hj, hjx]
  have hjr : j ≤ r := by
    by_cases h : j ≤ r
    · exact h
    · exact absurd ⟨x, hjs, by rw [he]; decide⟩ (h2 j (by omega))
  obtain ⟨y, hy⟩ : ∃ y, l[r]? = some y := ⟨l[r], by simp [hr]⟩
  rw [hy]
  by_cases hjr' : j = r
  · subst hjr'; rw [hjs] at hy; injection hy with hy; subst hy; simp [he]
  · have hr0 : r ≠ 0 := by omega
    rcases h1 with h1 | ⟨z, hz, hzg⟩
    · exact absurd h1 hr0
    · rw [hy] at hz; injection hz with hz; subst hz
      have hlt : f y ≠ .lt := by
        intro hl
        have := (hm j r x y (by omega) hjs hy).1 hl
        rw [he] at this; cases this
      cases hfy : f y with
      | lt => exact absurd hfy hlt
      | gt => exact absurd hfy hzg
      | eq => simp [hfy]
end Bw.Diff
