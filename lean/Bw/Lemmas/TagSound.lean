import Bw.Lemmas.TagRT
/-! Converse of the round trip: whatever `parse_start_tag` accepts is the rendering of a well-formed
    attribute list - nothing but a well-formed tag is ever taken for one. -/
namespace Bw.Tag
variable (cfg : Cfg)

theorem stripPrefix_some' {p t r : Text} (h : stripPrefix p t = some r) : t = p ++ r := by
  induction p generalizing t with
  | nil => simp [stripPrefix] at h; simp [h]
  | cons x xs ih =>
    cases t with
    | nil => simp [stripPrefix] at h
    | cons c cs =>
      simp only [stripPrefix] at h
      split at h
      · rename_i hx; subst hx; simp [ih h]
      · cases h

theorem ne_nil_of_isEmpty_false {t : Text} (h : ¬ t.isEmpty = true) : t ≠ [] := by
  intro h0; rw [h0] at h; exact h rfl

/-- an accepted value is one of the three value forms -/
theorem parseValue_sound (s v r : Text) (h : parseValue cfg s = some (v, r)) :
    (s = '"' :: (v ++ '"' :: r) ∧ ∀ c ∈ v, c ≠ '"') ∨
    (s = '\'' :: (v ++ '\'' :: r) ∧ ∀ c ∈ v, c ≠ '\'') ∨
    (s = v ++ r ∧ v ≠ [] ∧ allp cfg.isName v) := by
  unfold parseValue at h
  split at h
  · rename_i r0
    generalize hsp : span (· != '"') r0 = pr at h
    obtain ⟨a, b⟩ := pr
    have hd := span_decomp (· != '"') r0 a b hsp
    simp only at h
    split at h
    · rename_i r''
      simp only [Option.some.injEq, Prod.mk.injEq] at h
      obtain ⟨rfl, rfl⟩ := h
      left
      refine ⟨by rw [hd.2], ?_⟩
      intro c hc
      have := hd.1 c hc
      simpa using this
    · cases h
  · rename_i r0
    generalize hsp : span (· != '\'') r0 = pr at h
    obtain ⟨a, b⟩ := pr
    have hd := span_decomp (· != '\'') r0 a b hsp
    simp only at h
    split at h
    · rename_i r''
      simp only [Option.some.injEq, Prod.mk.injEq] at h
      obtain ⟨rfl, rfl⟩ := h
      right; left
      refine ⟨by rw [hd.2], ?_⟩
      intro c hc
      have := hd.1 c hc
      simpa using this
    · cases h
  · generalize hsp : span cfg.isName s = pr at h
    obtain ⟨a, b⟩ := pr
    have hd := span_decomp cfg.isName s a b hsp
    simp only at h
    split at h
    · cases h
    · rename_i hne
      simp only [Option.some.injEq, Prod.mk.injEq] at h
      obtain ⟨rfl, rfl⟩ := h
      right; right
      exact ⟨hd.2, ne_nil_of_isEmpty_false hne, hd.1⟩

/-- an accepted attribute is the rendering of a well-formed `Attr` -/
theorem parseAttr_sound (s : Text) (nv : Text × Text) (r : Text) (h : parseAttr cfg s = some (nv, r)) :
    ∃ a : Attr, a.WF cfg ∧ s = a.render ++ r ∧ nv = (a.name, a.val.text) := by
  unfold parseAttr at h
  generalize hsp : span isSp s = p1 at h
  obtain ⟨w, r0⟩ := p1
  have hd1 := span_decomp isSp s w r0 hsp
  simp only at h
  split at h
  · cases h
  · rename_i hw
    generalize hsn : span cfg.isName r0 = p2 at h
    obtain ⟨n, r1⟩ := p2
    have hd2 := span_decomp cfg.isName r0 n r1 hsn
    simp only at h
    split at h
    · cases h
    · rename_i hn
      have hwne := ne_nil_of_isEmpty_false hw
      have hnne := ne_nil_of_isEmpty_false hn
      have bare : ∀ (hr : r = r1) (hnv : nv = (n, [])),
          ∃ a : Attr, a.WF cfg ∧ s = a.render ++ r ∧ nv = (a.name, a.val.text) := by
        intro hr hnv
        refine ⟨⟨w, n, [], [], .bare⟩, ⟨hwne, hd1.1, hnne, hd2.1, allp_nil _, allp_nil _, trivial⟩, ?_, ?_⟩
        · simp only [Attr.render, List.append_nil]; rw [hr, hd1.2, hd2.2, List.append_assoc]
        · simp [Val.text, hnv]
      generalize hs3 : span isSp r1 = p3 at h
      obtain ⟨w2, r2⟩ := p3
      have hd3 := span_decomp isSp r1 w2 r2 hs3
      simp only at h
      split at h
      · rename_i r3
        generalize hs4 : span isSp r3 = p4 at h
        obtain ⟨w3, r4⟩ := p4
        have hd4 := span_decomp isSp r3 w3 r4 hs4
        simp only at h
        split at h
        · rename_i v r5 hv
          simp only [Option.some.injEq, Prod.mk.injEq] at h
          obtain ⟨hnv, hr⟩ := h
          subst hr
          have hsrc : s = w ++ (n ++ (w2 ++ '=' :: (w3 ++ r4))) := by
            rw [hd1.2, hd2.2, hd3.2, hd4.2]
          rcases parseValue_sound cfg r4 v r5 hv with ⟨h4, hq⟩ | ⟨h4, hq⟩ | ⟨h4, hne, hq⟩
          · refine ⟨⟨w, n, w2, w3, .dq v⟩, ⟨hwne, hd1.1, hnne, hd2.1, hd3.1, hd4.1, hq⟩, ?_, by simp [Val.text, ← hnv]⟩
            simp only [Attr.render]; rw [hsrc, h4]; simp [List.append_assoc]
          · refine ⟨⟨w, n, w2, w3, .sq v⟩, ⟨hwne, hd1.1, hnne, hd2.1, hd3.1, hd4.1, hq⟩, ?_, by simp [Val.text, ← hnv]⟩
            simp only [Attr.render]; rw [hsrc, h4]; simp [List.append_assoc]
          · refine ⟨⟨w, n, w2, w3, .uq v⟩, ⟨hwne, hd1.1, hnne, hd2.1, hd3.1, hd4.1, ⟨hne, hq⟩⟩, ?_, by simp [Val.text, ← hnv]⟩
            simp only [Attr.render]; rw [hsrc, h4]; simp [List.append_assoc]
        · simp only [Option.some.injEq, Prod.mk.injEq] at h
          exact bare h.2.symm h.1.symm
      · simp only [Option.some.injEq, Prod.mk.injEq] at h
        exact bare h.2.symm h.1.symm

theorem parseAttrs_sound (fuel : Nat) : ∀ (s : Text) (nvs : List (Text × Text)) (r : Text),
    parseAttrs cfg fuel s = (nvs, r) →
    ∃ as : List Attr, (∀ a ∈ as, a.WF cfg) ∧ s = renderAll as ++ r ∧ nvs = as.map (fun a => (a.name, a.val.text)) := by
  induction fuel with
  | zero =>
    intro s nvs r h
    simp only [parseAttrs, Prod.mk.injEq] at h
    exact ⟨[], by simp, by simp [renderAll, h.2], by simp [h.1]⟩
  | succ f ih =>
    intro s nvs r h
    simp only [parseAttrs] at h
    cases ha : parseAttr cfg s with
    | none =>
      rw [ha] at h
      simp only [Prod.mk.injEq] at h
      exact ⟨[], by simp, by simp [renderAll, h.2], by simp [h.1]⟩
    | some ar =>
      obtain ⟨nv, r1⟩ := ar
      rw [ha] at h
      simp only at h
      generalize hrest : parseAttrs cfg f r1 = pr at h
      obtain ⟨nvs', r'⟩ := pr
      simp only [Prod.mk.injEq] at h
      obtain ⟨rfl, rfl⟩ := h
      obtain ⟨a, hwf, hs, hnv⟩ := parseAttr_sound cfg s nv r1 ha
      obtain ⟨as, hwfs, hs', hnvs⟩ := ih r1 nvs' r' hrest
      refine ⟨a :: as, ?_, ?_, ?_⟩
      · intro x hx
        rcases List.mem_cons.1 hx with rfl | hx
        · exact hwf
        · exact hwfs x hx
      · rw [hs, hs']; simp [renderAll, List.append_assoc]
      · simp [hnv, hnvs]

/-- **soundness of the start-tag grammar**: anything accepted is `<block` + the rendering of a well-formed
    attribute list + blanks + `>`, and the reported attributes are exactly that list's -/
theorem parseStart_sound (s : Text) (nvs : List (Text × Text)) (rest : Text) (h : parseStart cfg s = some (nvs, rest)) :
    ∃ (as : List Attr) (wsEnd : Text), (∀ a ∈ as, a.WF cfg) ∧ allp isSp wsEnd ∧
      s = "<block".toList ++ (renderAll as ++ tailOf wsEnd rest) ∧ nvs = as.map (fun a => (a.name, a.val.text)) := by
  unfold parseStart at h
  cases hp : stripPrefix "<block".toList s with
  | none => rw [hp] at h; cases h
  | some r0 =>
    rw [hp] at h
    simp only at h
    generalize hpa : parseAttrs cfg r0.length r0 = pa at h
    obtain ⟨nvs', r1⟩ := pa
    simp only at h
    generalize hs2 : span isSp r1 = p2 at h
    obtain ⟨w, r2⟩ := p2
    have hd := span_decomp isSp r1 w r2 hs2
    simp only at h
    split at h
    · rename_i r3
      simp only [Option.some.injEq, Prod.mk.injEq] at h
      obtain ⟨h1, h2⟩ := h
      subst h2
      obtain ⟨as, hwf, hs, hnv⟩ := parseAttrs_sound cfg r0.length r0 nvs' r1 hpa
      refine ⟨as, w, hwf, hd.1, ?_, by rw [← h1]; exact hnv⟩
      rw [stripPrefix_some' hp, hs, hd.2]
      simp [tailOf]
    · cases h

/-- anything accepted as an end tag is `<` ws* `/` ws* `block` ws* `>` -/
theorem parseEnd_sound (s rest : Text) (h : parseEnd s = some rest) :
    ∃ w1 w2 w3 : Text, allp isSp w1 ∧ allp isSp w2 ∧ allp isSp w3 ∧
      s = '<' :: (w1 ++ '/' :: (w2 ++ ("block".toList ++ (w3 ++ '>' :: rest)))) := by
  unfold parseEnd at h
  split at h
  · rename_i r0
    generalize hs1 : span isSp r0 = p1 at h
    obtain ⟨w1, r1⟩ := p1
    have hd1 := span_decomp isSp r0 w1 r1 hs1
    simp only at h
    split at h
    · rename_i r2
      generalize hs2 : span isSp r2 = p2 at h
      obtain ⟨w2, r3⟩ := p2
      have hd2 := span_decomp isSp r2 w2 r3 hs2
      simp only at h
      cases hp : stripPrefix "block".toList r3 with
      | none => rw [hp] at h; cases h
      | some r4 =>
        rw [hp] at h
        simp only at h
        generalize hs4 : span isSp r4 = p4 at h
        obtain ⟨w3, r5⟩ := p4
        have hd4 := span_decomp isSp r4 w3 r5 hs4
        simp only at h
        split at h
        · rename_i r6
          injection h with h
          subst h
          refine ⟨w1, w2, w3, hd1.1, hd2.1, hd4.1, ?_⟩
          rw [hd1.2, hd2.2, stripPrefix_some' hp, hd4.2]
        · cases h
    · cases h
  · cases h

end Bw.Tag
