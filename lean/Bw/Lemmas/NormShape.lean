import Bw.Lemmas.Shape
import Bw.Comment
/-! The comment normalisers preserve the byte-level line structure (`bshape`) of the comment: delimiters
    are replaced by as many space bytes, line breaks stay where they are. -/
namespace Bw.Comment
open Bw Bw.Blocks

theorem stripPrefix_some {p t r : Text} (h : stripPrefix p t = some r) : t = p ++ r := by
  induction p generalizing t with
  | nil => simp [stripPrefix] at h; simp [h]
  | cons x xs ih =>
    cases t with
    | nil => simp [stripPrefix] at h
    | cons c cs =>
      simp only [stripPrefix] at h
      split at h
      · rename_i hx; subst hx; simp [ih h]
      · cases h

theorem startsWith_decomp {p t : Text} (h : startsWith p t = true) : ∃ r, t = p ++ r := by
  unfold startsWith at h
  cases hs : stripPrefix p t with
  | none => rw [hs] at h; cases h
  | some r => exact ⟨r, stripPrefix_some hs⟩

theorem findSub_spec (pat : Text) : ∀ (t : Text) (o : Nat), findSub pat t = some o →
    ∃ pre post, t = pre ++ (pat ++ post) ∧ ulen pre = o := by
  intro t
  induction t with
  | nil =>
    intro o h
    simp only [findSub] at h
    split at h
    · rename_i hp
      injection h with h
      have : pat = [] := by simpa using hp
      exact ⟨[], [], by simp [this], by simp [ulen, h]⟩
    · cases h
  | cons c cs ih =>
    intro o h
    simp only [findSub] at h
    split at h
    · rename_i hs
      injection h with h
      obtain ⟨r, hr⟩ := startsWith_decomp hs
      exact ⟨[], r, by simpa using hr, by simp [ulen, h]⟩
    · cases hf : findSub pat cs with
      | none => rw [hf] at h; cases h
      | some k =>
        rw [hf] at h
        simp only [Option.map_some, Option.some.injEq] at h
        obtain ⟨pre, post, ht, hu⟩ := ih k hf
        exact ⟨c :: pre, post, by simp [ht], by simp only [ulen, hu]; omega⟩

theorem rfindSub_spec (pat : Text) : ∀ (t : Text) (o : Nat), rfindSub pat t = some o →
    ∃ pre post, t = pre ++ (pat ++ post) ∧ ulen pre = o := by
  intro t
  induction t with
  | nil =>
    intro o h
    simp only [rfindSub] at h
    split at h
    · rename_i hp
      injection h with h
      have : pat = [] := by simpa using hp
      exact ⟨[], [], by simp [this], by simp [ulen, h]⟩
    · cases h
  | cons c cs ih =>
    intro o h
    simp only [rfindSub] at h
    cases hf : rfindSub pat cs with
    | some k =>
      rw [hf] at h
      injection h with h
      obtain ⟨pre, post, ht, hu⟩ := ih k hf
      exact ⟨c :: pre, post, by simp [ht], by simp [ulen, hu]; omega⟩
    | none =>
      rw [hf] at h
      simp only at h
      split at h
      · rename_i hs
        injection h with h
        obtain ⟨r, hr⟩ := startsWith_decomp hs
        exact ⟨[], r, by simpa using hr, by simp [ulen, h]⟩
      · cases h

theorem bshape_spaces (n : Nat) : bshape (spaces n) = List.replicate n false := by
  induction n with
  | zero => simp [spaces, bshape]
  | succ n ih =>
    have : spaces (n + 1) = ' ' :: spaces n := by simp [spaces, List.replicate_succ]
    rw [this]
    simp only [bshape]
    have h1 : (' ' : Char) ≠ '\n' := by decide
    have h2 : (' ' : Char).utf8Size = 1 := by decide
    simp [h1, h2, ih, List.replicate_succ]

/-- a text of one-byte, non-newline chars has an all-`false` shape of its length -/
def plainAscii (t : Text) : Prop := ∀ c ∈ t, c.utf8Size = 1 ∧ c ≠ '\n'

theorem bshape_plain (t : Text) (h : plainAscii t) : bshape t = List.replicate t.length false := by
  induction t with
  | nil => simp [bshape]
  | cons c cs ih =>
    have hc := h c (by simp)
    simp only [bshape, hc.2, if_false, hc.1, List.length_cons]
    rw [ih (fun x hx => h x (by simp [hx]))]
    simp [List.replicate_succ]

theorem dropBytes_add (a b : Text) (n : Nat) : dropBytes (ulen a + n) (a ++ b) = dropBytes n b := by
  induction a with
  | nil => simp [ulen]
  | cons c cs ih =>
    have hp := Char.utf8Size_pos c
    obtain ⟨m, hm⟩ : ∃ m, ulen (c :: cs) + n = m + 1 := ⟨c.utf8Size + ulen cs + n - 1, by simp [ulen]; omega⟩
    rw [hm]
    simp only [List.cons_append, dropBytes]
    have : m + 1 - c.utf8Size = ulen cs + n := by simp [ulen] at hm; omega
    rw [this, ih]

/-- `replacen(pat, rep, 1)` keeps the shape when pattern and replacement have the same shape -/
theorem replaceFirst_shape (pat rep : Text) (h : bshape pat = bshape rep) (t : Text) :
    bshape (replaceFirst pat rep t) = bshape t := by
  induction t with
  | nil => simp [replaceFirst]
  | cons c cs ih =>
    simp only [replaceFirst]
    cases hs : stripPrefix pat (c :: cs) with
    | some rest =>
      have := stripPrefix_some hs
      simp only
      rw [this, bshape_append, bshape_append, h]
    | none =>
      simp only [bshape, ih]

theorem slash2_shape (c : Text) : bshape (slash2 c) = bshape c :=
  replaceFirst_shape _ _ (by decide) c

theorem hash_shape (c : Text) : bshape (hash c) = bshape c := by
  unfold hash
  split
  · exact replaceFirst_shape _ _ (by decide) c
  · rfl

theorem splitInclusive_flatten (t : Text) : (splitInclusive t).flatten = t := by
  induction t with
  | nil => simp [splitInclusive]
  | cons c cs ih =>
    simp only [splitInclusive]
    split
    · simp [ih]
    · cases hs : splitInclusive cs with
      | nil => rw [hs] at ih; simp at ih; simp [ih]
      | cons l ls => rw [hs] at ih; simp at ih ⊢; exact ih

theorem starLine_shape (line : Text) : bshape (starLine line) = bshape line := by
  unfold starLine
  split
  · rfl
  · rename_i i _
    dsimp only
    cases hr : dropBytes i line with
    | nil => rfl
    | cons x r =>
      by_cases hx : x = '*'
      · subst hx
        have h := take_append_drop i line
        rw [hr] at h
        simp only
        conv => rhs; rw [← h]
        rw [bshape_append, bshape_append]
        congr 1
      · split
        · rename_i r' heq; injection heq with h1 _; exact absurd h1 hx
        · rfl

theorem flatten_map_shape (f : Text → Text) (hf : ∀ l, bshape (f l) = bshape l) (ls : List Text) :
    bshape ((ls.map f).flatten) = bshape ls.flatten := by
  induction ls with
  | nil => rfl
  | cons l ls ih => simp [bshape_append, hf, ih]

/-- the `/* … */` normaliser keeps the shape -/
theorem cBlock_shape (c : Text) : bshape (cBlock c) = bshape c := by
  unfold cBlock
  cases hf : findSub "/*".toList c with
  | none => rfl
  | some o =>
    obtain ⟨pre, post, hc, ho⟩ := findSub_spec _ c o hf
    have hpat : ulen "/*".toList = 2 := by decide
    have htake : takeBytes o c = pre := by rw [hc, ← ho]; exact takeBytes_append_ulen _ _
    have hdrop : dropBytes (o + 2) c = post := by
      rw [hc, ← ho, ← List.append_assoc, ← hpat, ← ulen_append]; exact dropBytes_append_ulen _ _
    simp only [htake, hdrop]
    have e0 : bshape (spaces 2) = [false, false] := by decide
    have e1 : bshape "/*".toList = [false, false] := by decide
    have e2 : bshape "*/".toList = [false, false] := by decide
    cases hr : rfindSub "*/".toList post with
    | none =>
      simp only
      rw [hc]
      simp only [bshape_append, e0, e1, List.append_assoc]
    | some k =>
      obtain ⟨body, tail, hp, hk⟩ := rfindSub_spec _ post k hr
      have hpat2 : ulen "*/".toList = 2 := by decide
      have htb : takeBytes k post = body := by rw [hp, ← hk]; exact takeBytes_append_ulen _ _
      have hdt : dropBytes (k + 2) post = tail := by
        rw [hp, ← hk, ← List.append_assoc, ← hpat2, ← ulen_append]; exact dropBytes_append_ulen _ _
      simp only [htb, hdt]
      rw [hc, hp]
      simp only [bshape_append]
      rw [flatten_map_shape starLine starLine_shape, splitInclusive_flatten]
      simp only [e0, e1, e2, List.append_assoc]

/-- the `<!-- … -->` normaliser keeps the shape -/
theorem xml_shape (c t : Text) (h : xml c = .ok t) : bshape t = bshape c := by
  unfold xml at h
  cases hf : findSub "<!--".toList c with
  | none => rw [hf] at h; cases h
  | some o =>
    cases hr : rfindSub "-->".toList c with
    | none => rw [hf, hr] at h; cases h
    | some k =>
      rw [hf, hr] at h
      simp only at h
      split at h
      · rename_i hle
        injection h with h
        obtain ⟨pre, post, hc, ho⟩ := findSub_spec _ c o hf
        obtain ⟨pre2, post2, hc2, hk⟩ := rfindSub_spec _ c k hr
        -- the part between the two delimiters
        have hp4 : ulen "<!--".toList = 4 := by decide
        have hp3 : ulen "-->".toList = 3 := by decide
        have htake : takeBytes o c = pre := by rw [hc, ← ho]; exact takeBytes_append_ulen _ _
        have hdrop3 : dropBytes (k + 3) c = post2 := by
          rw [hc2, ← hk, ← List.append_assoc, ← hp3, ← ulen_append]; exact dropBytes_append_ulen _ _
        -- mid = bytes o+4 .. k : use that c = takeBytes k c ++ dropBytes k c and the prefix structure
        have hmid : ∃ mid, pre2 = pre ++ ("<!--".toList ++ mid) := by
          have hpre2 : takeBytes k c = pre2 := by rw [hc2, ← hk]; exact takeBytes_append_ulen _ _
          have hd : dropBytes (o + 4) c = post := by
            rw [hc, ← ho, ← List.append_assoc, ← hp4, ← ulen_append]; exact dropBytes_append_ulen _ _
          -- pre ++ "<!--" is a prefix of pre2 because o + 4 ≤ k
          have hlen : ulen (pre ++ "<!--".toList) ≤ ulen pre2 := by rw [ulen_append, ho, hp4, hk]; exact hle
          have hpp : (pre ++ "<!--".toList) ++ post = pre2 ++ ("-->".toList ++ post2) := by
            rw [List.append_assoc, ← hc, hc2]
          obtain ⟨m, hm⟩ := prefix_of_ulen_le hpp hlen
          exact ⟨m, by rw [hm, List.append_assoc]⟩
        obtain ⟨mid, hmid⟩ := hmid
        have hslice : sliceBytes (o + 4) k c = mid := by
          unfold sliceBytes
          have hd : dropBytes (o + 4) c = mid ++ ("-->".toList ++ post2) := by
            rw [hc2, hmid]
            have : pre ++ ("<!--".toList ++ mid) ++ ("-->".toList ++ post2) =
                (pre ++ "<!--".toList) ++ (mid ++ ("-->".toList ++ post2)) := by simp [List.append_assoc]
            rw [this, ← ho, ← hp4, ← ulen_append]; exact dropBytes_append_ulen _ _
          have hk' : k - (o + 4) = ulen mid := by
            have := congrArg ulen hmid
            rw [ulen_append, ulen_append, hk, ho, hp4] at this; omega
          rw [hd, hk']; exact takeBytes_append_ulen _ _
        rw [← h, htake, hslice, hdrop3]
        conv => rhs; rw [hc2, hmid]
        simp only [bshape_append]
        have e4 : bshape (spaces 4) = bshape "<!--".toList := by decide
        have e3 : bshape (spaces 3) = bshape "-->".toList := by decide
        rw [e4, e3]
        simp [List.append_assoc]
      · cases h
where
  /-- two splittings of the same text: the shorter left part is a prefix of the longer -/
  prefix_of_ulen_le {x y u v : Text} (h : x ++ y = u ++ v) (hl : ulen x ≤ ulen u) : ∃ m, u = x ++ m := by
    induction x generalizing u with
    | nil => exact ⟨u, rfl⟩
    | cons a as ih =>
      cases u with
      | nil =>
        have := Char.utf8Size_pos a
        simp [ulen] at hl; omega
      | cons b bs =>
        simp only [List.cons_append, List.cons.injEq] at h
        obtain ⟨rfl, h⟩ := h
        have hl' : ulen as ≤ ulen bs := by simp [ulen] at hl; omega
        obtain ⟨m, hm⟩ := ih h hl'
        exact ⟨m, by rw [hm]; rfl⟩

end Bw.Comment

namespace Bw.Comment
open Bw Bw.Blocks

theorem findChar_spec (f : Char → Bool) : ∀ (t : Text) (i : Nat), findChar f t = some i →
    ∃ a x b, t = a ++ x :: b ∧ ulen a = i ∧ f x = true := by
  intro t
  induction t with
  | nil => intro i h; simp [findChar] at h
  | cons c cs ih =>
    intro i h
    simp only [findChar] at h
    split at h
    · rename_i hc
      injection h with h
      exact ⟨[], c, cs, rfl, by simp [ulen, h], hc⟩
    · cases hf : findChar f cs with
      | none => rw [hf] at h; cases h
      | some k =>
        rw [hf] at h
        simp only [Option.map_some, Option.some.injEq] at h
        obtain ⟨a, x, b, ht, hu, hx⟩ := ih k hf
        exact ⟨c :: a, x, b, by simp [ht], by simp only [ulen, hu]; omega, hx⟩

theorem rfindChar_spec (f : Char → Bool) : ∀ (t : Text) (i : Nat), rfindChar f t = some i →
    ∃ a x b, t = a ++ x :: b ∧ ulen a = i ∧ f x = true := by
  intro t
  induction t with
  | nil => intro i h; simp [rfindChar] at h
  | cons c cs ih =>
    intro i h
    simp only [rfindChar] at h
    cases hf : rfindChar f cs with
    | some k =>
      rw [hf] at h
      injection h with h
      obtain ⟨a, x, b, ht, hu, hx⟩ := ih k hf
      exact ⟨c :: a, x, b, by simp [ht], by simp only [ulen, hu]; omega, hx⟩
    | none =>
      rw [hf] at h
      simp only at h
      split at h
      · rename_i hc
        injection h with h
        exact ⟨[], c, cs, rfl, by simp [ulen, h], hc⟩
      · cases h

theorem blankKeepBreaks_shape (t : Text) : bshape (blankKeepBreaks t) = bshape t := by
  induction t with
  | nil => rfl
  | cons c cs ih =>
    have : blankKeepBreaks (c :: cs) = (if c = '\n' || c = '\r' then [c] else spaces c.utf8Size) ++ blankKeepBreaks cs := by
      simp [blankKeepBreaks]
    rw [this, bshape_append, ih]
    simp only [bshape]
    congr 1
    by_cases hn : c = '\n'
    · subst hn; decide
    · by_cases hr : c = '\r'
      · subst hr; decide
      · simp only [hn, hr, decide_false, Bool.or_self, Bool.false_eq_true, if_false, bshape_spaces]

/-- the Markdown link-definition normaliser keeps the shape -/
theorem mdLink_shape (c t : Text) (h : mdLink c = some t) : bshape t = bshape c := by
  unfold mdLink at h
  cases hf : findSub "[//]:".toList c with
  | none => rw [hf] at h; cases h
  | some p =>
    rw [hf] at h
    simp only at h
    obtain ⟨A, R1, hc, hp⟩ := findSub_spec _ c p hf
    have hP : ulen "[//]:".toList = 5 := by decide
    have hd5 : dropBytes (p + 5) c = R1 := by
      rw [hc, ← hp, ← List.append_assoc, ← hP, ← ulen_append]; exact dropBytes_append_ulen _ _
    rw [hd5] at h
    cases hfc : findChar (fun ch => ch = '(' || ch = '"' || ch = '\'') R1 with
    | none => rw [hfc] at h; cases h
    | some i =>
      rw [hfc] at h
      simp only at h
      obtain ⟨B, x, R2, hR1, hi, hx⟩ := findChar_spec _ R1 i hfc
      have hx1 : x.utf8Size = 1 ∧ x ≠ '\n' := by
        simp only [Bool.or_eq_true, decide_eq_true_eq] at hx
        rcases hx with (rfl | rfl) | rfl <;> decide
      -- c = (A ++ P ++ B) ++ x :: R2, with byte length i + (p + 5)
      have hcx : c = (A ++ ("[//]:".toList ++ B)) ++ x :: R2 := by rw [hc, hR1]; simp [List.append_assoc]
      have hlen : ulen (A ++ ("[//]:".toList ++ B)) = i + (p + 5) := by
        rw [ulen_append, ulen_append, hp, hP, hi]; omega
      have hdo : dropBytes (i + (p + 5)) c = x :: R2 := by
        conv => lhs; rhs; rw [hcx]
        rw [← hlen]; exact dropBytes_append_ulen _ _
      rw [hdo] at h
      simp only at h
      generalize hcc : (if x = '(' then ')' else x) = cc at h
      have hcc1 : cc.utf8Size = 1 ∧ cc ≠ '\n' := by
        rw [← hcc]
        split
        · decide
        · exact hx1
      cases hrf : rfindChar (· = cc) c with
      | none => rw [hrf] at h; cases h
      | some k =>
        rw [hrf] at h
        simp only at h
        split at h
        · cases h
        · rename_i hk
          injection h with h
          obtain ⟨L, y, Z, hcL, hkL, hy⟩ := rfindChar_spec _ c k hrf
          have hy' : y = cc := by simpa using hy
          subst hy'
          -- (A ++ P ++ B ++ [x]) is a prefix of L since o + 1 ≤ k
          have hlen1 : ulen ((A ++ ("[//]:".toList ++ B)) ++ [x]) ≤ ulen L := by
            rw [ulen_append, hlen, hkL]; simp [ulen, hx1.1]; omega
          have heq : ((A ++ ("[//]:".toList ++ B)) ++ [x]) ++ R2 = L ++ y :: Z := by
            rw [← hcL, hcx]; simp [List.append_assoc]
          obtain ⟨M, hM⟩ := xml_shape.prefix_of_ulen_le heq hlen1
          have hcM : c = ((A ++ ("[//]:".toList ++ B)) ++ [x]) ++ (M ++ y :: Z) := by
            rw [hcL, hM]; simp [List.append_assoc]
          have hkM : k = i + (p + 5) + 1 + ulen M := by
            have := congrArg ulen hM
            rw [ulen_append, ulen_append, hlen, hkL] at this
            simp [ulen, hx1.1] at this; omega
          -- the five pieces
          have t1 : takeBytes p c = A := by rw [hc, ← hp]; exact takeBytes_append_ulen _ _
          have t2 : sliceBytes (p + 5) (i + (p + 5) + 1) c = B ++ [x] := by
            unfold sliceBytes
            rw [hd5, hR1]
            have : i + (p + 5) + 1 - (p + 5) = ulen (B ++ [x]) := by rw [ulen_append, hi]; simp [ulen, hx1.1]; omega
            rw [this]
            have e : B ++ x :: R2 = (B ++ [x]) ++ R2 := by simp
            rw [e]; exact takeBytes_append_ulen _ _
          have t3 : sliceBytes (i + (p + 5) + 1) k c = M := by
            unfold sliceBytes
            have hd : dropBytes (i + (p + 5) + 1) c = M ++ y :: Z := by
              conv => lhs; rhs; rw [hcM]
              have : i + (p + 5) + 1 = ulen ((A ++ ("[//]:".toList ++ B)) ++ [x]) := by
                rw [ulen_append, hlen]; simp [ulen, hx1.1]
              rw [this]; exact dropBytes_append_ulen _ _
            rw [hd]
            have : k - (i + (p + 5) + 1) = ulen M := by omega
            rw [this]; exact takeBytes_append_ulen _ _
          have t4 : (if k + 1 < ulen c then dropBytes (k + 1) c else []) = Z := by
            have hd : dropBytes (k + 1) c = Z := by
              have e : c = (L ++ [y]) ++ Z := by rw [hcL]; simp
              conv => lhs; rhs; rw [e]
              have : k + 1 = ulen (L ++ [y]) := by rw [ulen_append, hkL]; simp [ulen, hcc1.1]
              rw [this]; exact dropBytes_append_ulen _ _
            have hc' : ulen c = k + 1 + ulen Z := by
              rw [hcL, ulen_append, hkL]; simp [ulen, hcc1.1]; omega
            split
            · exact hd
            · have hz : ulen Z = 0 := by omega
              cases Z with
              | nil => rfl
              | cons z zs =>
                have hp := Char.utf8Size_pos z
                simp only [ulen] at hz
                omega
          have hsum : i + (p + 5) - (p + 5) + 1 = i + 1 := by omega
          rw [← h, t1, t2, t3, t4]
          conv => rhs; rw [hcM]
          simp only [bshape_append, blankKeepBreaks_shape]
          have e5 : bshape (spaces 5) = bshape "[//]:".toList := by decide
          have ey : bshape (' ' :: Z) = bshape (y :: Z) := by
            simp only [bshape]
            have h1 : (' ' : Char) ≠ '\n' := by decide
            have h2 : (' ' : Char).utf8Size = 1 := by decide
            simp [h1, h2, hcc1.1, hcc1.2]
          rw [e5, ey]
          simp [List.append_assoc]

/-- **every normaliser keeps the byte-level line structure of the comment** -/
theorem normalise_shape (parser kind : String) (c t : Text) (h : normalise parser kind c = .ok (some t)) :
    bshape t = bshape c := by
  unfold normalise at h
  split at h
  · cases hx : xml c with
    | error e => rw [hx] at h; cases h
    | ok v =>
      rw [hx] at h
      simp only [Except.map] at h
      injection h with h; injection h with h
      subst h
      exact xml_shape c v hx
  · split at h
    · rename_i r hr
      injection h with h
      subst h
      unfold normalisePure at hr
      simp only at hr
      have rf3 := replaceFirst_shape "///".toList "   ".toList (by decide)
      have rf3b := replaceFirst_shape "//!".toList "   ".toList (by decide)
      have rfh := replaceFirst_shape ['#'] [' '] (by decide)
      have rfd := replaceFirst_shape "--".toList "  ".toList (by decide)
      split at hr
      all_goals first
        | (cases hr; done)
        | (injection hr with hr
           repeat' (split at hr)
           all_goals first
             | (cases hr; done)
             | (injection hr with hr; subst hr;
                first | exact slash2_shape c | exact cBlock_shape c | exact hash_shape c | exact rf3 c | exact rf3b c
                      | exact rfh c | exact rfd c | rfl)
             | exact mdLink_shape c _ hr)
    · cases h

end Bw.Comment
