import Bw.Lemmas.Position
/-! Byte-level line structure of a text (`bshape`): one flag per byte, `true` for a newline byte. Positions
    (row, byte column) depend on a text only through its `bshape`; the comment normalisers preserve it. -/
namespace Bw.Blocks
open Bw

/-- one flag per UTF-8 byte of the text: `true` exactly for the newline byte -/
def bshape : Text → List Bool
  | [] => []
  | c :: cs => (if c = '\n' then [true] else List.replicate c.utf8Size false) ++ bshape cs

theorem bshape_append (a b : Text) : bshape (a ++ b) = bshape a ++ bshape b := by
  induction a with
  | nil => simp [bshape]
  | cons c cs ih => simp [bshape, ih, List.append_assoc]

theorem bshape_length (t : Text) : (bshape t).length = ulen t := by
  induction t with
  | nil => simp [bshape, ulen]
  | cons c cs ih =>
    simp only [bshape, List.length_append, ih, ulen]
    split
    · rename_i h; subst h; simp; decide
    · simp

/-- reading a byte sequence from position `p` -/
def advB (p : Pos) : List Bool → Pos
  | [] => p
  | true :: bs => advB ⟨p.line + 1, 1⟩ bs
  | false :: bs => advB ⟨p.line, p.col + 1⟩ bs

theorem advB_append (p : Pos) (a b : List Bool) : advB p (a ++ b) = advB (advB p a) b := by
  induction a generalizing p with
  | nil => rfl
  | cons x xs ih => cases x <;> simp [advB, ih]

theorem advB_replicate (p : Pos) (n : Nat) : advB p (List.replicate n false) = ⟨p.line, p.col + n⟩ := by
  induction n generalizing p with
  | zero => simp [advB]
  | succ n ih => simp only [List.replicate_succ, advB, ih]; congr 1; omega

/-- `advance` only depends on the byte-level line structure -/
theorem advance_eq_advB (p : Pos) (t : Text) : advance p t = advB p (bshape t) := by
  induction t generalizing p with
  | nil => rfl
  | cons c cs ih =>
    simp only [advance, bshape]
    split
    · simp [advB, ih]
    · rw [advB_append, advB_replicate, ih]

theorem advance_append (p : Pos) (a b : Text) : advance p (a ++ b) = advance (advance p a) b := by
  rw [advance_eq_advB, advance_eq_advB, advance_eq_advB, bshape_append, advB_append]

/-- (row, byte column) of byte offset `n` of a byte sequence, the way tree-sitter counts -/
def bytePos (bs : List Bool) (n : Nat) : Pos := advB ⟨1, 1⟩ (bs.take n)

theorem posOfAux_eq (n line col : Nat) (t : Text) :
    posOfAux n line col t = ((advance ⟨line, col⟩ (takeBytes n t)).line, (advance ⟨line, col⟩ (takeBytes n t)).col) := by
  induction t generalizing n line col with
  | nil => cases n <;> simp [posOfAux, takeBytes, advance]
  | cons c cs ih =>
    cases n with
    | zero => simp [posOfAux, takeBytes, advance]
    | succ n =>
      simp only [posOfAux, takeBytes, advance]
      split <;> exact ih _ _ _

/-- on a char boundary, `posOf` is the byte-level position -/
theorem posOf_eq_bytePos (pre rest : Text) :
    posOf (pre ++ rest) (ulen pre) = ((bytePos (bshape (pre ++ rest)) (ulen pre)).line, (bytePos (bshape (pre ++ rest)) (ulen pre)).col) := by
  unfold posOf
  rw [posOfAux_eq, takeBytes_append_ulen, advance_eq_advB]
  unfold bytePos
  rw [bshape_append, ← bshape_length pre, List.take_left' rfl]

/-- **positions inside a comment**: if the comment text has the byte-level line structure of the source
    range it was cut from (`[s, e)`), and the comment's start position is the position of byte `s`,
    then `source_position_at(q)` is the source position of byte `s + q` -/
theorem sourcePositionAt_is_source_position (c : Comment) (fileShape : List Bool) (s e : Nat) (pre rest : Text) (ch : Char)
    (htext : c.text = pre ++ ch :: rest) (h1 : ch.utf8Size = 1) (hnl : ch ≠ '\n')
    (hstart : c.posStart = bytePos fileShape s)
    (hshape : bshape c.text = (fileShape.drop s).take (e - s)) (hq : ulen pre ≤ e - s) :
    sourcePositionAt (ulen pre) c = bytePos fileShape (s + ulen pre) := by
  rw [sourcePositionAt_spec c pre rest ch htext h1 hnl, advance_eq_advB, hstart]
  unfold bytePos
  rw [← advB_append]
  congr 1
  have hpre : bshape pre = (bshape c.text).take (ulen pre) := by
    rw [htext, bshape_append, ← bshape_length pre, List.take_left' rfl]
  rw [hpre, hshape, List.take_take, Nat.min_eq_left hq, List.take_add]

end Bw.Blocks
