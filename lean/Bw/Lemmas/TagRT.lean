import Bw.Tag
/-! Helper definitions (printing of tags) and lemmas for the C05 round trip. -/
namespace Bw.Tag
variable (cfg : Cfg)

-- printing
inductive Val where
  | bare
  | dq (v : Text)
  | sq (v : Text)
  | uq (v : Text)

structure Attr where
  pre : Text      -- whitespace before, nonempty
  name : Text
  ws1 : Text      -- whitespace before '=' (ignored when bare)
  ws2 : Text      -- whitespace after '='
  val : Val

def Val.text : Val → Text
  | .bare => []
  | .dq v => v
  | .sq v => v
  | .uq v => v

def Attr.render (a : Attr) : Text :=
  a.pre ++ a.name ++
  match a.val with
  | .bare => []
  | .dq v => a.ws1 ++ '=' :: a.ws2 ++ '"' :: v ++ ['"']
  | .sq v => a.ws1 ++ '=' :: a.ws2 ++ '\'' :: v ++ ['\'']
  | .uq v => a.ws1 ++ '=' :: a.ws2 ++ v

def allp (p : Char → Bool) (t : Text) : Prop := ∀ c ∈ t, p c = true

structure Attr.WF (a : Attr) : Prop where
  pre_ne : a.pre ≠ []
  pre_sp : allp isSp a.pre
  name_ne : a.name ≠ []
  name_ok : allp cfg.isName a.name
  ws1_sp : allp isSp a.ws1
  ws2_sp : allp isSp a.ws2
  val_ok : match a.val with
    | .bare => True
    | .dq v => ∀ c ∈ v, c ≠ '"'
    | .sq v => ∀ c ∈ v, c ≠ '\''
    | .uq v => v ≠ [] ∧ allp cfg.isName v

structure Cfg.WF : Prop where
  sp_not_name : ∀ c, isSp c = true → cfg.isName c = false
  eq_not_name : cfg.isName '=' = false
  gt_not_name : cfg.isName '>' = false
  dq_not_name : cfg.isName '"' = false
  sq_not_name : cfg.isName '\'' = false

theorem span_append_stop (p : Char → Bool) (a : Text) (c : Char) (r : Text)
    (ha : allp p a) (hc : p c = false) : span p (a ++ c :: r) = (a, c :: r) := by
  induction a with
  | nil => simp [span, hc]
  | cons x xs ih =>
    have hx : p x = true := ha x (by simp)
    have := ih (fun c hc' => ha c (by simp [hc']))
    simp [span, hx, this]

theorem span_all_nil (p : Char → Bool) (a : Text) (ha : allp p a) : span p a = (a, []) := by
  induction a with
  | nil => simp [span]
  | cons x xs ih =>
    have hx : p x = true := ha x (by simp)
    have := ih (fun c hc' => ha c (by simp [hc']))
    simp [span, hx, this]


theorem isEmpty_false_of_ne' {t : Text} (h : t ≠ []) : t.isEmpty = false := by
  cases t <;> simp_all

theorem isSp_not_name (hc : cfg.WF) {c : Char} (h : cfg.isName c = true) : isSp c = false := by
  cases hsp : isSp c with
  | false => rfl
  | true => have := hc.sp_not_name c hsp; simp_all

/-- what may follow an attribute: the next char is not a name char, and after blanks there is no `=` -/
structure Follows (rest : Text) : Prop where
  head_not_name : ∀ c r, rest = c :: r → cfg.isName c = false
  no_eq : ∀ w r, allp isSp w → rest ≠ w ++ '=' :: r

theorem span_stop_or_nil (p : Char → Bool) (a rest : Text) (ha : allp p a)
    (hr : ∀ c r, rest = c :: r → p c = false) : span p (a ++ rest) = (a, rest) := by
  cases rest with
  | nil => simpa using span_all_nil p a ha
  | cons c r => exact span_append_stop p a c r ha (hr c r rfl)


theorem allp_nil (p : Char → Bool) : allp p [] := by intro c hc; cases hc

theorem span_decomp (p : Char → Bool) : ∀ (t w r : Text), span p t = (w, r) → allp p w ∧ t = w ++ r
  | [], w, r, h => by
    simp [span] at h; obtain ⟨rfl, rfl⟩ := h
    exact ⟨allp_nil p, rfl⟩
  | c :: cs, w, r, h => by
    unfold span at h
    by_cases hcp : p c = true
    · simp only [hcp, if_true] at h
      generalize hsp : span p cs = pr at h
      obtain ⟨w', r'⟩ := pr
      simp only [Prod.mk.injEq] at h
      obtain ⟨hw, hr⟩ := h
      subst hw; subst hr
      have ih := span_decomp p cs w' r' hsp
      refine ⟨?_, by rw [List.cons_append, ← ih.2]⟩
      intro x hx
      rcases List.mem_cons.1 hx with rfl | hx
      · exact hcp
      · exact ih.1 x hx
    · simp only [hcp, Bool.false_eq_true, if_false, Prod.mk.injEq] at h
      obtain ⟨hw, hr⟩ := h
      subst hw; subst hr
      exact ⟨allp_nil p, rfl⟩

theorem parseValue_dq' (v rest : Text) (hv : ∀ c ∈ v, c ≠ '"') :
    parseValue cfg ('"' :: (v ++ '"' :: rest)) = some (v, rest) := by
  have h := span_append_stop (· != '"') v '"' rest (by intro c hc; simp [hv c hc]) (by simp)
  simp [parseValue, h]

theorem parseValue_sq' (v rest : Text) (hv : ∀ c ∈ v, c ≠ '\'') :
    parseValue cfg ('\'' :: (v ++ '\'' :: rest)) = some (v, rest) := by
  have h := span_append_stop (· != '\'') v '\'' rest (by intro c hc; simp [hv c hc]) (by simp)
  simp [parseValue, h]

theorem parseValue_uq' (hc : cfg.WF) (v rest : Text) (hne : v ≠ []) (hv : allp cfg.isName v)
    (hr : ∀ c r, rest = c :: r → cfg.isName c = false) :
    parseValue cfg (v ++ rest) = some (v, rest) := by
  obtain ⟨x, xs, rfl⟩ : ∃ x xs, v = x :: xs := by
    cases v with
    | nil => exact absurd rfl hne
    | cons x xs => exact ⟨x, xs, rfl⟩
  have hx : cfg.isName x = true := hv x (by simp)
  have hxdq : x ≠ '"' := by intro h; rw [h, hc.dq_not_name] at hx; cases hx
  have hxsq : x ≠ '\'' := by intro h; rw [h, hc.sq_not_name] at hx; cases hx
  have hs := span_stop_or_nil cfg.isName (x :: xs) rest hv hr
  simp only [List.cons_append] at hs ⊢
  unfold parseValue
  split
  · rename_i heq; cases heq; exact absurd rfl hxdq
  · rename_i heq; cases heq; exact absurd rfl hxsq
  · simp [hs]

/-- one attribute (any of the four value forms) is parsed back, whatever follows it -/
theorem parseAttr_render (hc : cfg.WF) (a : Attr) (h : a.WF cfg) (rest : Text) (hf : Follows cfg rest) :
    parseAttr cfg (a.render ++ rest) = some ((a.name, a.val.text), rest) := by
  obtain ⟨n0, ns, hn⟩ : ∃ n0 ns, a.name = n0 :: ns := by
    cases hnm : a.name with
    | nil => exact absurd hnm h.name_ne
    | cons x xs => exact ⟨x, xs, rfl⟩
  have hn0 : cfg.isName n0 = true := h.name_ok n0 (by simp [hn])
  have hn0sp : isSp n0 = false := isSp_not_name cfg hc hn0
  have hwf := h.val_ok
  cases hval : a.val with
  | bare =>
    have e1 : span isSp (a.pre ++ (a.name ++ rest)) = (a.pre, a.name ++ rest) := by
      rw [hn]; exact span_append_stop isSp a.pre n0 _ h.pre_sp hn0sp
    have e2 : span cfg.isName (a.name ++ rest) = (a.name, rest) :=
      span_stop_or_nil cfg.isName a.name rest h.name_ok hf.head_not_name
    -- after the name: blanks then not '='
    have e3 : ∀ w r', span isSp rest = (w, r') → ∀ r3, r' ≠ '=' :: r3 := by
      intro w r' hs r3 hr'
      have hw := span_decomp isSp rest w r' hs
      exact hf.no_eq w r3 hw.1 (by rw [hw.2, hr'])
    simp only [parseAttr, Attr.render, hval, List.append_nil, List.append_assoc, e1, e2,
      isEmpty_false_of_ne' h.pre_ne, isEmpty_false_of_ne' h.name_ne, Val.text]
    generalize hs : span isSp rest = pr
    obtain ⟨w, r'⟩ := pr
    have := e3 w r' hs
    cases r' with
    | nil => simp
    | cons c r3 =>
      by_cases hceq : c = '='
      · subst hceq; exact absurd rfl (this r3)
      · simp only [Bool.false_eq_true, if_false]
  | dq v =>
    rw [hval] at hwf; simp only at hwf
    have e1 : span isSp (a.pre ++ (a.name ++ (a.ws1 ++ '=' :: (a.ws2 ++ '"' :: (v ++ '"' :: rest))))) =
        (a.pre, a.name ++ (a.ws1 ++ '=' :: (a.ws2 ++ '"' :: (v ++ '"' :: rest)))) := by
      rw [hn]; exact span_append_stop isSp a.pre n0 _ h.pre_sp hn0sp
    have e2 : span cfg.isName (a.name ++ (a.ws1 ++ '=' :: (a.ws2 ++ '"' :: (v ++ '"' :: rest)))) =
        (a.name, a.ws1 ++ '=' :: (a.ws2 ++ '"' :: (v ++ '"' :: rest))) := by
      cases hw : a.ws1 with
      | nil => exact span_append_stop cfg.isName a.name '=' _ h.name_ok hc.eq_not_name
      | cons w ws =>
        have : isSp w = true := h.ws1_sp w (by simp [hw])
        exact span_append_stop cfg.isName a.name w _ h.name_ok (hc.sp_not_name w this)
    have e3 := span_append_stop isSp a.ws1 '=' (a.ws2 ++ '"' :: (v ++ '"' :: rest)) h.ws1_sp (by decide)
    have e4 := span_append_stop isSp a.ws2 '"' (v ++ '"' :: rest) h.ws2_sp (by decide)
    have e5 := parseValue_dq' cfg v rest hwf
    simp [parseAttr, Attr.render, hval, List.append_assoc, e1, e2, e3, e4, e5, Val.text,
      isEmpty_false_of_ne' h.pre_ne, isEmpty_false_of_ne' h.name_ne]
  | sq v =>
    rw [hval] at hwf; simp only at hwf
    have e1 : span isSp (a.pre ++ (a.name ++ (a.ws1 ++ '=' :: (a.ws2 ++ '\'' :: (v ++ '\'' :: rest))))) =
        (a.pre, a.name ++ (a.ws1 ++ '=' :: (a.ws2 ++ '\'' :: (v ++ '\'' :: rest)))) := by
      rw [hn]; exact span_append_stop isSp a.pre n0 _ h.pre_sp hn0sp
    have e2 : span cfg.isName (a.name ++ (a.ws1 ++ '=' :: (a.ws2 ++ '\'' :: (v ++ '\'' :: rest)))) =
        (a.name, a.ws1 ++ '=' :: (a.ws2 ++ '\'' :: (v ++ '\'' :: rest))) := by
      cases hw : a.ws1 with
      | nil => exact span_append_stop cfg.isName a.name '=' _ h.name_ok hc.eq_not_name
      | cons w ws =>
        have : isSp w = true := h.ws1_sp w (by simp [hw])
        exact span_append_stop cfg.isName a.name w _ h.name_ok (hc.sp_not_name w this)
    have e3 := span_append_stop isSp a.ws1 '=' (a.ws2 ++ '\'' :: (v ++ '\'' :: rest)) h.ws1_sp (by decide)
    have e4 := span_append_stop isSp a.ws2 '\'' (v ++ '\'' :: rest) h.ws2_sp (by decide)
    have e5 := parseValue_sq' cfg v rest hwf
    simp [parseAttr, Attr.render, hval, List.append_assoc, e1, e2, e3, e4, e5, Val.text,
      isEmpty_false_of_ne' h.pre_ne, isEmpty_false_of_ne' h.name_ne]
  | uq v =>
    rw [hval] at hwf; simp only at hwf
    obtain ⟨v0, vs, hv⟩ : ∃ v0 vs, v = v0 :: vs := by
      cases hvv : v with
      | nil => exact absurd hvv hwf.1
      | cons x xs => exact ⟨x, xs, rfl⟩
    have hv0 : cfg.isName v0 = true := hwf.2 v0 (by simp [hv])
    have hv0sp : isSp v0 = false := isSp_not_name cfg hc hv0
    have e1 : span isSp (a.pre ++ (a.name ++ (a.ws1 ++ '=' :: (a.ws2 ++ (v ++ rest))))) =
        (a.pre, a.name ++ (a.ws1 ++ '=' :: (a.ws2 ++ (v ++ rest)))) := by
      rw [hn]; exact span_append_stop isSp a.pre n0 _ h.pre_sp hn0sp
    have e2 : span cfg.isName (a.name ++ (a.ws1 ++ '=' :: (a.ws2 ++ (v ++ rest)))) =
        (a.name, a.ws1 ++ '=' :: (a.ws2 ++ (v ++ rest))) := by
      cases hw : a.ws1 with
      | nil => exact span_append_stop cfg.isName a.name '=' _ h.name_ok hc.eq_not_name
      | cons w ws =>
        have : isSp w = true := h.ws1_sp w (by simp [hw])
        exact span_append_stop cfg.isName a.name w _ h.name_ok (hc.sp_not_name w this)
    have e3 := span_append_stop isSp a.ws1 '=' (a.ws2 ++ (v ++ rest)) h.ws1_sp (by decide)
    have e4 : span isSp (a.ws2 ++ (v ++ rest)) = (a.ws2, v ++ rest) := by
      rw [hv]; exact span_append_stop isSp a.ws2 v0 _ h.ws2_sp hv0sp
    have e5 := parseValue_uq' cfg hc v rest hwf.1 hwf.2 hf.head_not_name
    simp [parseAttr, Attr.render, hval, List.append_assoc, e1, e2, e3, e4, e5, Val.text,
      isEmpty_false_of_ne' h.pre_ne, isEmpty_false_of_ne' h.name_ne]

def renderAll (as : List Attr) : Text := (as.map Attr.render).flatten

def tailOf (wsEnd rest : Text) : Text := wsEnd ++ '>' :: rest

/-- text that starts with blanks followed by a char that is neither a name char nor `=` … -/
theorem follows_of_blank_then (hc : cfg.WF) (w : Text) (c : Char) (r : Text) (hw : allp isSp w)
    (hcn : cfg.isName c = false) (hce : c ≠ '=') (hcs : isSp c = false) : Follows cfg (w ++ c :: r) := by
  constructor
  · intro x xs hx
    cases w with
    | nil => simp at hx; rw [← hx.1]; exact hcn
    | cons y ys =>
      simp at hx
      rw [← hx.1]
      exact hc.sp_not_name y (hw y (by simp))
  · intro w' r' hw' heq
    -- both sides: maximal blank prefix is determined
    have h1 := span_append_stop isSp w c r hw hcs
    have h2 := span_append_stop isSp w' '=' r' hw' (by decide)
    rw [heq] at h1
    rw [h1] at h2
    simp only [Prod.mk.injEq, List.cons.injEq] at h2
    exact hce h2.2.1

theorem follows_tail (hc : cfg.WF) (wsEnd rest : Text) (hw : allp isSp wsEnd) :
    Follows cfg (tailOf wsEnd rest) :=
  follows_of_blank_then cfg hc wsEnd '>' rest hw hc.gt_not_name (by decide) (by decide)

theorem follows_attrs (hc : cfg.WF) (a : Attr) (as : List Attr) (ha : a.WF cfg) (tl : Text) :
    Follows cfg ((a.render ++ renderAll as) ++ tl) := by
  obtain ⟨n0, ns, hn⟩ : ∃ n0 ns, a.name = n0 :: ns := by
    cases hnm : a.name with
    | nil => exact absurd hnm ha.name_ne
    | cons x xs => exact ⟨x, xs, rfl⟩
  have hn0 : cfg.isName n0 = true := ha.name_ok n0 (by simp [hn])
  -- a.render = pre ++ n0 :: (ns ++ valuePart)
  have hne : n0 ≠ '=' := by intro h; rw [h, hc.eq_not_name] at hn0; cases hn0
  have hshape : ∃ r, (a.render ++ renderAll as) ++ tl = a.pre ++ n0 :: r := by
    unfold Attr.render
    rw [hn]
    simp only [List.append_assoc, List.cons_append]
    exact ⟨_, rfl⟩
  obtain ⟨r, hr⟩ := hshape
  rw [hr]
  -- the first char after the (non-empty) blanks is a name char: so Follows needs the *blank* head
  constructor
  · intro x xs hx
    cases hp : a.pre with
    | nil => exact absurd hp ha.pre_ne
    | cons y ys =>
      rw [hp] at hx; simp at hx; rw [← hx.1]
      exact hc.sp_not_name y (ha.pre_sp y (by simp [hp]))
  · intro w' r' hw' heq
    have h1 := span_append_stop isSp a.pre n0 r ha.pre_sp (isSp_not_name cfg hc hn0)
    have h2 := span_append_stop isSp w' '=' r' hw' (by decide)
    rw [heq] at h1
    rw [h1] at h2
    simp only [Prod.mk.injEq, List.cons.injEq] at h2
    exact hne h2.2.1

theorem parseAttr_tail_none (hc : cfg.WF) (wsEnd rest : Text) (hw : allp isSp wsEnd) :
    parseAttr cfg (tailOf wsEnd rest) = none := by
  have h1 := span_append_stop isSp wsEnd '>' rest hw (by decide)
  unfold parseAttr tailOf
  simp only [h1]
  cases wsEnd with
  | nil => simp
  | cons w ws =>
    have : span cfg.isName ('>' :: rest) = ([], '>' :: rest) := by simp [span, hc.gt_not_name]
    simp [this]

theorem parseAttrs_render (hc : cfg.WF) (as : List Attr) (hwf : ∀ a ∈ as, a.WF cfg)
    (wsEnd rest : Text) (hw : allp isSp wsEnd) (fuel : Nat) (hfuel : as.length < fuel) :
    parseAttrs cfg fuel (renderAll as ++ tailOf wsEnd rest) =
      (as.map (fun a => (a.name, a.val.text)), tailOf wsEnd rest) := by
  induction as generalizing fuel with
  | nil =>
    cases fuel with
    | zero => omega
    | succ f => simp [renderAll, parseAttrs, parseAttr_tail_none cfg hc wsEnd rest hw]
  | cons a as ih =>
    cases fuel with
    | zero => omega
    | succ f =>
      have ha := hwf a (by simp)
      have hrest : Follows cfg (renderAll as ++ tailOf wsEnd rest) := by
        cases as with
        | nil => simpa [renderAll] using follows_tail cfg hc wsEnd rest hw
        | cons b bs =>
          have := follows_attrs cfg hc b bs (hwf b (by simp)) (tailOf wsEnd rest)
          simpa [renderAll, List.append_assoc] using this
      have hstep := parseAttr_render cfg hc a ha (renderAll as ++ tailOf wsEnd rest) hrest
      have hsplit : renderAll (a :: as) ++ tailOf wsEnd rest = a.render ++ (renderAll as ++ tailOf wsEnd rest) := by
        simp [renderAll, List.append_assoc]
      rw [hsplit]
      simp only [parseAttrs, hstep]
      rw [ih (fun b hb => hwf b (by simp [hb])) f (by simp at hfuel; omega)]
      simp

/-- C05 round trip: any well-formed attribute list, any layout, any continuation. -/
theorem parseStart_render (hc : cfg.WF) (as : List Attr) (hwf : ∀ a ∈ as, a.WF cfg)
    (wsEnd rest : Text) (hw : allp isSp wsEnd) :
    parseStart cfg ("<block".toList ++ (renderAll as ++ tailOf wsEnd rest)) =
      some (as.map (fun a => (a.name, a.val.text)), rest) := by
  have hlen : as.length < (renderAll as ++ tailOf wsEnd rest).length := by
    have h1 : as.length ≤ (renderAll as).length := by
      induction as with
      | nil => simp
      | cons a as ih =>
        have ha := hwf a (by simp)
        have h1 : 1 ≤ a.render.length := by
          cases hp : a.pre with
          | nil => exact absurd hp ha.pre_ne
          | cons x xs => simp [Attr.render, hp]
        have ih' := ih (fun b hb => hwf b (by simp [hb]))
        have e : renderAll (a :: as) = a.render ++ renderAll as := by simp [renderAll]
        rw [e, List.length_append, List.length_cons]
        omega
    simp [tailOf]; omega
  have hpre : stripPrefix "<block".toList ("<block".toList ++ (renderAll as ++ tailOf wsEnd rest)) =
      some (renderAll as ++ tailOf wsEnd rest) := by
    simp [stripPrefix]
  have h := parseAttrs_render cfg hc as hwf wsEnd rest hw _ hlen
  have hsp := span_append_stop isSp wsEnd '>' rest hw (by decide)
  unfold parseStart
  simp only [hpre, h]
  simp [tailOf, hsp]


end Bw.Tag
