import Bw.Merge
/-! Lemmas about the per-file merge of validator results (`Bw.Merge`). -/
namespace Bw.Merge
open Bw Bw.Pipe Bw.Val

theorem held_nil (k : Text) : held [] k = [] := rfl

theorem held_cons (e : Text × List Diag) (m : FileMap) (k : Text) :
    held (e :: m) k = if e.1 = k then e.2 else held m k := by
  unfold held
  simp only [List.find?_cons]
  by_cases h : e.1 = k <;> simp [h]

theorem held_mergeEntry (m : FileMap) (e : Text × List Diag) (k : Text) :
    held (mergeEntry m e) k = if e.1 = k then held m k ++ e.2 else held m k := by
  induction m with
  | nil =>
    simp only [mergeEntry, held_cons, held_nil, List.nil_append]
  | cons x rest ih =>
    obtain ⟨xk, xv⟩ := x
    simp only [mergeEntry]
    by_cases hx : xk = e.1
    · simp only [hx, if_true, held_cons]
      by_cases hk : e.1 = k <;> simp [hk]
    · simp only [hx, if_false, held_cons, ih]
      by_cases hk : e.1 = k
      · have : ¬ xk = k := fun h => hx (h.trans hk.symm)
        simp [hk, this]
      · simp [hk]

/-- the general merge law: after merging a sequence of entries, a file holds what it held before followed by the lists
    of the entries for that file, in order -/
theorem held_foldl_mergeEntry (es : List (Text × List Diag)) (acc : FileMap) (k : Text) :
    held (es.foldl mergeEntry acc) k = held acc k ++ ((es.filter (fun e => e.1 = k)).map (·.2)).flatten := by
  induction es generalizing acc with
  | nil => simp
  | cons e es ih =>
    simp only [List.foldl_cons, ih, held_mergeEntry, List.filter_cons]
    by_cases hk : e.1 = k <;> simp [hk]

theorem keys_mergeEntry (m : FileMap) (e : Text × List Diag) :
    keys (mergeEntry m e) = if e.1 ∈ keys m then keys m else keys m ++ [e.1] := by
  induction m with
  | nil => simp [mergeEntry, keys]
  | cons x rest ih =>
    obtain ⟨xk, xv⟩ := x
    simp only [mergeEntry]
    by_cases hx : xk = e.1
    · simp [hx, keys]
    · have hx' : ¬ e.1 = xk := fun h => hx h.symm
      simp only [hx, if_false]
      simp only [keys, List.map_cons, List.mem_cons, hx', false_or] at ih ⊢
      rw [ih]
      split <;> simp [*]

theorem nodup_mergeEntry (m : FileMap) (e : Text × List Diag) (h : (keys m).Nodup) : (keys (mergeEntry m e)).Nodup := by
  rw [keys_mergeEntry]
  split
  · exact h
  · rename_i hn
    exact List.nodup_append.2 ⟨h, by simp, by
      intro a ha b hb
      simp only [List.mem_singleton] at hb
      subst hb
      intro hab; subst hab; exact hn ha⟩

theorem nodup_foldl_mergeEntry (es : List (Text × List Diag)) (acc : FileMap) (h : (keys acc).Nodup) :
    (keys (es.foldl mergeEntry acc)).Nodup := by
  induction es generalizing acc with
  | nil => exact h
  | cons e es ih => exact ih _ (nodup_mergeEntry acc e h)

theorem mem_keys_foldl_mergeEntry (es : List (Text × List Diag)) (acc : FileMap) (k : Text) :
    k ∈ keys (es.foldl mergeEntry acc) ↔ k ∈ keys acc ∨ ∃ e ∈ es, e.1 = k := by
  induction es generalizing acc with
  | nil => simp
  | cons e es ih =>
    simp only [List.foldl_cons, ih, keys_mergeEntry, List.mem_cons]
    by_cases hm : e.1 ∈ keys acc
    · simp only [hm, if_true]
      constructor
      · rintro (h | ⟨x, hx, hk⟩)
        · exact Or.inl h
        · exact Or.inr ⟨x, Or.inr hx, hk⟩
      · rintro (h | ⟨x, hx | hx, hk⟩)
        · exact Or.inl h
        · subst hx; subst hk; exact Or.inl hm
        · exact Or.inr ⟨x, hx, hk⟩
    · simp only [hm, if_false, List.mem_append, List.mem_singleton]
      constructor
      · rintro ((h | h) | ⟨x, hx, hk⟩)
        · exact Or.inl h
        · exact Or.inr ⟨e, Or.inl rfl, h.symm⟩
        · exact Or.inr ⟨x, Or.inr hx, hk⟩
      · rintro (h | ⟨x, hx | hx, hk⟩)
        · exact Or.inl (Or.inl h)
        · subst hx; exact Or.inl (Or.inr hk.symm)
        · exact Or.inr ⟨x, hx, hk⟩



/-! ### a merged map holds, for every file, the concatenation of what the merged maps hold for it -/

theorem held_eq_filter (m : FileMap) (k : Text) (h : (keys m).Nodup) :
    ((m.filter (fun e => e.1 = k)).map (·.2)).flatten = held m k := by
  induction m with
  | nil => rfl
  | cons e m ih =>
    have hn : (keys m).Nodup := (List.nodup_cons.1 h).2
    have hne : e.1 ∉ keys m := (List.nodup_cons.1 h).1
    rw [held_cons, List.filter_cons]
    by_cases hk : e.1 = k
    · have hempty : m.filter (fun e => e.1 = k) = [] := by
        rw [List.filter_eq_nil_iff]
        intro x hx hxk
        have hxk' : x.1 = k := by simpa using hxk
        exact hne (List.mem_map.2 ⟨x, hx, hxk'.trans hk.symm⟩)
      simp [hk, hempty]
    · simp [hk, ih hn]

theorem held_mergeMap (acc m : FileMap) (k : Text) (h : (keys m).Nodup) :
    held (mergeMap acc m) k = held acc k ++ held m k := by
  unfold mergeMap
  rw [held_foldl_mergeEntry, held_eq_filter m k h]

theorem nodup_mergeMap (acc m : FileMap) (h : (keys acc).Nodup) : (keys (mergeMap acc m)).Nodup :=
  nodup_foldl_mergeEntry m acc h

theorem nodup_mergeAll (ms : List FileMap) : (keys (mergeAll ms)).Nodup := by
  unfold mergeAll
  suffices ∀ acc : FileMap, (keys acc).Nodup → (keys (ms.foldl mergeMap acc)).Nodup from this [] (by simp [keys])
  induction ms with
  | nil => intro acc h; exact h
  | cons m ms ih => intro acc h; exact ih _ (nodup_mergeMap acc m h)

theorem held_foldl_mergeMap (ms : List FileMap) (acc : FileMap) (k : Text) (h : ∀ m ∈ ms, (keys m).Nodup) :
    held (ms.foldl mergeMap acc) k = held acc k ++ (ms.map (held · k)).flatten := by
  induction ms generalizing acc with
  | nil => simp
  | cons m ms ih =>
    simp only [List.foldl_cons, List.map_cons, List.flatten_cons]
    rw [ih _ (fun x hx => h x (List.mem_cons_of_mem _ hx)), held_mergeMap acc m k (h m (List.mem_cons_self ..)), List.append_assoc]

theorem held_mergeAll (ms : List FileMap) (k : Text) (h : ∀ m ∈ ms, (keys m).Nodup) :
    held (mergeAll ms) k = (ms.map (held · k)).flatten := by
  unfold mergeAll
  rw [held_foldl_mergeMap ms [] k h, held_nil, List.nil_append]

/-- **the merge loses nothing and duplicates nothing**: for every file, the violations `run` returns are those of the
    sync validators followed by those of the async validators, each validator's list intact and in order -/
theorem held_runMerge (s a : List FileMap) (k : Text) (hs : ∀ m ∈ s, (keys m).Nodup) (ha : ∀ m ∈ a, (keys m).Nodup) :
    held (runMerge s a) k = (s.map (held · k)).flatten ++ (a.map (held · k)).flatten := by
  unfold runMerge
  split
  · rename_i he
    rw [List.isEmpty_iff] at he
    subst he
    simp [held_mergeAll s k hs]
  · rw [held_mergeMap _ _ _ (nodup_mergeAll a), held_mergeAll s k hs, held_mergeAll a k ha]

theorem nodup_runMerge (s a : List FileMap) : (keys (runMerge s a)).Nodup := by
  unfold runMerge
  split
  · exact nodup_mergeAll s
  · exact nodup_mergeMap _ _ (nodup_mergeAll s)

theorem mem_keys_mergeMap (acc m : FileMap) (k : Text) : k ∈ keys (mergeMap acc m) ↔ k ∈ keys acc ∨ k ∈ keys m := by
  unfold mergeMap
  rw [mem_keys_foldl_mergeEntry]
  simp [keys]

theorem mem_keys_mergeAll (ms : List FileMap) (k : Text) : k ∈ keys (mergeAll ms) ↔ ∃ m ∈ ms, k ∈ keys m := by
  unfold mergeAll
  suffices ∀ acc : FileMap, k ∈ keys (ms.foldl mergeMap acc) ↔ k ∈ keys acc ∨ ∃ m ∈ ms, k ∈ keys m by
    simpa [keys] using this []
  induction ms with
  | nil => intro acc; simp
  | cons m ms ih =>
    intro acc
    simp only [List.foldl_cons, ih, mem_keys_mergeMap, List.mem_cons]
    constructor
    · rintro ((h | h) | ⟨x, hx, hk⟩)
      · exact Or.inl h
      · exact Or.inr ⟨m, Or.inl rfl, h⟩
      · exact Or.inr ⟨x, Or.inr hx, hk⟩
    · rintro (h | ⟨x, hx | hx, hk⟩)
      · exact Or.inl (Or.inl h)
      · subst hx; exact Or.inl (Or.inr hk)
      · exact Or.inr ⟨x, hx, hk⟩

/-- a file has an entry in the result iff some validator reported on it -/
theorem mem_keys_runMerge (s a : List FileMap) (k : Text) :
    k ∈ keys (runMerge s a) ↔ ∃ m ∈ s ++ a, k ∈ keys m := by
  unfold runMerge
  split
  · rename_i he
    rw [List.isEmpty_iff] at he
    subst he
    simp [mem_keys_mergeAll]
  · simp only [mem_keys_mergeMap, mem_keys_mergeAll, List.mem_append]
    constructor
    · rintro (⟨m, hm, hk⟩ | ⟨m, hm, hk⟩)
      · exact ⟨m, Or.inl hm, hk⟩
      · exact ⟨m, Or.inr hm, hk⟩
    · rintro ⟨m, hm | hm, hk⟩
      · exact Or.inl ⟨m, hm, hk⟩
      · exact Or.inr ⟨m, hm, hk⟩

/-! ### as a multiset of (file, violation) pairs -/

theorem tagged_cons (e : Text × List Diag) (m : FileMap) : tagged (e :: m) = e.2.map (fun d => (e.1, d)) ++ tagged m := by
  simp [tagged]

theorem tagged_mergeEntry (m : FileMap) (e : Text × List Diag) : (tagged (mergeEntry m e)).Perm (tagged m ++ tagged [e]) := by
  induction m with
  | nil => simp [mergeEntry, tagged]
  | cons x rest ih =>
    obtain ⟨xk, xv⟩ := x
    simp only [mergeEntry]
    by_cases hx : xk = e.1
    · have h1 : tagged ((e.1, xv ++ e.2) :: rest) = xv.map (fun d => (e.1, d)) ++ (e.2.map (fun d => (e.1, d)) ++ tagged rest) := by
        simp [tagged_cons]
      have h2 : tagged ((e.1, xv) :: rest) ++ tagged [e] = xv.map (fun d => (e.1, d)) ++ (tagged rest ++ e.2.map (fun d => (e.1, d))) := by
        simp [tagged_cons, tagged]
      simp only [hx, if_true]
      rw [h1, h2]
      exact List.Perm.append_left _ List.perm_append_comm
    · simp only [hx, if_false, tagged_cons, List.append_assoc]
      exact List.Perm.append_left _ ih

theorem tagged_append (a b : FileMap) : tagged (a ++ b) = tagged a ++ tagged b := by simp [tagged]

theorem tagged_foldl_mergeEntry (es : List (Text × List Diag)) (acc : FileMap) :
    (tagged (es.foldl mergeEntry acc)).Perm (tagged acc ++ tagged es) := by
  induction es generalizing acc with
  | nil => simp [tagged]
  | cons e es ih =>
    simp only [List.foldl_cons]
    refine (ih _).trans ?_
    have : tagged (e :: es) = tagged [e] ++ tagged es := by simp [tagged]
    rw [this, ← List.append_assoc]
    exact List.Perm.append_right _ (tagged_mergeEntry acc e)

theorem tagged_mergeMap (acc m : FileMap) : (tagged (mergeMap acc m)).Perm (tagged acc ++ tagged m) :=
  tagged_foldl_mergeEntry m acc

theorem tagged_foldl_mergeMap (ms : List FileMap) (acc : FileMap) :
    (tagged (ms.foldl mergeMap acc)).Perm (tagged acc ++ (ms.map tagged).flatten) := by
  induction ms generalizing acc with
  | nil => simp
  | cons m ms ih =>
    simp only [List.foldl_cons, List.map_cons, List.flatten_cons]
    refine (ih _).trans ?_
    rw [← List.append_assoc]
    exact List.Perm.append_right _ (tagged_mergeMap acc m)

theorem tagged_mergeAll (ms : List FileMap) : (tagged (mergeAll ms)).Perm (ms.map tagged).flatten := by
  have := tagged_foldl_mergeMap ms []
  simpa [mergeAll, tagged] using this

/-- every violation of every validator appears in the merged result exactly once (equality of multisets) -/
theorem tagged_runMerge (s a : List FileMap) :
    (tagged (runMerge s a)).Perm ((s.map tagged).flatten ++ (a.map tagged).flatten) := by
  unfold runMerge
  split
  · rename_i he
    rw [List.isEmpty_iff] at he
    subst he
    simpa using tagged_mergeAll s
  · exact (tagged_mergeMap _ _).trans (List.Perm.append (tagged_mergeAll s) (tagged_mergeAll a))

/-- `process_violations` sets the exit flag iff some reported violation has severity error -/
theorem hasErrorSeverity_iff (m : FileMap) : hasErrorSeverity m = true ↔ ∃ p ∈ tagged m, p.2.severity = 1 := by
  unfold hasErrorSeverity tagged
  simp only [List.any_eq_true, List.mem_flatten, List.mem_map, decide_eq_true_eq]
  constructor
  · rintro ⟨e, he, d, hd, hs⟩
    exact ⟨(e.1, d), ⟨_, ⟨e, he, rfl⟩, List.mem_map.2 ⟨d, hd, rfl⟩⟩, hs⟩
  · rintro ⟨p, ⟨l, ⟨e, he, rfl⟩, hp⟩, hs⟩
    obtain ⟨d, hd, rfl⟩ := List.mem_map.1 hp
    exact ⟨e, he, d, hd, hs⟩


theorem tagged_singletons (ds : List (Text × Diag)) : tagged (ds.map (fun p => (p.1, [p.2]))) = ds := by
  induction ds with
  | nil => rfl
  | cons p ds ih => rw [List.map_cons, tagged_cons, ih]; rfl

/-- a validator's map holds exactly its diagnostics -/
theorem tagged_validatorMap (rs : List (Text × Except ErrKind (List Diag))) :
    (tagged (validatorMap rs)).Perm (resultDiags rs) := by
  unfold validatorMap
  have := tagged_foldl_mergeEntry ((resultDiags rs).map (fun p => (p.1, [p.2]))) []
  rw [tagged_singletons] at this
  simpa [tagged] using this

theorem nodup_validatorMap (rs : List (Text × Except ErrKind (List Diag))) : (keys (validatorMap rs)).Nodup :=
  nodup_foldl_mergeEntry _ [] (by simp [keys])

/-- per file: a validator's map holds its diagnostics for that file, in the order they were found -/
theorem held_validatorMap (rs : List (Text × Except ErrKind (List Diag))) (k : Text) :
    held (validatorMap rs) k = ((resultDiags rs).filter (fun p => p.1 = k)).map (·.2) := by
  unfold validatorMap
  rw [held_foldl_mergeEntry, held_nil, List.nil_append]
  induction resultDiags rs with
  | nil => rfl
  | cons p ds ih =>
    simp only [List.map_cons, List.filter_cons]
    by_cases hp : p.1 = k <;> simp [hp, ih]

theorem resultDiags_append (a b : List (Text × Except ErrKind (List Diag))) :
    resultDiags (a ++ b) = resultDiags a ++ resultDiags b := by simp [resultDiags]

theorem resultDiags_flatten (ls : List (List (Text × Except ErrKind (List Diag)))) :
    resultDiags ls.flatten = (ls.map resultDiags).flatten := by
  induction ls with
  | nil => rfl
  | cons l ls ih => simp [resultDiags_append, ih]

theorem flatMap_filter_perm {α β} (p : α → Bool) (f : α → List β) (l : List α) :
    (((l.filter (fun x => !p x)).map f).flatten ++ ((l.filter p).map f).flatten).Perm (l.map f).flatten := by
  induction l with
  | nil => simp
  | cons x l ih =>
    by_cases hp : p x = true
    · simp only [List.filter_cons, hp, Bool.not_true, Bool.false_eq_true, if_false, if_true, List.map_cons, List.flatten_cons]
      refine List.Perm.trans ?_ (List.Perm.append_left (f x) ih)
      rw [← List.append_assoc, ← List.append_assoc]
      exact List.Perm.append_right _ List.perm_append_comm
    · have hp' : p x = false := by simpa using hp
      simp only [List.filter_cons, hp', Bool.not_false, if_true, Bool.false_eq_true, if_false, List.map_cons, List.flatten_cons, List.append_assoc]
      exact List.Perm.append_left (f x) ih

theorem flatten_perm_of_forall₂ {β} : ∀ (as bs : List (List β)), as.length = bs.length →
    (∀ i (h : i < as.length) (h' : i < bs.length), (as[i]).Perm (bs[i])) → as.flatten.Perm bs.flatten
  | [], [], _, _ => by simp
  | [], _ :: _, h, _ => by simp at h
  | _ :: _, [], h, _ => by simp at h
  | a :: as, b :: bs, hl, h => by
    simp only [List.flatten_cons]
    refine List.Perm.append (h 0 (by simp) (by simp)) (flatten_perm_of_forall₂ as bs (by simpa using hl) ?_)
    intro i hi hi'
    exact h (i + 1) (by simpa using hi) (by simpa using hi')

theorem map_tagged_validatorMap_perm (re : Regex) (oracle : AsyncOracle) (ctx : List FileCtx) (vs : List String) :
    ((vs.map (fun v => validatorMap (validatorResults re oracle ctx v))).map tagged).flatten.Perm
      ((vs.map (fun v => resultDiags (validatorResults re oracle ctx v))).flatten) := by
  apply flatten_perm_of_forall₂
  · simp
  · intro i hi hi'
    simp only [List.getElem_map]
    exact tagged_validatorMap _

/-- **the merged report is the run's report**: the per-file maps `run` builds and merges hold exactly the diagnostics of
    `runResults` (every per-block verdict of every detected validator), each once -/
theorem tagged_runMerged (re : Regex) (oracle : AsyncOracle) (ctx : List FileCtx) (en dis : List String) :
    (tagged (runMerged re oracle ctx en dis)).Perm (resultDiags (runResults re oracle ctx en dis)) := by
  unfold runMerged runResults
  simp only
  refine (tagged_runMerge _ _).trans ?_
  refine (List.Perm.append (map_tagged_validatorMap_perm re oracle ctx _) (map_tagged_validatorMap_perm re oracle ctx _)).trans ?_
  have h := flatMap_filter_perm isAsync (fun v => resultDiags (validatorResults re oracle ctx v)) (detected ctx en dis)
  rw [resultDiags_flatten, List.map_map]
  exact h

theorem exitMerged_eq (re : Regex) (oracle : AsyncOracle) (ctx : List FileCtx) (en dis : List String)
    (ds : List (Text × Diag)) (h : run re oracle ctx en dis = .ok ds) :
    exitMerged (runMerged re oracle ctx en dis) = exitCode (.ok ds) := by
  have hds : ds = resultDiags (runResults re oracle ctx en dis) := by
    unfold run at h
    simp only at h
    split at h
    · injection h with h; exact h.symm
    · cases h
  have hp := tagged_runMerged re oracle ctx en dis
  rw [← hds] at hp
  unfold exitMerged exitCode
  have : hasErrorSeverity (runMerged re oracle ctx en dis) = ds.any (fun d => d.2.severity = 1) := by
    rw [Bool.eq_iff_iff, hasErrorSeverity_iff, List.any_eq_true]
    constructor
    · rintro ⟨p, hp1, hs⟩
      exact ⟨p, hp.mem_iff.1 hp1, by simpa using hs⟩
    · rintro ⟨p, hp1, hs⟩
      exact ⟨p, hp.mem_iff.2 hp1, by simpa using hs⟩
  rw [this]



/-- every entry of the map holds at least one violation -/
def Full (m : FileMap) : Prop := ∀ x ∈ m, x.2 ≠ []

theorem full_mergeEntry (m : FileMap) (e : Text × List Diag) (hm : Full m) (he : e.2 ≠ []) : Full (mergeEntry m e) := by
  induction m with
  | nil => intro x hx; simp only [mergeEntry, List.mem_singleton] at hx; subst hx; exact he
  | cons y rest ih =>
    obtain ⟨yk, yv⟩ := y
    have hrest : Full rest := fun x hx => hm x (List.mem_cons_of_mem _ hx)
    simp only [mergeEntry]
    by_cases hy : yk = e.1
    · simp only [hy, if_true]
      intro x hx
      rcases List.mem_cons.1 hx with rfl | hx
      · simp only [ne_eq, List.append_eq_nil_iff, not_and]; intro _; exact he
      · exact hrest x hx
    · simp only [hy, if_false]
      intro x hx
      rcases List.mem_cons.1 hx with rfl | hx
      · exact hm _ (List.mem_cons_self ..)
      · exact ih hrest x hx

theorem full_foldl_mergeEntry (es : List (Text × List Diag)) (acc : FileMap) (ha : Full acc) (he : ∀ e ∈ es, e.2 ≠ []) :
    Full (es.foldl mergeEntry acc) := by
  induction es generalizing acc with
  | nil => exact ha
  | cons e es ih =>
    exact ih _ (full_mergeEntry acc e ha (he e (List.mem_cons_self ..))) (fun x hx => he x (List.mem_cons_of_mem _ hx))

theorem full_mergeMap (acc m : FileMap) (ha : Full acc) (hm : Full m) : Full (mergeMap acc m) :=
  full_foldl_mergeEntry m acc ha hm

theorem full_mergeAll (ms : List FileMap) (h : ∀ m ∈ ms, Full m) : Full (mergeAll ms) := by
  unfold mergeAll
  suffices ∀ acc : FileMap, Full acc → Full (ms.foldl mergeMap acc) from this [] (fun _ hx => by cases hx)
  induction ms with
  | nil => intro acc ha; exact ha
  | cons m ms ih =>
    intro acc ha
    exact ih (fun x hx => h x (List.mem_cons_of_mem _ hx)) _ (full_mergeMap acc m ha (h m (List.mem_cons_self ..)))

theorem full_runMerge (s a : List FileMap) (hs : ∀ m ∈ s, Full m) (ha : ∀ m ∈ a, Full m) : Full (runMerge s a) := by
  unfold runMerge
  split
  · exact full_mergeAll s hs
  · exact full_mergeMap _ _ (full_mergeAll s hs) (full_mergeAll a ha)

theorem full_validatorMap (rs : List (Text × Except ErrKind (List Diag))) : Full (validatorMap rs) := by
  unfold validatorMap
  refine full_foldl_mergeEntry _ [] (fun _ hx => by cases hx) ?_
  intro e he
  obtain ⟨p, _, rfl⟩ := List.mem_map.1 he
  simp

theorem full_runMerged (re : Regex) (oracle : AsyncOracle) (ctx : List FileCtx) (en dis : List String) :
    Full (runMerged re oracle ctx en dis) := by
  unfold runMerged
  refine full_runMerge _ _ ?_ ?_ <;>
  · intro m hm
    obtain ⟨v, _, rfl⟩ := List.mem_map.1 hm
    exact full_validatorMap _

theorem tagged_eq_nil_iff (m : FileMap) (h : Full m) : tagged m = [] ↔ m = [] := by
  constructor
  · intro ht
    cases m with
    | nil => rfl
    | cons e m =>
      rw [tagged_cons] at ht
      have := (List.append_eq_nil_iff.1 ht).1
      have he := h e (List.mem_cons_self ..)
      cases hv : e.2 with
      | nil => exact absurd hv he
      | cons d ds => rw [hv] at this; simp at this
  · rintro rfl; rfl

/-- something is printed iff the run produced at least one diagnostic -/
theorem printsReport_iff (re : Regex) (oracle : AsyncOracle) (ctx : List FileCtx) (en dis : List String) :
    printsReport (runMerged re oracle ctx en dis) = true ↔ resultDiags (runResults re oracle ctx en dis) ≠ [] := by
  have hp := tagged_runMerged re oracle ctx en dis
  have hf := full_runMerged re oracle ctx en dis
  unfold printsReport
  rw [Bool.not_eq_true', ← Bool.not_eq_true, List.isEmpty_iff, ← tagged_eq_nil_iff _ hf]
  constructor
  · intro h hn; rw [hn] at hp; exact h (List.Perm.eq_nil hp)
  · intro h hn; rw [hn] at hp; exact h (List.Perm.eq_nil hp.symm)


end Bw.Merge
