import Bw.Glob
/-! What the glob parser and matcher do on literal stretches, and the suffix / prefix readings of `.*`. -/
namespace Bw.Glob

/-- a character the parser pushes as a literal -/
def plain (c : Char) : Bool := c != '*' && c != '?' && !outside c

def lits (l : Text) : List Tok := (encode l).map .lit

def lastOr (prev : Option Char) : Text → Option Char
  | [] => prev
  | c :: cs => lastOr (some c) cs

theorem lastOr_snoc (prev : Option Char) (l : Text) (c : Char) : lastOr prev (l ++ [c]) = some c := by
  induction l generalizing prev with
  | nil => rfl
  | cons d ds ih => exact ih _

theorem encode_append (a b : Text) : encode (a ++ b) = encode a ++ encode b := by
  induction a with
  | nil => rfl
  | cons c cs ih => simp [encode, ih]

theorem lits_append (a b : Text) : lits (a ++ b) = lits a ++ lits b := by
  simp [lits, encode_append]

theorem step_plain (ts : List Tok) (prev : Option Char) (c : Char) (rest : Text) (h : plain c = true) :
    parseAux ts prev (c :: rest) = parseAux ((String.utf8EncodeChar c).reverse.map .lit ++ ts) (some c) rest := by
  simp only [plain, Bool.and_eq_true, bne_iff_ne, ne_eq, Bool.not_eq_true'] at h
  obtain ⟨⟨h1, h2⟩, h3⟩ := h
  rw [parseAux]
  · simp [h3]
  all_goals (intros; first | exact absurd ‹c = '*'› h1 | exact absurd ‹c = '?'› h2 | (rename_i hc _; rw [hc] at h3; exact absurd h3 (by decide)))

/-- a literal stretch becomes its UTF-8 bytes, one `lit` token each, whatever precedes and follows -/
theorem parseAux_plain (l : Text) (hl : ∀ c ∈ l, plain c = true) (ts : List Tok) (prev : Option Char) (rest : Text) :
    parseAux ts prev (l ++ rest) = parseAux ((lits l).reverse ++ ts) (lastOr prev l) rest := by
  induction l generalizing ts prev with
  | nil => simp [lits, encode, lastOr]
  | cons c cs ih =>
    rw [List.cons_append, step_plain _ _ _ _ (hl c (by simp)), ih (fun d hd => hl d (by simp [hd]))]
    simp [lits, encode, lastOr, List.map_append, List.reverse_append, List.map_reverse]

/-- every character of a path preceded by a backslash -/
def escapeAll : Text → Text
  | [] => []
  | c :: cs => '\\' :: c :: escapeAll cs

theorem step_escaped (ts : List Tok) (prev : Option Char) (c : Char) (rest : Text) :
    parseAux ts prev ('\\' :: c :: rest) = parseAux ((String.utf8EncodeChar c).reverse.map .lit ++ ts) (some c) rest := by
  rw [parseAux]
  all_goals (intros; first | (rename_i h; exact absurd h (by decide)) | skip)

/-- an escaped stretch becomes the UTF-8 bytes of its characters, whatever they are (`*`, `?`, `[`, `{`, `\` included) -/
theorem parseAux_escaped (l : Text) (ts : List Tok) (prev : Option Char) (rest : Text) :
    parseAux ts prev (escapeAll l ++ rest) = parseAux ((lits l).reverse ++ ts) (lastOr prev l) rest := by
  induction l generalizing ts prev with
  | nil => simp [lits, encode, lastOr, escapeAll]
  | cons c cs ih =>
    rw [escapeAll, List.cons_append, List.cons_append, step_escaped, ih]
    simp [lits, encode, lastOr, List.map_append, List.reverse_append, List.map_reverse]

theorem lit_ne (l : Text) : lits l ≠ [.recPrefix] := by
  intro h
  have : Tok.recPrefix ∈ lits l := by rw [h]; simp
  simp [lits] at this

/-! ### matcher -/

theorem matchToks_lits (l : Bytes) (ts : List Tok) (p : Bytes) :
    matchToks (l.map .lit ++ ts) p = true ↔ ∃ q, p = l ++ q ∧ matchToks ts q = true := by
  induction l generalizing p with
  | nil => simp
  | cons b bs ih =>
    cases p with
    | nil => simp [matchToks]
    | cons d ps =>
      simp only [List.map_cons, List.cons_append, matchToks, Bool.and_eq_true, beq_iff_eq, ih, List.cons.injEq]
      constructor
      · rintro ⟨rfl, q, rfl, hq⟩; exact ⟨q, ⟨rfl, rfl⟩, hq⟩
      · rintro ⟨q, ⟨rfl, rfl⟩, hq⟩; exact ⟨rfl, q, rfl, hq⟩

theorem anySuffix_iff (f : Bytes → Bool) (p : Bytes) :
    anySuffix f p = true ↔ ∃ a b, p = a ++ b ∧ f b = true := by
  induction p with
  | nil =>
    simp only [anySuffix]
    constructor
    · intro h; exact ⟨[], [], rfl, h⟩
    · rintro ⟨a, b, hp, hb⟩
      have : b = [] := by
        have := congrArg List.length hp; simp at this; exact List.eq_nil_of_length_eq_zero (by omega)
      rw [this] at hb; exact hb
  | cons c cs ih =>
    simp only [anySuffix, Bool.or_eq_true, ih]
    constructor
    · rintro (h | ⟨a, b, rfl, hb⟩)
      · exact ⟨[], c :: cs, rfl, h⟩
      · exact ⟨c :: a, b, rfl, hb⟩
    · rintro ⟨a, b, hp, hb⟩
      cases a with
      | nil => simp at hp; subst hp; exact Or.inl hb
      | cons d ds =>
        simp at hp
        exact Or.inr ⟨ds, b, hp.2, hb⟩

theorem afterSlash_iff (f : Bytes → Bool) (p : Bytes) :
    afterSlash f p = true ↔ ∃ a b, p = a ++ slash :: b ∧ f b = true := by
  induction p with
  | nil => simp [afterSlash]
  | cons c cs ih =>
    simp only [afterSlash, Bool.or_eq_true, Bool.and_eq_true, beq_iff_eq, ih]
    constructor
    · rintro (⟨rfl, h⟩ | ⟨a, b, rfl, hb⟩)
      · exact ⟨[], cs, rfl, h⟩
      · exact ⟨c :: a, b, rfl, hb⟩
    · rintro ⟨a, b, hp, hb⟩
      cases a with
      | nil => simp at hp; obtain ⟨rfl, rfl⟩ := hp; exact Or.inl ⟨rfl, hb⟩
      | cons d ds =>
        simp at hp
        exact Or.inr ⟨ds, b, hp.2, hb⟩

theorem matchToks_nil (p : Bytes) : matchToks [] p = true ↔ p = [] := by
  simp [matchToks]

theorem enc_slash : String.utf8EncodeChar '/' = [slash] := by decide
theorem enc_dot : String.utf8EncodeChar '.' = [46] := by decide

end Bw.Glob
