import Bw.Blocks
import Bw.Lemmas.Text
/-! `BlockStart::source_position_at` computes the (line, byte column) reached by reading the comment text
    up to the offset, starting at the comment's start position. -/
namespace Bw.Blocks
open Bw

def isNl (c : Char) : Bool := c = '\n'

def countNl : Text → Nat
  | [] => 0
  | c :: cs => (if c = '\n' then 1 else 0) + countNl cs

/-- text after the last newline (the whole text if there is none) -/
def lastSeg : Text → Text
  | [] => []
  | c :: cs => if countNl cs > 0 then lastSeg cs else if c = '\n' then cs else c :: cs

/-- reading `t` from position `p`, the way tree-sitter counts rows and byte columns -/
def advance (p : Pos) : Text → Pos
  | [] => p
  | c :: cs => if c = '\n' then advance ⟨p.line + 1, 1⟩ cs else advance ⟨p.line, p.col + c.utf8Size⟩ cs

theorem advance_spec (t : Text) : ∀ p : Pos,
    advance p t = if countNl t = 0 then ⟨p.line, p.col + ulen t⟩ else ⟨p.line + countNl t, 1 + ulen (lastSeg t)⟩ := by
  induction t with
  | nil => intro p; simp [advance, countNl, ulen]
  | cons c cs ih =>
    intro p
    simp only [advance, countNl, lastSeg]
    by_cases hc : c = '\n'
    · subst hc
      simp only [if_true]
      rw [ih]
      by_cases h0 : countNl cs = 0
      · simp [h0, ulen]
      · have : countNl cs > 0 := by omega
        simp [h0, this]; omega
    · simp only [hc, if_false]
      rw [ih]
      by_cases h0 : countNl cs = 0
      · simp [h0, ulen]; omega
      · have : countNl cs > 0 := by omega
        simp [h0, this]

theorem lastSeg_le (t : Text) : ulen (lastSeg t) ≤ ulen t ∧ (countNl t > 0 → ulen (lastSeg t) + 1 ≤ ulen t) := by
  induction t with
  | nil => simp [lastSeg, countNl, ulen]
  | cons c cs ih =>
    have hp := Char.utf8Size_pos c
    simp only [lastSeg, countNl, ulen]
    by_cases h0 : countNl cs > 0
    · have := ih.2 h0
      simp only [h0, if_true]
      exact ⟨by omega, fun _ => by omega⟩
    · simp only [h0, if_false]
      by_cases hc : c = '
'
      · subst hc
        simp only [if_true]
        exact ⟨by omega, fun _ => by omega⟩
      · simp only [hc, if_false, ulen]
        have hz : countNl cs = 0 := by omega
        exact ⟨by omega, fun h => by omega⟩

theorem rfind_nl (t : Text) : rfindChar (· = '\n') t =
    if countNl t > 0 then some (ulen t - ulen (lastSeg t) - 1) else none := by
  induction t with
  | nil => simp [rfindChar, countNl]
  | cons c cs ih =>
    simp only [rfindChar, ih, countNl, lastSeg, ulen]
    have hp := Char.utf8Size_pos c
    by_cases h0 : countNl cs > 0
    · have hle := (lastSeg_le cs).2 h0
      have : (if c = '\n' then 1 else 0) + countNl cs > 0 := by omega
      simp only [h0, this, if_true, Option.some.injEq]
      omega
    · simp only [h0, if_false]
      have hz : countNl cs = 0 := by omega
      by_cases hc : c = '\n'
      · subst hc
        have h1 : ('\n' : Char).utf8Size = 1 := by decide
        simp [h1, hz]
      · simp [hc, hz]

theorem splitInclusive_length (pre : Text) (ch : Char) (h : ch ≠ '\n') :
    (splitInclusive (pre ++ [ch])).length = countNl pre + 1 := by
  induction pre with
  | nil => simp [splitInclusive, h, countNl]
  | cons c cs ih =>
    simp only [List.cons_append, splitInclusive, countNl]
    by_cases hc : c = '\n'
    · simp [hc, ih]; omega
    · simp only [hc, if_false]
      cases hs : splitInclusive (cs ++ [ch]) with
      | nil => rw [hs] at ih; simp at ih
      | cons l ls => rw [hs] at ih; simp at ih ⊢; omega

theorem lines_length (pre : Text) (ch : Char) (h : ch ≠ '\n') : (lines (pre ++ [ch])).length = countNl pre + 1 := by
  simp [lines, splitInclusive_length pre ch h]

theorem takeBytes_succ (pre rest : Text) (ch : Char) (h1 : ch.utf8Size = 1) :
    takeBytes (ulen pre + 1) (pre ++ ch :: rest) = pre ++ [ch] := by
  have : ulen pre + 1 = ulen (pre ++ [ch]) := by rw [ulen_append]; simp [ulen, h1]
  rw [this]
  have e : pre ++ ch :: rest = (pre ++ [ch]) ++ rest := by simp
  rw [e]
  exact takeBytes_append_ulen _ _

/-- **`source_position_at` is the position reached by reading the comment text up to the offset**:
    for a tag character (`<` or `>`: one byte, not a newline) at byte offset `|pre|` of the comment text -/
theorem sourcePositionAt_spec (c : Comment) (pre rest : Text) (ch : Char) (htext : c.text = pre ++ ch :: rest)
    (h1 : ch.utf8Size = 1) (hnl : ch ≠ '\n') :
    sourcePositionAt (ulen pre) c = advance c.posStart pre := by
  have hlines : (lines (takeBytes (ulen pre + 1) c.text)).length = countNl pre + 1 := by
    rw [htext, takeBytes_succ pre rest ch h1]; exact lines_length pre ch hnl
  have htake : takeBytes (ulen pre) c.text = pre := by rw [htext]; exact takeBytes_append_ulen _ _
  rw [advance_spec]
  unfold sourcePositionAt
  simp only [hlines, htake]
  by_cases h0 : countNl pre = 0
  · simp [h0]
  · have hpos : countNl pre > 0 := by omega
    have hne : ¬ (c.posStart.line + (countNl pre + 1) - 1 = c.posStart.line) := by omega
    simp only [h0, hne, if_false, rfind_nl, hpos, if_true, Option.getD_some]
    have hle := (lastSeg_le pre).2 hpos
    congr 1 <;> omega

end Bw.Blocks
