import Bw.Text
/-! Lemmas about the byte-indexed text primitives. -/
namespace Bw

theorem utf8Size_pos' (c : Char) : 0 < c.utf8Size := Char.utf8Size_pos c

theorem takeBytes_append_ulen (a b : Text) : takeBytes (ulen a) (a ++ b) = a := by
  induction a with
  | nil => simp [ulen, takeBytes]
  | cons c cs ih =>
    have hp := utf8Size_pos' c
    obtain ⟨n, hn⟩ : ∃ n, ulen (c :: cs) = n + 1 := ⟨c.utf8Size + ulen cs - 1, by simp [ulen]; omega⟩
    rw [hn]
    simp only [List.cons_append, takeBytes]
    have : n + 1 - c.utf8Size = ulen cs := by simp [ulen] at hn; omega
    rw [this, ih]

theorem dropBytes_append_ulen (a b : Text) : dropBytes (ulen a) (a ++ b) = b := by
  induction a with
  | nil => simp [ulen, dropBytes]
  | cons c cs ih =>
    have hp := utf8Size_pos' c
    obtain ⟨n, hn⟩ : ∃ n, ulen (c :: cs) = n + 1 := ⟨c.utf8Size + ulen cs - 1, by simp [ulen]; omega⟩
    rw [hn]
    simp only [List.cons_append, dropBytes]
    have : n + 1 - c.utf8Size = ulen cs := by simp [ulen] at hn; omega
    rw [this, ih]

/-- `take` and `drop` of the same byte count always recompose the text -/
theorem take_append_drop (n : Nat) (t : Text) : takeBytes n t ++ dropBytes n t = t := by
  induction t generalizing n with
  | nil => cases n <;> simp [takeBytes, dropBytes]
  | cons c cs ih =>
    cases n with
    | zero => simp [takeBytes, dropBytes]
    | succ n => simp [takeBytes, dropBytes, ih]

/-- leading blanks of a text -/
def leadWhite : Text → Text
  | [] => []
  | c :: cs => if isWhite c then c :: leadWhite cs else []

theorem trimStart_decomp (t : Text) : t = leadWhite t ++ trimStart t := by
  induction t with
  | nil => simp [leadWhite, trimStart]
  | cons c cs ih =>
    simp only [leadWhite, trimStart]
    split
    · simpa using ih
    · simp

theorem leadBytes_eq (t : Text) : leadBytes t = ulen (leadWhite t) := by
  induction t with
  | nil => simp [leadBytes, leadWhite, ulen]
  | cons c cs ih =>
    simp only [leadBytes, leadWhite]
    split
    · simp [ulen, ih]
    · simp [ulen]

theorem leadWhite_all (t : Text) : ∀ c ∈ leadWhite t, isWhite c = true := by
  induction t with
  | nil => simp [leadWhite]
  | cons c cs ih =>
    simp only [leadWhite]
    split
    · rename_i h
      intro x hx
      rcases List.mem_cons.1 hx with rfl | hx
      · exact h
      · exact ih x hx
    · simp

/-- `trim_end` keeps a prefix: `t = trimEnd t ++ (trailing blanks)` -/
theorem trimEnd_decomp (t : Text) : t = trimEnd t ++ (leadWhite t.reverse).reverse := by
  have h := trimStart_decomp t.reverse
  have h2 := congrArg List.reverse h
  simp only [List.reverse_reverse, List.reverse_append] at h2
  simpa [trimEnd] using h2

/-- **`&line[lead .. lead + |trim line|] == trim line`**: the byte range the validators report for a
    trimmed key cuts exactly the key out of its line -/
theorem slice_trim (l : Text) : sliceBytes (leadBytes l) (leadBytes l + ulen (trim l)) l = trim l := by
  unfold sliceBytes
  have h1 : l = leadWhite l ++ trimStart l := trimStart_decomp l
  have h2 : trimStart l = trimEnd (trimStart l) ++ (leadWhite (trimStart l).reverse).reverse := trimEnd_decomp _
  have hd : dropBytes (leadBytes l) l = trimStart l := by
    rw [leadBytes_eq]
    conv => lhs; rhs; rw [h1]
    exact dropBytes_append_ulen _ _
  have hs : leadBytes l + ulen (trim l) - leadBytes l = ulen (trim l) := by omega
  rw [hs, hd]
  unfold trim
  conv => lhs; rhs; rw [h2]
  exact takeBytes_append_ulen _ _

/-- a trimmed text neither starts nor ends with a blank -/
theorem trimStart_head (t : Text) (c : Char) (r : Text) (h : trimStart t = c :: r) : isWhite c = false := by
  induction t with
  | nil => simp [trimStart] at h
  | cons x xs ih =>
    simp only [trimStart] at h
    split at h
    · exact ih h
    · rename_i hx
      injection h with h1 _
      subst h1
      simpa using hx

end Bw
