import Bw.Lemmas.BSearch
/-! `line_diff` leaves the changed ranges of a line non-inverted, ordered and disjoint whenever the ops of `similar`
    come in order - the hypothesis of `hit_exact`. -/
namespace Bw.Diff

/-- the changed ranges of a line as `line_diff` leaves them: non-inverted, in order, not overlapping -/
def SortedRanges (rs : List (Nat × Nat)) : Prop :=
  (∀ r ∈ rs, r.1 ≤ r.2) ∧ rs.Pairwise (fun a b => a.2 ≤ b.1)

def pushed (new : Text) : List Op → Option Op → List (Nat × Nat)
  | [], _ => []
  | op :: ops, prev => (opRange new prev op).toList ++ pushed new ops (some op)

theorem lineDiffOps_fold (new : Text) (ops : List Op) (prev : Option Op) (acc : List (Nat × Nat)) :
    lineDiffOps new ops prev acc = (pushed new ops prev).foldl pushOrMerge acc := by
  induction ops generalizing prev acc with
  | nil => rfl
  | cons op ops ih =>
    simp only [lineDiffOps, pushed, List.foldl_append]
    rw [ih]
    cases opRange new prev op <;> rfl

/-- invariant of the accumulated ranges: sorted and disjoint, all starts ≤ m, all ends but the last one ≤ m -/
def Inv (acc : List (Nat × Nat)) (m : Nat) : Prop :=
  SortedRanges acc ∧ (∀ r ∈ acc, r.1 ≤ m) ∧ (∀ r ∈ acc.dropLast, r.2 ≤ m)

theorem sinkLast_end (rs : List (Nat × Nat)) (r : Nat × Nat) (h : ∀ p ∈ rs, p.1 ≤ r.1) : sinkLast rs r = rs ++ [r] := by
  unfold sinkLast
  cases hr : rs.reverse with
  | nil =>
    have : rs = [] := by simpa using hr
    subst this; simp [sinkRev]
  | cons p rest =>
    have hp : p ∈ rs := by
      have : p ∈ rs.reverse := by rw [hr]; simp
      simpa using this
    have hle := h p hp
    have : ¬ r.1 < p.1 := by omega
    simp only [sinkRev, this, if_false, List.reverse_cons]
    have : rs = rest.reverse ++ [p] := by
      have := congrArg List.reverse hr; simpa using this
    rw [this]

theorem sorted_snoc (init : List (Nat × Nat)) (x : Nat × Nat) (hs : SortedRanges init) (hx : x.1 ≤ x.2)
    (hb : ∀ r ∈ init, r.2 ≤ x.1) : SortedRanges (init ++ [x]) := by
  refine ⟨?_, ?_⟩
  · intro r hr
    rcases List.mem_append.1 hr with h | h
    · exact hs.1 r h
    · simp at h; subst h; exact hx
  · rw [List.pairwise_append]
    exact ⟨hs.2, by simp, fun a ha b hb' => by simp at hb'; subst hb'; exact hb a ha⟩

theorem sorted_init (init : List (Nat × Nat)) (x : Nat × Nat) (hs : SortedRanges (init ++ [x])) :
    SortedRanges init ∧ ∀ r ∈ init, r.2 ≤ x.1 := by
  refine ⟨⟨fun r hr => hs.1 r (by simp [hr]), (List.pairwise_append.1 hs.2).1⟩, ?_⟩
  intro r hr
  exact (List.pairwise_append.1 hs.2).2.2 r hr x (by simp)

/-- one `push_or_merge_range` with a range that starts at or after everything seen so far keeps the invariant -/
theorem push_inv (acc : List (Nat × Nat)) (m : Nat) (new : Nat × Nat) (hi : Inv acc m) (hm : m ≤ new.1) (hn : new.1 ≤ new.2) :
    Inv (pushOrMerge acc new) new.1 := by
  obtain ⟨hs, h1, h2⟩ := hi
  rcases List.eq_nil_or_concat acc with rfl | ⟨init, last, hacc⟩
  rotate_left
  rw [List.concat_eq_append] at hacc
  subst hacc
  rotate_left
  · simp only [pushOrMerge, List.reverse_nil]
    exact ⟨⟨by simp [hn], by simp⟩, by simp, by simp⟩
  · have hl1 : last.1 ≤ m := h1 last (by simp)
    have hinit : ∀ r ∈ init, r.2 ≤ m := by
      intro r hr; exact h2 r (by simp [List.dropLast_concat, hr])
    obtain ⟨hsi, hbi⟩ := sorted_init init last hs
    have hl12 : last.1 ≤ last.2 := hs.1 last (by simp)
    simp only [pushOrMerge, List.reverse_append, List.reverse_cons, List.reverse_nil, List.nil_append, List.singleton_append]
    by_cases hc : new.1 ≤ last.2 ∧ new.2 ≥ last.1
    · simp only [hc, and_self, if_true, List.reverse_reverse]
      have hmin : min new.1 last.1 = last.1 := by omega
      rw [hmin, sinkLast_end _ _ (fun p hp => by
        have := hbi p hp; have := hsi.1 p hp; simp; omega)]
      refine ⟨sorted_snoc init _ hsi (by simp; omega) (by simpa using hbi), ?_, ?_⟩
      · intro r hr
        rcases List.mem_append.1 hr with h | h
        · have := h1 r (by simp [h]); omega
        · simp at h; subst h; simp; omega
      · intro r hr
        rw [List.dropLast_concat] at hr
        have := hinit r hr; omega
    · simp only [hc, if_false]
      have hgt : last.2 < new.1 := by
        by_cases h : new.1 ≤ last.2
        · exact absurd ⟨h, by omega⟩ hc
        · omega
      rw [sinkLast_end _ _ (fun p hp => by
        rcases List.mem_append.1 hp with h | h
        · have := h1 p (by simp [h]); omega
        · simp at h; subst h; omega)]
      refine ⟨sorted_snoc (init ++ [last]) new hs hn ?_, ?_, ?_⟩
      · intro r hr
        rcases List.mem_append.1 hr with h | h
        · have := hinit r h; omega
        · simp at h; subst h; omega
      · intro r hr
        rcases List.mem_append.1 hr with h | h
        · have := h1 r h; omega
        · simp at h; subst h; omega
      · intro r hr
        rw [List.dropLast_concat] at hr
        rcases List.mem_append.1 hr with h | h
        · have := hinit r h; omega
        · simp at h; subst h; omega

/-- folding pushes whose starts never decrease keeps the ranges sorted and disjoint -/
theorem fold_inv (ps : List (Nat × Nat)) (acc : List (Nat × Nat)) (m : Nat) (hi : Inv acc m)
    (hp : ∀ r ∈ ps, r.1 ≤ r.2) (hm : ∀ r ∈ ps, m ≤ r.1) (hs : ps.Pairwise (fun a b => a.1 ≤ b.1)) :
    SortedRanges (ps.foldl pushOrMerge acc) := by
  induction ps generalizing acc m with
  | nil => exact hi.1
  | cons p ps ih =>
    simp only [List.foldl_cons]
    have hpw := List.pairwise_cons.1 hs
    exact ih _ p.1 (push_inv acc m p hi (hm p (by simp)) (hp p (by simp)))
      (fun r hr => hp r (by simp [hr])) (fun r hr => hpw.1 r hr) hpw.2

/-! ### the contract of `similar`: ops are consecutive over the new text -/

/-- ops cover the new text consecutively from char index `cur`: every op starts where the previous one ended,
    insertions and replacements are non-empty and stay inside the text of `n` chars -/
def Consec (n : Nat) : Nat → List Op → Prop
  | _, [] => True
  | cur, .equal _ ni len :: r => ni = cur ∧ Consec n (cur + len) r
  | cur, .delete _ _ ni :: r => ni = cur ∧ cur ≤ n ∧ Consec n cur r
  | cur, .insert _ ni nl :: r => ni = cur ∧ 1 ≤ nl ∧ cur + nl ≤ n ∧ Consec n (cur + nl) r
  | cur, .replace _ _ ni nl :: r => ni = cur ∧ 1 ≤ nl ∧ cur + nl ≤ n ∧ Consec n (cur + nl) r

theorem byteOffset_mono (t : Text) (i j : Nat) (h : i ≤ j) : byteOffset i t ≤ byteOffset j t := by
  induction t generalizing i j with
  | nil => cases i <;> cases j <;> simp [byteOffset]
  | cons c cs ih =>
    cases i with
    | zero => simp [byteOffset]
    | succ i =>
      cases j with
      | zero => omega
      | succ j => simp only [byteOffset]; have := ih i j (by omega); omega

/-- every range pushed from position `cur` on starts at or after the byte offset of char `min cur (n-1)` -/
theorem pushed_from (new : Text) (ops : List Op) (cur : Nat) (prev : Option Op) (h : Consec new.length cur ops) :
    (∀ r ∈ pushed new ops prev, r.1 ≤ r.2 ∧ byteOffset (min (new.length - 1) cur) new ≤ r.1) ∧
    (pushed new ops prev).Pairwise (fun a b => a.1 ≤ b.1) := by
  induction ops generalizing cur prev with
  | nil => simp [pushed]
  | cons op ops ih =>
    cases op with
    | equal oi ni len =>
      obtain ⟨_, hc⟩ := h
      have := ih (cur + len) (some (.equal oi ni len)) hc
      simp only [pushed, opRange, Option.toList, List.nil_append]
      refine ⟨fun r hr => ⟨(this.1 r hr).1, ?_⟩, this.2⟩
      have h1 := (this.1 r hr).2
      have := byteOffset_mono new (min (new.length - 1) cur) (min (new.length - 1) (cur + len)) (by omega)
      omega
    | delete oi ol ni =>
      obtain ⟨rfl, hn, hc⟩ := h
      have ih' := ih ni (some (.delete oi ol ni)) hc
      show (∀ r ∈ (opRange new prev (.delete oi ol ni)).toList ++ pushed new ops (some (.delete oi ol ni)), _) ∧
        List.Pairwise _ ((opRange new prev (.delete oi ol ni)).toList ++ pushed new ops (some (.delete oi ol ni)))
      cases hr : opRange new prev (.delete oi ol ni) with
      | none => simp only [Option.toList, List.nil_append]; exact ih'
      | some x =>
        have hx : x.1 = byteOffset (min (new.length - 1) ni) new ∧ x.1 ≤ x.2 := by
          simp only [opRange] at hr
          cases prev with
          | none =>
            simp only [if_true] at hr
            injection hr with hr; subst hr; exact ⟨rfl, by simp; omega⟩
          | some p =>
            by_cases hd : (!p.isDelete) = true
            · simp only [hd, if_true] at hr
              injection hr with hr; subst hr; exact ⟨rfl, by simp; omega⟩
            · simp only [hd, if_false] at hr
              cases hr
        simp only [Option.toList, List.singleton_append, List.mem_cons, List.pairwise_cons]
        refine ⟨?_, ?_, ih'.2⟩
        · rintro r (rfl | hr')
          · exact ⟨hx.2, by omega⟩
          · exact ih'.1 r hr'
        · intro r hr'
          have := (ih'.1 r hr').2
          omega
    | insert oi ni nl =>
      obtain ⟨rfl, h1, h2, hc⟩ := h
      have ih' := ih (ni + nl) (some (.insert oi ni nl)) hc
      simp only [pushed, opRange, Option.toList, List.singleton_append, List.mem_cons, List.pairwise_cons]
      have hmin : min (new.length - 1) ni = ni := by omega
      refine ⟨?_, ?_, ih'.2⟩
      · rintro r (rfl | hr)
        · simp only [hmin]
          exact ⟨byteOffset_mono new _ _ (by omega), Nat.le_refl _⟩
        · refine ⟨(ih'.1 r hr).1, ?_⟩
          have := (ih'.1 r hr).2
          have := byteOffset_mono new (min (new.length - 1) ni) (min (new.length - 1) (ni + nl)) (by omega)
          omega
      · intro r hr
        have := (ih'.1 r hr).2
        have := byteOffset_mono new ni (min (new.length - 1) (ni + nl)) (by omega)
        omega
    | replace oi ol ni nl =>
      obtain ⟨rfl, h1, h2, hc⟩ := h
      have ih' := ih (ni + nl) (some (.replace oi ol ni nl)) hc
      simp only [pushed, opRange, Option.toList, List.singleton_append, List.mem_cons, List.pairwise_cons]
      have hmin : min (new.length - 1) ni = ni := by omega
      refine ⟨?_, ?_, ih'.2⟩
      · rintro r (rfl | hr)
        · simp only [hmin]
          exact ⟨byteOffset_mono new _ _ (by omega), Nat.le_refl _⟩
        · refine ⟨(ih'.1 r hr).1, ?_⟩
          have := (ih'.1 r hr).2
          have := byteOffset_mono new (min (new.length - 1) ni) (min (new.length - 1) (ni + nl)) (by omega)
          omega
      · intro r hr
        have := (ih'.1 r hr).2
        have := byteOffset_mono new ni (min (new.length - 1) (ni + nl)) (by omega)
        omega

/-- **`line_diff` yields sorted, disjoint ranges** for consecutive ops -/
theorem lineDiffOps_sorted (new : Text) (ops : List Op) (h : Consec new.length 0 ops) :
    SortedRanges (lineDiffOps new ops none []) := by
  rw [lineDiffOps_fold]
  obtain ⟨h1, h2⟩ := pushed_from new ops 0 none h
  exact fold_inv _ [] 0 ⟨⟨by simp, by simp⟩, by simp, by simp⟩ (fun r hr => (h1 r hr).1) (fun r _ => Nat.zero_le _) h2

end Bw.Diff
