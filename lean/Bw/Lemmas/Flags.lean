import Bw.Flags
/-! Lemmas about the option handling model (`Bw.Flags`). -/
namespace Bw.Flags
open Bw

theorem mapM'_err_of_mem {α β} (f : α → Except FlagErr β) (xs : List α) (x : α) (e : FlagErr)
    (hx : x ∈ xs) (hf : f x = .error e) : ∃ e', mapM' f xs = .error e' := by
  induction xs with
  | nil => cases hx
  | cons y ys ih =>
    unfold mapM'
    rcases List.mem_cons.1 hx with rfl | hx
    · rw [hf]; exact ⟨e, rfl⟩
    · cases hy : f y with
      | error e1 => exact ⟨e1, rfl⟩
      | ok v =>
        obtain ⟨e', he'⟩ := ih hx
        simp only [he']
        exact ⟨e', rfl⟩

theorem mapM'_ok_of_forall {α β} (f : α → Except FlagErr β) (g : α → β) (xs : List α)
    (h : ∀ x ∈ xs, f x = .ok (g x)) : mapM' f xs = .ok (xs.map g) := by
  induction xs with
  | nil => rfl
  | cons y ys ih =>
    unfold mapM'
    rw [h y (List.mem_cons_self ..), ih (fun x hx => h x (List.mem_cons_of_mem _ hx))]
    rfl

theorem mapM'_ok_inv {α β} (f : α → Except FlagErr β) (xs : List α) (ys : List β) (h : mapM' f xs = .ok ys) :
    ∀ x ∈ xs, ∃ y ∈ ys, f x = .ok y := by
  induction xs generalizing ys with
  | nil => intro x hx; cases hx
  | cons z zs ih =>
    unfold mapM' at h
    cases hz : f z with
    | error e => rw [hz] at h; cases h
    | ok v =>
      rw [hz] at h
      cases hr : mapM' f zs with
      | error e => rw [hr] at h; cases h
      | ok vs =>
        rw [hr] at h
        injection h with h
        subst h
        intro x hx
        rcases List.mem_cons.1 hx with rfl | hx
        · exact ⟨v, List.mem_cons_self .., hz⟩
        · obtain ⟨y, hy, hfy⟩ := ih vs hr x hx
          exact ⟨y, List.mem_cons_of_mem _ hy, hfy⟩

/-- a validator name is accepted iff it is one of the registered names, verbatim -/
theorem parseValidator_ok_iff (v : Text) :
    (∃ r, parseValidator v = .ok r) ↔ ∃ n ∈ Gen.detectorNames, n.toList = v := by
  unfold parseValidator
  by_cases h : Gen.detectorNames.any (fun n => n.toList = v) = true
  · simp only [h, if_true]
    obtain ⟨n, hn, hv⟩ := List.any_eq_true.1 h
    exact ⟨fun _ => ⟨n, hn, by simpa using hv⟩, fun _ => ⟨_, rfl⟩⟩
  · simp only [h, if_false, Bool.false_eq_true]
    constructor
    · rintro ⟨r, hr⟩; cases hr
    · rintro ⟨n, hn, hv⟩
      exact absurd (List.any_eq_true.2 ⟨n, hn, by simpa using hv⟩) h

/-- the registered names are accepted unchanged (none of them has surrounding white space) -/
theorem parseValidator_registered : ∀ n ∈ Gen.detectorNames, parseValidator n.toList = .ok n.toList := by
  have h : Gen.detectorNames.all (fun n => match parseValidator n.toList with | .ok r => r == n.toList | .error _ => false) = true := by
    decide
  intro n hn
  have := List.all_eq_true.1 h n hn
  cases hp : parseValidator n.toList with
  | error e => rw [hp] at this; cases this
  | ok r => rw [hp] at this; simp only [beq_iff_eq] at this; rw [this]

theorem startup_err_of_unknown (rawE en dis : List Text) (v : Text) (hv : v ∈ en ++ dis)
    (hn : ∀ n ∈ Gen.detectorNames, n.toList ≠ v) : ∃ e, startup rawE en dis = .error e := by
  have hbad : parseValidator v = .error .unknownValidator := by
    unfold parseValidator
    have : Gen.detectorNames.any (fun n => n.toList = v) = false := by
      rw [List.any_eq_false]; intro n hmem; simpa using hn n hmem
    simp [this]
  unfold startup
  cases hE : mapM' parseExtension rawE with
  | error e => exact ⟨e, rfl⟩
  | ok exts =>
    simp only
    rcases List.mem_append.1 hv with hv | hv
    · obtain ⟨e', he'⟩ := mapM'_err_of_mem parseValidator en v _ hv hbad
      rw [he']; exact ⟨e', rfl⟩
    · cases hen : mapM' parseValidator en with
      | error e => exact ⟨e, rfl⟩
      | ok ens =>
        simp only
        obtain ⟨e', he'⟩ := mapM'_err_of_mem parseValidator dis v _ hv hbad
        rw [he']; exact ⟨e', rfl⟩

theorem startup_err_of_both (rawE en dis : List Text) (he : en ≠ []) (hd : dis ≠ []) :
    ∃ e, startup rawE en dis = .error e := by
  unfold startup
  cases hE : mapM' parseExtension rawE with
  | error e => exact ⟨e, rfl⟩
  | ok exts =>
    simp only
    cases hen : mapM' parseValidator en with
    | error e => exact ⟨e, rfl⟩
    | ok ens =>
      simp only
      cases hdis : mapM' parseValidator dis with
      | error e => exact ⟨e, rfl⟩
      | ok diss =>
        simp only
        have h1 : ens ≠ [] := by
          cases en with
          | nil => exact absurd rfl he
          | cons a as =>
            obtain ⟨y, hy, _⟩ := mapM'_ok_inv parseValidator _ ens hen a (List.mem_cons_self ..)
            intro h; rw [h] at hy; cases hy
        have h2 : diss ≠ [] := by
          cases dis with
          | nil => exact absurd rfl hd
          | cons a as =>
            obtain ⟨y, hy, _⟩ := mapM'_ok_inv parseValidator _ diss hdis a (List.mem_cons_self ..)
            intro h; rw [h] at hy; cases hy
        have : validate exts ens diss = .error .unsupportedExtension ∨ validate exts ens diss = .error .enableAndDisable := by
          unfold validate validateWith
          split
          · exact Or.inl rfl
          · have e1 : ens.isEmpty = false := by cases ens with | nil => exact absurd rfl h1 | cons _ _ => rfl
            have e2 : diss.isEmpty = false := by cases diss with | nil => exact absurd rfl h2 | cons _ _ => rfl
            simp [e1, e2]
        rcases this with h | h <;> rw [h] <;> exact ⟨_, rfl⟩

/-- with well-formed options the run starts with exactly the names given and the `-E` map -/
theorem startup_ok (rawE en dis : List Text) (exts : List (Text × Text))
    (hE : mapM' parseExtension rawE = .ok exts)
    (hsup : ∀ e ∈ exts, e.2 ∈ Lookup.table.map (·.1))
    (hen : ∀ v ∈ en, ∃ n ∈ Gen.detectorNames, n.toList = v) (hdis : ∀ v ∈ dis, ∃ n ∈ Gen.detectorNames, n.toList = v)
    (hnot : en = [] ∨ dis = []) :
    ∃ o, startup rawE en dis = .ok o ∧ o.enabled = en ∧ o.disabled = dis ∧ o.extra = extensionsMap exts := by
  have hid : ∀ l : List Text, (∀ v ∈ l, ∃ n ∈ Gen.detectorNames, n.toList = v) → mapM' parseValidator l = .ok l := by
    intro l hl
    have := mapM'_ok_of_forall parseValidator id l (by
      intro v hv
      obtain ⟨n, hn, rfl⟩ := hl v hv
      exact parseValidator_registered n hn)
    simpa using this
  unfold startup
  rw [hE, hid en hen, hid dis hdis]
  simp only
  have hv : validate exts en dis = .ok () := by
    unfold validate validateWith
    have h1 : exts.any (fun e => !(Lookup.table.map (·.1)).contains e.2) = false := by
      rw [List.any_eq_false]
      intro e he
      simpa using hsup e he
    simp only [h1, Bool.false_eq_true, if_false]
    rcases hnot with h | h <;> subst h <;> simp
  rw [hv]
  exact ⟨_, rfl, rfl, rfl, rfl⟩

/-- a `-E` target that is not a registered suffix rejects the command line -/
theorem startup_err_of_unsupported (rawE en dis : List Text) (s : Text) (k v : Text) (hs : s ∈ rawE)
    (hp : parseExtension s = .ok (k, v)) (hv : v ∉ Lookup.table.map (·.1)) : ∃ e, startup rawE en dis = .error e := by
  unfold startup
  cases hE : mapM' parseExtension rawE with
  | error e => exact ⟨e, rfl⟩
  | ok exts =>
    simp only
    cases hen : mapM' parseValidator en with
    | error e => exact ⟨e, rfl⟩
    | ok ens =>
      simp only
      cases hdis : mapM' parseValidator dis with
      | error e => exact ⟨e, rfl⟩
      | ok diss =>
        simp only
        obtain ⟨y, hy, hfy⟩ := mapM'_ok_inv parseExtension rawE exts hE s hs
        rw [hp] at hfy
        injection hfy with hfy
        subst hfy
        have : validate exts ens diss = .error .unsupportedExtension := by
          unfold validate validateWith
          have : exts.any (fun e => !(Lookup.table.map (·.1)).contains e.2) = true :=
            List.any_eq_true.2 ⟨(k, v), hy, by simpa using hv⟩
          simp only [this, if_true]
        rw [this]; exact ⟨_, rfl⟩

theorem splitOnceEq_none_iff (s : Text) : splitOnceEq s = none ↔ '=' ∉ s := by
  induction s with
  | nil => simp [splitOnceEq]
  | cons c cs ih =>
    unfold splitOnceEq
    by_cases hc : c = '='
    · simp [hc]
    · simp only [hc, if_false, List.mem_cons]
      cases h : splitOnceEq cs with
      | none => simp [ih.1 h, Ne.symm hc]
      | some p =>
        have : '=' ∈ cs := by
          cases hm : decide ('=' ∈ cs) with
          | true => simpa using hm
          | false =>
            have hn : '=' ∉ cs := by simpa using hm
            rw [ih.2 hn] at h; cases h
        obtain ⟨pk, pv⟩ := p
        simp [this]

/-- `KEY=VALUE` is split at the first `=` -/
theorem splitOnceEq_spec (k v : Text) (hk : '=' ∉ k) : splitOnceEq (k ++ '=' :: v) = some (k, v) := by
  induction k with
  | nil => simp [splitOnceEq]
  | cons c cs ih =>
    have hc : c ≠ '=' := fun h => hk (by simp [h])
    have hcs : '=' ∉ cs := fun h => hk (List.mem_cons_of_mem _ h)
    simp only [List.cons_append, splitOnceEq, hc, if_false, ih hcs]

/-- a repeated `-E` key keeps its last value; keys of the map are distinct -/
theorem find_insertExt (m : List (Text × Text)) (e : Text × Text) (k : Text) :
    ((insertExt m e).find? (fun x => x.1 = k)).map (·.2) =
      if e.1 = k then some e.2 else (m.find? (fun x => x.1 = k)).map (·.2) := by
  induction m with
  | nil =>
    simp only [insertExt, List.find?_cons, List.find?_nil]
    by_cases h : e.1 = k <;> simp [h]
  | cons x rest ih =>
    simp only [insertExt]
    by_cases hx : x.1 = e.1
    · simp only [hx, if_true, List.find?_cons]
      by_cases h : e.1 = k <;> simp [h]
    · simp only [hx, if_false, List.find?_cons]
      by_cases hxk : x.1 = k
      · have : ¬ e.1 = k := fun h => hx (hxk.trans h.symm)
        simp [hxk, this]
      · simp only [hxk, decide_false, Bool.false_eq_true]
        exact ih

theorem find_extensionsMap_append (exts : List (Text × Text)) (e : Text × Text) (k : Text) :
    ((extensionsMap (exts ++ [e])).find? (fun x => x.1 = k)).map (·.2) =
      if e.1 = k then some e.2 else ((extensionsMap exts).find? (fun x => x.1 = k)).map (·.2) := by
  unfold extensionsMap
  rw [List.foldl_append]
  exact find_insertExt _ e k

end Bw.Flags
