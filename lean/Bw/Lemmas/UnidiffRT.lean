import Bw.Unidiff
/-! Round trip of the unidiff model: a patch written the way git writes it is read back as the same files,
    hunks and numbered lines - unless a body line looks like a file header (the known class D10). -/
namespace Bw.Unidiff

theorem stripPrefix_append (p r : Text) : stripPrefix p (p ++ r) = some r := by
  induction p with
  | nil => rfl
  | cons c cs ih => simp [stripPrefix, ih]

def Digits (ds : Text) : Prop := ds ≠ [] ∧ ∀ c ∈ ds, isDigit c = true

theorem takeDigits_append (ds : Text) (c : Char) (r : Text) (hd : ∀ d ∈ ds, isDigit d = true) (hc : isDigit c = false) :
    takeDigits (ds ++ c :: r) = (ds, c :: r) := by
  induction ds with
  | nil => simp [takeDigits, List.takeWhile, List.dropWhile, hc]
  | cons d ds ih =>
    have hd' := hd d (by simp)
    have ih' := ih (fun x hx => hd x (by simp [hx]))
    simp only [takeDigits, List.cons_append, List.takeWhile, List.dropWhile, hd'] at ih' ⊢
    injection ih' with h1 h2
    rw [h1, h2]

/-- `S,L` followed by a non-digit -/
theorem rangeSpec_pair (a b : Text) (c : Char) (r : Text) (ha : Digits a) (hb : Digits b) (hc : isDigit c = false) :
    rangeSpec (a ++ ',' :: (b ++ c :: r)) = some (digitsVal a, digitsVal b, c :: r) := by
  have hcomma : isDigit ',' = false := by decide
  have h1 := takeDigits_append a ',' (b ++ c :: r) ha.2 hcomma
  have h2 := takeDigits_append b c r hb.2 hc
  have hae : a.isEmpty = false := by cases a with | nil => exact absurd rfl ha.1 | cons _ _ => rfl
  have hbe : b.isEmpty = false := by cases b with | nil => exact absurd rfl hb.1 | cons _ _ => rfl
  simp only [rangeSpec, h1, hae, h2, hbe, Bool.false_eq_true, if_false]

/-- the hunk header as git writes it (both lengths explicit, optional section text after the second `@@`) -/
def renderHeader (ss sl ts tl tail : Text) : Text :=
  "@@ -".toList ++ (ss ++ ',' :: (sl ++ ' ' :: '+' :: (ts ++ ',' :: (tl ++ ' ' :: '@' :: '@' :: tail))))

theorem hunkHeader_render (ss sl ts tl tail : Text) (h1 : Digits ss) (h2 : Digits sl) (h3 : Digits ts) (h4 : Digits tl) :
    hunkHeader (renderHeader ss sl ts tl tail) = some (digitsVal ss, digitsVal sl, digitsVal ts, digitsVal tl) := by
  have hsp : isDigit ' ' = false := by decide
  have e0 : stripPrefix "@@ -".toList (renderHeader ss sl ts tl tail) =
      some (ss ++ ',' :: (sl ++ ' ' :: '+' :: (ts ++ ',' :: (tl ++ ' ' :: '@' :: '@' :: tail)))) := stripPrefix_append _ _
  have e1 := rangeSpec_pair ss sl ' ' ('+' :: (ts ++ ',' :: (tl ++ ' ' :: '@' :: '@' :: tail))) h1 h2 hsp
  have e2 : stripPrefix " +".toList (' ' :: '+' :: (ts ++ ',' :: (tl ++ ' ' :: '@' :: '@' :: tail))) =
      some (ts ++ ',' :: (tl ++ ' ' :: '@' :: '@' :: tail)) := stripPrefix_append " +".toList _
  have e3 := rangeSpec_pair ts tl ' ' ('@' :: '@' :: tail) h3 h4 hsp
  have e4 : startsWith " @@".toList (' ' :: '@' :: '@' :: tail) = true := by
    unfold startsWith
    rw [show (' ' :: '@' :: '@' :: tail) = " @@".toList ++ tail from rfl, stripPrefix_append]; rfl
  unfold hunkHeader
  simp only [e0, e1, e2, e3, e4, if_true]

/-! ### hunk bodies -/

/-- one body line as git writes it -/
def renderLine (k : Kind) (v : Text) : Text :=
  match k with
  | .add => '+' :: v
  | .rem => '-' :: v
  | .ctx => ' ' :: v
  | .other => '\\' :: v

/-- the numbering `unidiff` gives to body lines starting at source line `s`, target line `t` -/
def number : Nat → Nat → List (Kind × Text) → List Line
  | _, _, [] => []
  | s, t, (.add, v) :: r => ⟨.add, v, none, some t⟩ :: number s (t + 1) r
  | s, t, (.rem, v) :: r => ⟨.rem, v, some s, none⟩ :: number (s + 1) t r
  | s, t, (.ctx, v) :: r => ⟨.ctx, v, some s, some t⟩ :: number (s + 1) (t + 1) r
  | s, t, (.other, v) :: r => ⟨.other, v, none, none⟩ :: number s t r

def cntS : List (Kind × Text) → Nat
  | [] => 0
  | (.rem, _) :: r => 1 + cntS r
  | (.ctx, _) :: r => 1 + cntS r
  | (_, _) :: r => cntS r
def cntT : List (Kind × Text) → Nat
  | [] => 0
  | (.add, _) :: r => 1 + cntT r
  | (.ctx, _) :: r => 1 + cntT r
  | (_, _) :: r => cntT r

/-- a body of added / removed / context lines (the `\ No newline` marker is handled by the outer loop) -/
def Plain (body : List (Kind × Text)) : Prop := ∀ x ∈ body, x.1 ≠ .other

/-- **hunk body round trip**: reading a non-empty rendered body with the header's lengths returns exactly its lines,
    numbered, and stops at its end whatever follows -/
theorem hunkBody_render (body : List (Kind × Text)) (hne : body ≠ []) (hp : Plain body) (rest : List Text) (s t : Nat) :
    hunkBody (s + cntS body) (t + cntT body) (body.map (fun x => renderLine x.1 x.2) ++ rest) s t = number s t body := by
  induction body generalizing s t with
  | nil => exact absurd rfl hne
  | cons x xs ih =>
    obtain ⟨k, v⟩ := x
    have hk : k ≠ .other := hp (k, v) (by simp)
    have hp' : Plain xs := fun y hy => hp y (by simp [hy])
    by_cases hxs : xs = []
    · subst hxs
      cases k with
      | other => exact absurd rfl hk
      | add => simp [hunkBody, renderLine, number, cntS, cntT]
      | rem => simp [hunkBody, renderLine, number, cntS, cntT]
      | ctx => simp [hunkBody, renderLine, number, cntS, cntT]
    · -- the remaining lines still advance a counter, so the loop cannot stop here
      have hpos : 1 ≤ cntS xs + cntT xs := by
        cases xs with
        | nil => exact absurd rfl hxs
        | cons y ys =>
          obtain ⟨ky, vy⟩ := y
          have : ky ≠ .other := hp' (ky, vy) (by simp)
          cases ky <;> simp [cntS, cntT] at this ⊢ <;> omega
      cases k with
      | other => exact absurd rfl hk
      | add =>
        have := ih hxs hp' s (t + 1)
        simp only [List.map_cons, List.cons_append, hunkBody, renderLine, number, cntS, cntT] at this ⊢
        split
        · omega
        · rw [show t + (1 + cntT xs) = t + 1 + cntT xs by omega, this]
      | rem =>
        have := ih hxs hp' (s + 1) t
        simp only [List.map_cons, List.cons_append, hunkBody, renderLine, number, cntS, cntT] at this ⊢
        split
        · omega
        · rw [show s + (1 + cntS xs) = s + 1 + cntS xs by omega, this]
      | ctx =>
        have := ih hxs hp' (s + 1) (t + 1)
        simp only [List.map_cons, List.cons_append, hunkBody, renderLine, number, cntS, cntT] at this ⊢
        split
        · omega
        · rw [show s + (1 + cntS xs) = s + 1 + cntS xs by omega, show t + (1 + cntT xs) = t + 1 + cntT xs by omega, this]

/-! ### the outer loop -/

/-- a body line that the outer loop does not mistake for a file header (the complement is the known class D10:
    a removed line starting with `-- `, an added line starting with `++ `) -/
def Benign (x : Kind × Text) : Prop :=
  headerName "--- ".toList (renderLine x.1 x.2) = none ∧ headerName "+++ ".toList (renderLine x.1 x.2) = none

structure RHunk where
  ss : Text
  sl : Text
  ts : Text
  tl : Text
  tail : Text
  body : List (Kind × Text)

structure RFile where
  src : Text
  tgt : Text
  hunks : List RHunk

def RHunk.WF (h : RHunk) : Prop :=
  Digits h.ss ∧ Digits h.sl ∧ Digits h.ts ∧ Digits h.tl ∧ digitsVal h.sl = cntS h.body ∧ digitsVal h.tl = cntT h.body ∧
  h.body ≠ [] ∧ Plain h.body ∧ ∀ x ∈ h.body, Benign x

def NameOk (n : Text) : Prop := n ≠ [] ∧ n.takeWhile (· != '\t') = n

def RFile.WF (f : RFile) : Prop := NameOk f.src ∧ NameOk f.tgt ∧ ∀ h ∈ f.hunks, h.WF

def renderHunk (h : RHunk) : List Text :=
  renderHeader h.ss h.sl h.ts h.tl h.tail :: h.body.map (fun x => renderLine x.1 x.2)

def renderFile (f : RFile) : List Text :=
  ("--- ".toList ++ f.src) :: ("+++ ".toList ++ f.tgt) :: f.hunks.flatMap renderHunk

def hunkOf (h : RHunk) : Hunk :=
  ⟨digitsVal h.ss, digitsVal h.sl, digitsVal h.ts, digitsVal h.tl, number (digitsVal h.ss) (digitsVal h.ts) h.body⟩

def fileOf (f : RFile) : File := ⟨f.src, f.tgt, f.hunks.map hunkOf⟩

theorem hunkHeader_body (k : Kind) (v : Text) (hk : k ≠ .other) : hunkHeader (renderLine k v) = none := by
  cases k <;> first | exact absurd rfl hk | simp [hunkHeader, renderLine, stripPrefix]

theorem skip_body (body : List (Kind × Text)) (hp : Plain body) (hb : ∀ x ∈ body, Benign x) (rest : List Text) (st : St) :
    parseLoop (body.map (fun x => renderLine x.1 x.2) ++ rest) st = parseLoop rest st := by
  induction body with
  | nil => rfl
  | cons x xs ih =>
    have h1 := (hb x (by simp)).1
    have h2 := (hb x (by simp)).2
    have h3 := hunkHeader_body x.1 x.2 (hp x (by simp))
    simp only [List.map_cons, List.cons_append, parseLoop, h1, h2, h3]
    exact ih (fun y hy => hp y (by simp [hy])) (fun y hy => hb y (by simp [hy]))

theorem header_not_file (ss sl ts tl tail : Text) :
    headerName "--- ".toList (renderHeader ss sl ts tl tail) = none ∧
    headerName "+++ ".toList (renderHeader ss sl ts tl tail) = none := by
  constructor <;> simp [headerName, renderHeader, stripPrefix]

theorem hunk_step (h : RHunk) (hw : h.WF) (rest : List Text) (st : St) (f : File) (hc : st.current = some f) :
    parseLoop (renderHunk h ++ rest) st =
      parseLoop rest { st with current := some { f with hunks := f.hunks ++ [hunkOf h] } } := by
  obtain ⟨d1, d2, d3, d4, e1, e2, hne, hp, hb⟩ := hw
  have hh := hunkHeader_render h.ss h.sl h.ts h.tl h.tail d1 d2 d3 d4
  have hn := header_not_file h.ss h.sl h.ts h.tl h.tail
  have hbody := hunkBody_render h.body hne hp rest (digitsVal h.ss) (digitsVal h.ts)
  rw [← e1, ← e2] at hbody
  simp only [renderHunk, List.cons_append, parseLoop, hn.1, hn.2, hh, hc, hbody]
  rw [skip_body h.body hp hb]
  rfl

theorem hunks_step (hs : List RHunk) (hw : ∀ h ∈ hs, h.WF) (rest : List Text) (st : St) (f : File) (hc : st.current = some f) :
    parseLoop (hs.flatMap renderHunk ++ rest) st =
      parseLoop rest { st with current := some { f with hunks := f.hunks ++ hs.map hunkOf } } := by
  induction hs generalizing st f with
  | nil => simp [← hc]
  | cons h hs ih =>
    simp only [List.flatMap_cons, List.append_assoc]
    rw [hunk_step h (hw h (by simp)) _ st f hc, ih (fun x hx => hw x (by simp [hx])) _ _ rfl]
    simp

def St.close (st : St) : List File := match st.current with | some f => st.files ++ [f] | none => st.files

theorem headerName_ok (pre n : Text) (hn : NameOk n) : headerName pre (pre ++ n) = some n := by
  have he : n.isEmpty = false := by cases n with | nil => exact absurd rfl hn.1 | cons _ _ => rfl
  simp [headerName, stripPrefix_append, hn.2, he]

theorem file_step (f : RFile) (hw : f.WF) (rest : List Text) (st : St) :
    ∃ st', parseLoop (renderFile f ++ rest) st = parseLoop rest st' ∧ st'.close = st.close ++ [fileOf f] := by
  obtain ⟨hs, ht, hh⟩ := hw
  have h1 := headerName_ok "--- ".toList f.src hs
  have h2 : headerName "--- ".toList ("+++ ".toList ++ f.tgt) = none := by simp [headerName, stripPrefix]
  have h3 := headerName_ok "+++ ".toList f.tgt ht
  refine ⟨{ files := st.close, current := some (fileOf f), source := some f.src }, ?_, by simp [St.close]⟩
  simp only [renderFile, List.cons_append, parseLoop, h1, h2, h3]
  have := hunks_step f.hunks hh rest { files := st.close, current := some ⟨f.src, f.tgt, []⟩, source := some f.src } ⟨f.src, f.tgt, []⟩ rfl
  simp only [St.close] at this ⊢
  cases hcur : st.current <;> simp [hcur] at this ⊢ <;> simpa [fileOf] using this

theorem files_step (fs : List RFile) (hw : ∀ f ∈ fs, f.WF) (st : St) :
    ∃ st', parseLoop (fs.flatMap renderFile) st = .ok st' ∧ st'.close = st.close ++ fs.map fileOf := by
  induction fs generalizing st with
  | nil => exact ⟨st, by simp [parseLoop], by simp⟩
  | cons f fs ih =>
    obtain ⟨st1, h1, c1⟩ := file_step f (hw f (by simp)) (fs.flatMap renderFile) st
    obtain ⟨st2, h2, c2⟩ := ih (fun x hx => hw x (by simp [hx])) st1
    exact ⟨st2, by simp only [List.flatMap_cons]; rw [h1, h2], by rw [c2, c1]; simp⟩

end Bw.Unidiff
