import Bw.Unidiff
import Bw.Blocks
/-! Model of `src/diff_parser.rs` (hunk walk, character ranges) and of the block/change intersection
    in `src/blocks.rs`. -/
namespace Bw.Diff
open Bw.Unidiff Bw.Blocks

/-- `diff_parser::LineChange`; ranges are half-open byte ranges, 0-based -/
structure LC where
  line : Nat
  ranges : Option (List (Nat × Nat))
deriving Repr, DecidableEq

/-- `similar::DiffOp` with char indices -/
inductive Op where
  | equal (oldIdx newIdx len : Nat)
  | delete (oldIdx oldLen newIdx : Nat)
  | insert (oldIdx newIdx newLen : Nat)
  | replace (oldIdx oldLen newIdx newLen : Nat)
deriving Repr, DecidableEq

def Op.isDelete : Op → Bool
  | .delete .. => true
  | _ => false

/-- sink a new last element to its sorted position (by range start); lists are reversed (last first) -/
def sinkRev : List (Nat × Nat) → Nat × Nat → List (Nat × Nat)
  | [], r => [r]
  | p :: rest, r => if r.1 < p.1 then p :: sinkRev rest r else r :: p :: rest

def sinkLast (rs : List (Nat × Nat)) (r : Nat × Nat) : List (Nat × Nat) := (sinkRev rs.reverse r).reverse

/-- `push_or_merge_range` -/
def pushOrMerge (rs : List (Nat × Nat)) (new : Nat × Nat) : List (Nat × Nat) :=
  match rs.reverse with
  | last :: rest =>
    if new.1 ≤ last.2 ∧ new.2 ≥ last.1 then
      sinkLast rest.reverse (min new.1 last.1, max new.2 last.2)
    else sinkLast rs new
  | [] => [new]

/-- byte offset of the `i`-th char of `t` (`t.len()` past the end) -/
def byteOffset : Nat → Text → Nat
  | 0, _ => 0
  | _ + 1, [] => 0
  | i + 1, c :: cs => c.utf8Size + byteOffset i cs

/-- the byte range of `new` that one op of `similar` contributes in `line_diff` (`prev` = the previous op):
    a deletion marks the character after it (the last one at the end of the line), consecutive deletions only once -/
def opRange (new : Text) (prev : Option Op) (op : Op) : Option (Nat × Nat) :=
  let n := new.length
  match op with
  | .delete _ _ ni =>
    if (match prev with | some p => !p.isDelete | none => true) then
      let idx := min (n - 1) ni
      let s := byteOffset idx new
      some (s, max (byteOffset (min (idx + 1) n) new) (s + 1))
    else none
  | .insert _ ni nl => some (byteOffset ni new, byteOffset (ni + nl) new)
  | .replace _ _ ni nl => some (byteOffset ni new, byteOffset (ni + nl) new)
  | .equal .. => none

/-- `line_diff` over the op list that `similar` produced for `(old, new)` (byte ranges in `new`) -/
def lineDiffOps (new : Text) : List Op → Option Op → List (Nat × Nat) → List (Nat × Nat)
  | [], _, acc => acc
  | op :: ops, prev, acc =>
    lineDiffOps new ops (some op) (match opRange new prev op with
      | some r => pushOrMerge acc r
      | none => acc)

/-- state of the hunk walk in `line_changes` -/
structure St where
  pending : List Line := []       -- `deleted_lines`
  prevAdded : Option Bool := none -- `prev_line.is_added()`, `none` before the first line
  out : List LC := []

/-- `clear_or_fold_deleted_lines` -/
def clearOrFold (st : St) : St :=
  if st.prevAdded = some true then { st with pending := [] }
  else match st.pending with
    | [] => st
    | d :: _ => { st with out := st.out ++ [LC.mk (d.srcNo.getD 0) none], pending := [] }

def stepLine (diff : Text → Text → List (Nat × Nat)) (st : St) (l : Line) : St :=
  let st := match l.kind with
    | .add =>
      match st.pending with
      | d :: ps => { st with out := st.out ++ [LC.mk (l.tgtNo.getD 0) (some (diff d.value l.value))], pending := ps }
      | [] => { st with out := st.out ++ [LC.mk (l.tgtNo.getD 0) none] }
    | .rem => { st with pending := st.pending ++ [l] }
    | .ctx => clearOrFold st
    | .other => st
  { st with prevAdded := some (l.kind == Kind.add) }

def stepHunk (diff : Text → Text → List (Nat × Nat)) (st : St) (h : Hunk) : St :=
  clearOrFold (h.lines.foldl (stepLine diff) st)

/-- `line_changes(patched_file)` -/
def lineChanges (diff : Text → Text → List (Nat × Nat)) (f : File) : List LC :=
  (f.hunks.foldl (stepHunk diff) {}).out

/-- target path normalisation in `line_changes_from_diff`: exactly one leading `b/` is removed -/
def normaliseTarget (t : Text) : Text := (stripPrefix "b/".toList t).getD t

/-- `HashMap<PathBuf, _>::insert`: keys are equal when their path components are (`x///` = `x`); an existing key
    is kept and only its value replaced -/
def insertFile (acc : List (Text × List LC)) (p : Text) (v : List LC) : List (Text × List LC) :=
  if acc.any (fun e => pathEq e.1 p) then acc.map (fun e => if pathEq e.1 p then (e.1, v) else e)
  else acc ++ [(p, v)]

/-- `line_changes_from_diff`: later files with the same path replace earlier ones (`HashMap::insert`) -/
def lineChangesFromDiff (diff : Text → Text → List (Nat × Nat)) (input : Text) :
    Except Unidiff.Err (List (Text × List LC)) :=
  match Unidiff.parse input with
  | .error e => .error e
  | .ok files =>
    .ok (files.foldl (fun acc f =>
      if f.isRemoved then acc
      else
        insertFile acc (normaliseTarget f.target) (lineChanges diff f)) [])

/-- std `binary_search_by(..).is_ok()` over a list with comparator `f` -/
def bsearchLoop {α} (xs : Array α) (f : α → Ordering) : Nat → Nat → Nat → Nat
  | 0, _, base => base
  | fuel + 1, size, base =>
    if size ≤ 1 then base else
    let half := size / 2
    let mid := base + half
    let base' := match xs[mid]? with
      | some x => if f x = .gt then base else mid
      | none => base
    bsearchLoop xs f fuel (size - half) base'

def bsearchFound {α} (l : List α) (f : α → Ordering) : Bool :=
  let xs := l.toArray
  if xs.size = 0 then false
  else match xs[bsearchLoop xs f xs.size xs.size 0]? with
    | some x => f x = .eq
    | none => false

/-- a changed byte range `[r.1, r.2)` of the line reaches into the columns `(sc, ec]` / `(sc, ec)` of the block -/
def touches (incl : Bool) (sc : Nat) (ec : Option Nat) (r : Nat × Nat) : Bool :=
  decide (r.2 > sc) && (match ec with
    | none => true
    | some x => if incl then decide (r.1 ≤ x) else decide (r.1 < x))

/-- the comparator handed to `binary_search_by` -/
def rangeCmp (incl : Bool) (sc : Nat) (ec : Option Nat) (r : Nat × Nat) : Ordering :=
  if touches incl sc ec r then .eq else if r.2 ≤ sc then .lt else .gt

/-- `intersects_with_line_change` (content: half-open end) / `_inclusive` (start tag: closed end).
    `checked` subtraction: a column of 0 would underflow in Rust; positions are 1-based. -/
def hit (incl : Bool) (s e : Pos) (c : LC) : Bool :=
  if c.line < s.line then false
  else if c.line > e.line then false
  else match c.ranges with
    | none => true
    | some rs =>
      let sc := if c.line = s.line then s.col - 1 else 0
      let ec : Option Nat := if c.line < e.line then none else some (e.col - 1)
      bsearchFound rs (rangeCmp incl sc ec)

/-- `content_intersects_with_any` / `start_tag_intersects_with_any` (linear scan after the fix) -/
def contentModified (b : Block) (cs : List LC) : Bool := cs.any (hit false b.cPosStart b.cPosEnd)
def tagModified (b : Block) (cs : List LC) : Bool := cs.any (hit true b.tagStart b.tagEnd)

end Bw.Diff
