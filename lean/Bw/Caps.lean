/-! Capability graph of a Lua state: closedness of a dump and soundness of the reachability argument. -/
namespace Bw.Caps

structure Graph where
  edges : List (Nat × Nat)

inductive Reach (G : Graph) (roots : List Nat) : Nat → Prop where
  | root {n} : n ∈ roots → Reach G roots n
  | step {m n} : Reach G roots m → (m, n) ∈ G.edges → Reach G roots n

/-- every edge that starts inside `N` ends inside `N` -/
def closed (G : Graph) (N : List Nat) : Bool :=
  G.edges.all (fun (m, n) => !N.contains m || N.contains n)

theorem closed_sound (G : Graph) (N roots : List Nat) (hc : closed G N = true)
    (hr : ∀ r ∈ roots, r ∈ N) : ∀ n, Reach G roots n → n ∈ N := by
  intro n h
  induction h with
  | root hroot => exact hr _ hroot
  | @step m n' _ hedge ih =>
    have := List.all_eq_true.1 hc (m, n') hedge
    simp only [Bool.or_eq_true, Bool.not_eq_true', List.contains_iff_mem] at this
    rcases this with h | h
    · have hm : N.contains m = true := by simpa [List.contains_iff_mem] using ih
      rw [hm] at h; cases h
    · exact h

/-- check: the dump is closed, the roots are inside, and every function node carries an allow-listed label -/
def check (G : Graph) (N roots : List Nat) (label : Nat → Option String) (isFn : Nat → Bool)
    (allow : List String) : Bool :=
  closed G N && roots.all N.contains &&
  N.all (fun n => !isFn n || (match label n with | some l => allow.contains l | none => false))

theorem check_sound (G : Graph) (N roots : List Nat) (label) (isFn) (allow : List String)
    (h : check G N roots label isFn allow = true) :
    ∀ n, Reach G roots n → isFn n = true → ∃ l, label n = some l ∧ l ∈ allow := by
  intro n hn hf
  simp only [check, Bool.and_eq_true] at h
  obtain ⟨⟨hc, hr⟩, hall⟩ := h
  have hmem := closed_sound G N roots hc (by
    intro r hr'; have := List.all_eq_true.1 hr r hr'; simpa [List.contains_iff_mem] using this) n hn
  have := List.all_eq_true.1 hall n hmem
  simp only [hf, Bool.not_true, Bool.false_or] at this
  cases hl : label n with
  | none => simp [hl] at this
  | some l => exact ⟨l, rfl, by simpa [hl, List.contains_iff_mem] using this⟩

/-- functions of the Lua 5.4 base, coroutine, table, string, utf8 and math libraries that carry no
    file / OS / loader / host-introspection authority (base library minus dofile, loadfile, require) -/
def allowDefault : List String := [
  "assert", "collectgarbage", "error", "getmetatable", "ipairs", "load", "next", "pairs", "pcall", "print",
  "rawequal", "rawget", "rawlen", "rawset", "select", "setmetatable", "tonumber", "tostring", "type", "xpcall", "warn",
  "coroutine.close", "coroutine.create", "coroutine.isyieldable", "coroutine.resume", "coroutine.running",
  "coroutine.status", "coroutine.wrap", "coroutine.yield",
  "table.concat", "table.insert", "table.move", "table.pack", "table.remove", "table.sort", "table.unpack",
  "string.byte", "string.char", "string.dump", "string.find", "string.format", "string.gmatch", "string.gsub",
  "string.len", "string.lower", "string.match", "string.pack", "string.packsize", "string.rep", "string.reverse",
  "string.sub", "string.unpack", "string.upper",
  "utf8.char", "utf8.codepoint", "utf8.codes", "utf8.len", "utf8.offset",
  "math.abs", "math.acos", "math.asin", "math.atan", "math.ceil", "math.cos", "math.deg", "math.exp", "math.floor",
  "math.fmod", "math.log", "math.max", "math.min", "math.modf", "math.rad", "math.random", "math.randomseed",
  "math.sin", "math.sqrt", "math.tan", "math.tointeger", "math.type", "math.ult",
  -- LUA_COMPAT_MATHLIB functions (pure arithmetic)
  "math.cosh", "math.frexp", "math.ldexp", "math.log10", "math.pow", "math.sinh", "math.tanh",
  -- arithmetic metamethods of the string metatable (string -> number coercion)
  "<strmeta>.__add", "<strmeta>.__sub", "<strmeta>.__mul", "<strmeta>.__div", "<strmeta>.__mod", "<strmeta>.__pow",
  "<strmeta>.__unm", "<strmeta>.__idiv",
  -- the script's own entry point
  "validate"]

/-- names that must not be reachable as globals in the default mode -/
def forbiddenGlobals : List String := ["io", "os", "package", "debug", "require", "dofile", "loadfile"]

end Bw.Caps
