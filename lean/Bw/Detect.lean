/-! Faithful model of the lazy detection loop in `detect_validators` (`src/validators/mod.rs`):
    a stack of not-yet-detected detectors is popped for every block; undetected ones are put back;
    the loop stops early when the stack is empty. -/
namespace Bw.Detect

variable {B D : Type}

/-- inner `while let Some(detector) = validator_detectors.pop()` -/
def popAll (needs : D → B → Bool) (b : B) : List D → List D × List D → List D × List D
  | [], acc => acc
  | d :: ds, (det, und) =>
    if needs d b then popAll needs b ds (det ++ [d], und) else popAll needs b ds (det, und ++ [d])

/-- outer loop over blocks (flattened in hash-map iteration order). `stack` is the Vec viewed from its end. -/
def detectLoop (needs : D → B → Bool) : List B → List D → List D → List D
  | [], _, det => det
  | b :: bs, stack, det =>
    let (det', und) := popAll needs b stack (det, [])
    if und.isEmpty then det' else detectLoop needs bs und.reverse det'

theorem popAll_spec (needs : D → B → Bool) (b : B) (ds : List D) (det und : List D) :
    popAll needs b ds (det, und) = (det ++ ds.filter (needs · b), und ++ ds.filter (fun d => !needs d b)) := by
  induction ds generalizing det und with
  | nil => simp [popAll]
  | cons d ds ih =>
    unfold popAll
    by_cases h : needs d b = true
    · simp [h, ih, List.append_assoc]
    · simp [h, ih, List.append_assoc]

theorem mem_detectLoop (needs : D → B → Bool) (bs : List B) (stack det : List D) (d : D) :
    d ∈ detectLoop needs bs stack det ↔ d ∈ det ∨ (d ∈ stack ∧ ∃ b ∈ bs, needs d b = true) := by
  induction bs generalizing stack det with
  | nil => simp [detectLoop]
  | cons b bs ih =>
    simp only [detectLoop, popAll_spec, List.nil_append]
    by_cases hemp : (List.filter (fun d => !needs d b) stack).isEmpty = true
    · simp only [hemp, if_true]
      have hall : ∀ x ∈ stack, needs x b = true := by
        intro x hx
        cases hn : needs x b with
        | true => rfl
        | false =>
          have hm : x ∈ stack.filter (fun d => !needs d b) := by simp [List.mem_filter, hx, hn]
          rw [List.isEmpty_iff] at hemp
          rw [hemp] at hm
          cases hm
      constructor
      · intro h
        rcases List.mem_append.1 h with h | h
        · exact Or.inl h
        · have := List.mem_filter.1 h
          exact Or.inr ⟨this.1, b, by simp, by simpa using this.2⟩
      · rintro (h | ⟨hs, _⟩)
        · exact List.mem_append.2 (Or.inl h)
        · exact List.mem_append.2 (Or.inr (List.mem_filter.2 ⟨hs, by simpa using hall d hs⟩))
    · simp only [hemp, if_false, Bool.false_eq_true]
      rw [ih]
      simp only [List.mem_append, List.mem_filter, List.mem_reverse, List.mem_cons]
      constructor
      · rintro ((h | ⟨hs, hn⟩) | ⟨⟨hs, _⟩, b', hb', hn⟩)
        · exact Or.inl h
        · exact Or.inr ⟨hs, b, Or.inl rfl, by simpa using hn⟩
        · exact Or.inr ⟨hs, b', Or.inr hb', hn⟩
      · rintro (h | ⟨hs, b', hb', hn⟩)
        · exact Or.inl (Or.inl h)
        · rcases hb' with rfl | hb'
          · exact Or.inl (Or.inr ⟨hs, by simpa using hn⟩)
          · cases hb : needs d b with
            | true => exact Or.inl (Or.inr ⟨hs, by simpa using hb⟩)
            | false => exact Or.inr ⟨⟨hs, by simp [hb]⟩, b', hb', hn⟩

end Bw.Detect
