/-! Text primitives mirroring the Rust `std` functions blockwatch uses.

`Text = List Char` (Unicode scalar values). Byte quantities (Rust `str` indices, tree-sitter
columns) are computed with `Char.utf8Size`. -/
namespace Bw

abbrev Text := List Char

/-- `char::is_whitespace` (Unicode `White_Space`). Tied to Rust by an exhaustive harness check. -/
def isWhite (c : Char) : Bool :=
  let n := c.toNat
  (0x09 ≤ n && n ≤ 0x0D) || n == 0x20 || n == 0x85 || n == 0xA0 || n == 0x1680 ||
  (0x2000 ≤ n && n ≤ 0x200A) || n == 0x2028 || n == 0x2029 || n == 0x202F || n == 0x205F || n == 0x3000

/-- UTF-8 length in bytes (`str::len`). -/
def ulen : Text → Nat
  | [] => 0
  | c :: cs => c.utf8Size + ulen cs

theorem ulen_append (a b : Text) : ulen (a ++ b) = ulen a + ulen b := by
  induction a with
  | nil => simp [ulen]
  | cons c cs ih => simp [ulen, ih]; omega

/-- `str::trim_start` -/
def trimStart : Text → Text
  | [] => []
  | c :: cs => if isWhite c then trimStart cs else c :: cs

/-- `str::trim_end` -/
def trimEnd (t : Text) : Text := (trimStart t.reverse).reverse

/-- `str::trim` -/
def trim (t : Text) : Text := trimEnd (trimStart t)

/-- number of leading whitespace bytes removed by `trim_start` (pointer difference in the Rust code) -/
def leadBytes : Text → Nat
  | [] => 0
  | c :: cs => if isWhite c then c.utf8Size + leadBytes cs else 0

/-- `str::split_inclusive('\n')` -/
def splitInclusive : Text → List Text
  | [] => []
  | c :: cs =>
    if c = '\n' then [c] :: splitInclusive cs
    else match splitInclusive cs with
      | [] => [[c]]
      | l :: ls => (c :: l) :: ls

/-- strip one line terminator: `\n` or `\r\n` (a lone trailing `\r` stays) -/
def stripEol (l : Text) : Text :=
  match l.reverse with
  | '\n' :: '\r' :: r => r.reverse
  | '\n' :: r => r.reverse
  | _ => l

/-- `str::lines()` -/
def lines (t : Text) : List Text := (splitInclusive t).map stripEol

/-- drop `n` bytes (assumed to end on a char boundary) -/
def dropBytes : Nat → Text → Text
  | 0, t => t
  | _, [] => []
  | n + 1, c :: cs => dropBytes (n + 1 - c.utf8Size) cs

/-- take `n` bytes -/
def takeBytes : Nat → Text → Text
  | 0, _ => []
  | _, [] => []
  | n + 1, c :: cs => c :: takeBytes (n + 1 - c.utf8Size) cs

/-- `&s[a..b]` by UTF-8 offsets -/
def sliceBytes (s e : Nat) (t : Text) : Text := takeBytes (e - s) (dropBytes s t)

/-- is byte offset `n` a char boundary of `t` (`str::is_char_boundary`) -/
def isBoundary : Nat → Text → Bool
  | 0, _ => true
  | _ + 1, [] => false
  | n + 1, c :: cs => if c.utf8Size ≤ n + 1 then isBoundary (n + 1 - c.utf8Size) cs else false

/-- `str::strip_prefix` -/
def stripPrefix : Text → Text → Option Text
  | [], s => some s
  | _ :: _, [] => none
  | p :: ps, c :: cs => if p = c then stripPrefix ps cs else none

def startsWith (p t : Text) : Bool := (stripPrefix p t).isSome

/-- byte offset of the first occurrence of `pat` (`str::find(&str)`), `pat` non-empty -/
def findSub (pat : Text) : Text → Option Nat
  | [] => if pat.isEmpty then some 0 else none
  | c :: cs =>
    if startsWith pat (c :: cs) then some 0
    else (findSub pat cs).map (· + c.utf8Size)

/-- byte offset of the last occurrence of `pat` (`str::rfind(&str)`) -/
def rfindSub (pat : Text) : Text → Option Nat
  | [] => if pat.isEmpty then some 0 else none
  | c :: cs =>
    match rfindSub pat cs with
    | some k => some (k + c.utf8Size)
    | none => if startsWith pat (c :: cs) then some 0 else none

/-- byte offset of the first char satisfying `p` (`str::find(|c| ..)`) -/
def findChar (p : Char → Bool) : Text → Option Nat
  | [] => none
  | c :: cs => if p c then some 0 else (findChar p cs).map (· + c.utf8Size)

/-- byte offset of the last char satisfying `p` (`str::rfind(char)`) -/
def rfindChar (p : Char → Bool) : Text → Option Nat
  | [] => none
  | c :: cs =>
    match rfindChar p cs with
    | some k => some (k + c.utf8Size)
    | none => if p c then some 0 else none

/-- `str::replacen(pat, rep, 1)` -/
def replaceFirst (pat rep : Text) : Text → Text
  | [] => []
  | c :: cs =>
    match stripPrefix pat (c :: cs) with
    | some rest => rep ++ rest
    | none => c :: replaceFirst pat rep cs

def asciiLower (c : Char) : Char := if 'A' ≤ c ∧ c ≤ 'Z' then Char.ofNat (c.toNat + 32) else c
/-- ASCII lower-casing; for the values the code compares against ("asc", "desc", "numeric", ...)
    it agrees with `str::to_lowercase` on every string that lower-cases to one of them except for
    the Kelvin sign / dotted I cases, which the harness enumerates. -/
def lower (t : Text) : Text := t.map asciiLower

def isDigit (c : Char) : Bool := '0' ≤ c && c ≤ '9'

/-- value of a run of ASCII digits -/
def digitsVal (t : Text) : Nat := t.foldl (fun acc c => acc * 10 + (c.toNat - 48)) 0

/-- `usize::from_str`: optional `+`, then one or more ASCII digits, value below 2^64 -/
def parseUsize (t : Text) : Option Nat :=
  let r := match t with
    | '+' :: r => r
    | r => r
  if r.isEmpty || !r.all isDigit then none
  else
    let v := digitsVal r
    if v < 2 ^ 64 then some v else none

/-- (1-based line, 1-based byte column) of byte offset `off` in `t`, the way tree-sitter counts:
    rows are separated by `\n` only. -/
def posOfAux : Nat → Nat → Nat → Text → Nat × Nat
  | 0, line, col, _ => (line, col)
  | _ + 1, line, col, [] => (line, col)
  | n + 1, line, col, c :: cs =>
    if c = '\n' then posOfAux (n + 1 - c.utf8Size) (line + 1) 1 cs
    else posOfAux (n + 1 - c.utf8Size) line (col + c.utf8Size) cs

def posOf (t : Text) (off : Nat) : Nat × Nat := posOfAux off 1 1 t

def zipIdx {α} (l : List α) : List (Nat × α) := (List.range l.length).zip l

/-- `str::split(sep)` -/
def splitOn (sep : Char) : Text → List Text
  | [] => [[]]
  | c :: cs =>
    if c = sep then [] :: splitOn sep cs
    else match splitOn sep cs with
      | [] => [[c]]
      | l :: ls => (c :: l) :: ls

/-- `PathBuf` equality is by components: repeated `/` and `.` components (not the first) collapse,
    a trailing `/` is ignored -/
def pathComponents (p : Text) : List Text :=
  let parts := splitOn '/' p
  let root : List Text := if startsWith ['/'] p then [['/']] else []
  let comps := (zipIdx parts).filterMap (fun (i, c) =>
    if c.isEmpty then none
    else if c = ['.'] && (i > 0) then none
    else some c)
  root ++ comps

def pathEq (a b : Text) : Bool := pathComponents a = pathComponents b

end Bw
