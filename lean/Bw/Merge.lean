import Bw.Pipeline
/-! Model of the per-file merge of validator results in `src/validators/mod.rs` (`run_sync_validators`,
    `run_async_validators`, `run`) and of `process_violations` in `src/main.rs`.

    A validator returns a `HashMap<PathBuf, Vec<Violation>>`; the results are merged with
    `violations.entry(file_path).or_insert_with(Vec::new).extend(file_violations)`. A map is an association list with
    distinct keys (the order of the entries is the hash map's iteration order: arbitrary). -/
namespace Bw.Merge
open Bw Bw.Pipe Bw.Val

abbrev FileMap := List (Text × List Diag)

/-- `map.entry(k).or_insert_with(Vec::new).extend(vs)` -/
def mergeEntry : FileMap → Text × List Diag → FileMap
  | [], e => [e]
  | (k, vs) :: rest, e => if k = e.1 then (k, vs ++ e.2) :: rest else (k, vs) :: mergeEntry rest e

/-- `for (file_path, file_violations) in file_violations { … }` -/
def mergeMap (acc m : FileMap) : FileMap := m.foldl mergeEntry acc

/-- the `for handle in handles` / `while let Some(result) = tasks.join_next()` loop over the validators' maps -/
def mergeAll (ms : List FileMap) : FileMap := ms.foldl mergeMap []

/-- the violations recorded for a file (`[]` when the file has no entry) -/
def held (m : FileMap) (k : Text) : List Diag :=
  match m.find? (fun e => e.1 = k) with
  | some e => e.2
  | none => []

def keys (m : FileMap) : List Text := m.map (·.1)

/-- all violations of a map, tagged with their file -/
def tagged (m : FileMap) : List (Text × Diag) := (m.map (fun e => e.2.map (fun d => (e.1, d)))).flatten

/-- `run`: the sync validators' maps are merged, the async validators' maps are merged, then the async result is
    merged into the sync result -/
def runMerge (syncMaps asyncMaps : List FileMap) : FileMap :=
  if asyncMaps.isEmpty then mergeAll syncMaps else mergeMap (mergeAll syncMaps) (mergeAll asyncMaps)

/-- `process_violations`: exit 1 iff some violation of some file has severity error -/
def hasErrorSeverity (m : FileMap) : Bool := m.any (fun e => e.2.any (fun d => d.severity = 1))

/-- the map one validator returns: `violations.entry(file).or_default().push(violation)` for every violation it finds, in
    the order it finds them (a file without violations gets no entry) -/
def validatorMap (rs : List (Text × Except ErrKind (List Diag))) : FileMap :=
  ((resultDiags rs).map (fun p => (p.1, [p.2]))).foldl mergeEntry []

def isAsync (v : String) : Bool := v == "check-ai" || v == "check-lua"

/-- `run` as the code computes it: per-validator maps, merged per file -/
def runMerged (re : Regex) (oracle : AsyncOracle) (ctx : List FileCtx) (enabled disabled : List String) : FileMap :=
  let det := detected ctx enabled disabled
  runMerge ((det.filter (fun v => !isAsync v)).map (fun v => validatorMap (validatorResults re oracle ctx v)))
           ((det.filter isAsync).map (fun v => validatorMap (validatorResults re oracle ctx v)))

/-- exit status of `main` after `process_violations` -/
def exitMerged (m : FileMap) : Nat := if hasErrorSeverity m then 1 else 0

/-- `main`: `if !violations.is_empty() { process_violations(..) }` - something is printed iff the map has an entry -/
def printsReport (m : FileMap) : Bool := !m.isEmpty

end Bw.Merge
