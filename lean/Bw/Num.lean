import Bw.Text
/-! Exact-decimal model of `f64::from_str` + `f64::total_cmp` as used by `keep-sorted-format="numeric"`.
    Agrees with IEEE doubles on `F64Exact` inputs (≤ 15 significant digits, moderate exponents). -/
namespace Bw.Num

inductive Num where
  | fin (neg : Bool) (m : Nat) (e : Int)
  | inf (neg : Bool)
  | nan (neg : Bool)
deriving Repr, DecidableEq

def spanP (p : Char → Bool) : Text → Text × Text
  | [] => ([], [])
  | c :: cs => if p c then let (a, b) := spanP p cs; (c :: a, b) else ([], c :: cs)

/-- `f64::from_str`: [+-]? (inf|infinity|nan | digits [. digits*] | . digits+) ([eE][+-]?digits+)? -/
def parseNum (t : Text) : Option Num :=
  let (neg, r) := match t with
    | '-' :: r => (true, r)
    | '+' :: r => (false, r)
    | r => (false, r)
  let lw := lower r
  if lw = "inf".toList || lw = "infinity".toList then some (.inf neg)
  else if lw = "nan".toList then some (.nan neg)
  else
    let (ip, r1) := spanP isDigit r
    let (fp, r2) := match r1 with
      | '.' :: r' => spanP isDigit r'
      | _ => ([], r1)
    if ip.isEmpty && fp.isEmpty then none else
    let mant := digitsVal (ip ++ fp)
    let e0 : Int := - (fp.length : Int)
    match r2 with
    | [] => some (.fin neg mant e0)
    | c :: r3 =>
      if c = 'e' || c = 'E' then
        let (eneg, r4) := match r3 with
          | '-' :: r => (true, r)
          | '+' :: r => (false, r)
          | r => (false, r)
        let (ed, r5) := spanP isDigit r4
        if ed.isEmpty || !r5.isEmpty then none
        else
          let ev : Int := digitsVal ed
          some (.fin neg mant (e0 + (if eneg then -ev else ev)))
      else none

def cmpNat (a b : Nat) : Ordering := if a < b then .lt else if b < a then .gt else .eq

/-- magnitude comparison of m₁·10^e₁ and m₂·10^e₂ -/
def magCmp (m₁ : Nat) (e₁ : Int) (m₂ : Nat) (e₂ : Int) : Ordering :=
  let e := min e₁ e₂
  cmpNat (m₁ * 10 ^ (e₁ - e).toNat) (m₂ * 10 ^ (e₂ - e).toNat)

/-- rank for `f64::total_cmp`: -nan < -inf < negative finite (incl. -0) < non-negative finite < +inf < +nan -/
def cls : Num → Nat
  | .nan true => 0 | .inf true => 1 | .fin true _ _ => 2 | .fin false _ _ => 3 | .inf false => 4 | .nan false => 5

def totalCmp (a b : Num) : Ordering :=
  if cls a ≠ cls b then cmpNat (cls a) (cls b) else
  match a, b with
  | .fin true m₁ e₁, .fin true m₂ e₂ => magCmp m₂ e₂ m₁ e₁
  | .fin false m₁ e₁, .fin false m₂ e₂ => magCmp m₁ e₁ m₂ e₂
  | _, _ => .eq

end Bw.Num
