import Bw.Tag
import Bw.Comment
/-! Model of `src/block_parser.rs`: comments → tags → stack pairing → blocks with positions. -/
namespace Bw.Blocks
open Bw.Tag

structure Pos where
  line : Nat
  col : Nat
deriving Repr, DecidableEq, Inhabited

def Pos.lt (a b : Pos) : Bool := a.line < b.line || (a.line == b.line && a.col < b.col)
def Pos.le (a b : Pos) : Bool := !b.lt a

/-- `language_parsers::Comment` -/
structure Comment where
  posStart : Pos
  posEnd : Pos
  srcStart : Nat
  srcEnd : Nat
  text : Text
deriving Repr, DecidableEq, Inhabited

/-- `blocks::Block` -/
structure Block where
  attrs : List (Text × Text)
  tagStart : Pos
  tagEnd : Pos
  cStart : Nat
  cEnd : Nat
  cPosStart : Pos
  cPosEnd : Pos
deriving Repr, DecidableEq

inductive Err where
  | unexpectedClose (line : Nat)
  | unclosed (line : Nat)
deriving Repr, DecidableEq

/-- `BlockStart::source_position_at` -/
def sourcePositionAt (p : Nat) (c : Comment) : Pos :=
  let line := c.posStart.line + (lines (takeBytes (p + 1) c.text)).length - 1
  if line = c.posStart.line then ⟨line, c.posStart.col + p⟩
  else ⟨line, p - ((rfindChar (· = '\n') (takeBytes p c.text)).getD 0)⟩

/-- an open start tag waiting on the stack -/
structure Open where
  comment : Comment
  idx : Nat            -- index of the comment (stands for `Rc::ptr_eq`)
  attrs : List (Text × Text)
  tagStart : Pos
  tagEnd : Pos
deriving Repr, DecidableEq

/-- the event stream produced by `PartialBlocksIterator`: tags of all comments in order -/
inductive Ev where
  | start (o : Open)
  | stop (c : Comment) (idx : Nat) (s : Nat)
deriving Repr

def eventsOf (cfg : Cfg) (idx : Nat) (c : Comment) : List Ev :=
  (scanAll cfg c.text).map fun
    | .start s e attrs => .start ⟨c, idx, attrs, sourcePositionAt s c, sourcePositionAt (e - 1) c⟩
    | .stop s _ => .stop c idx s

def events (cfg : Cfg) (cs : List Comment) : List Ev :=
  ((zipIdx cs).map (fun (i, c) => eventsOf cfg i c)).flatten

/-- `BlockEnd::into_block` -/
def intoBlock (o : Open) (c : Comment) (idx : Nat) : Block :=
  let (s, e) := if idx ≠ o.idx then (o.comment.srcEnd, c.srcStart) else (0, 0)
  { attrs := o.attrs, tagStart := o.tagStart, tagEnd := o.tagEnd,
    cStart := s, cEnd := e, cPosStart := o.comment.posEnd, cPosEnd := c.posStart }

/-- the stack loop of `parse_blocks_from_comments` (blocks in closing order) -/
def pair : List Ev → List Open → List Block → Except Err (List Block)
  | [], [], acc => .ok acc
  | [], o :: _, _ => .error (.unclosed o.comment.posStart.line)
  | .start o :: w, st, acc => pair w (o :: st) acc
  | .stop c idx _ :: w, o :: st, acc => pair w st (acc ++ [intoBlock o c idx])
  | .stop c _ _ :: _, [], _ => .error (.unexpectedClose c.posStart.line)

/-- stable insertion sort by start-tag position (`sort_by` is stable) -/
def insertBlock (b : Block) : List Block → List Block
  | [] => [b]
  | x :: xs => if b.tagStart.lt x.tagStart then b :: x :: xs else x :: insertBlock b xs

def sortBlocks (bs : List Block) : List Block := bs.foldl (fun acc b => insertBlock b acc) []

/-- `parse_blocks_from_comments` -/
def parseBlocksFromComments (cfg : Cfg) (cs : List Comment) : Except Err (List Block) :=
  (pair (events cfg cs) [] []).map sortBlocks

/-- `itertools::merge` of two sorted block lists (Markdown: link-definition and HTML families) -/
def mergeBlocks : Nat → List Block → List Block → List Block
  | 0, a, b => a ++ b
  | _ + 1, [], b => b
  | _ + 1, a, [] => a
  | n + 1, x :: xs, y :: ys =>
    if y.tagStart.lt x.tagStart then y :: mergeBlocks n (x :: xs) ys else x :: mergeBlocks n xs (y :: ys)

end Bw.Blocks
