import Bw.Diff
import Bw.Validators
import Bw.Lookup
import Bw.Gen.Detectors
import Bw.Gen.Misc
/-! Model of `parse_file` / `parse_blocks` (`src/blocks.rs`), `detect_validators` / `run`
    (`src/validators/mod.rs`) and the exit status of `main`. -/
namespace Bw.Pipe
open Bw.Blocks Bw.Diff Bw.Val Bw.Tag

/-- a tree-sitter node of a kind the grammar's closure looks at -/
structure Node where
  s : Nat
  e : Nat
  kind : String
deriving Repr, DecidableEq

structure BlockCtx where
  block : Block
  tagMod : Bool
  contentMod : Bool
deriving Repr, DecidableEq

structure FileCtx where
  path : Text
  text : Text
  blocks : List BlockCtx
deriving Repr, DecidableEq

inductive PErr where
  | blocks (e : Blocks.Err)
  | fault (site : String)
  | read
deriving Repr, DecidableEq

/-- one node → at most one `Comment` (`CommentsIterator::comment_from_current_node`) -/
def commentStep (parser : String) (text : Text) (acc : List Comment) (n : Node) : Except PErr (List Comment) :=
  match Comment.normalise parser n.kind (sliceBytes n.s n.e text) with
  | .error site => .error (.fault site)
  | .ok none => .ok acc
  | .ok (some t) =>
    let (sl, sc) := posOf text n.s
    let (el, ec) := posOf text n.e
    .ok (acc ++ [⟨⟨sl, sc⟩, ⟨el, ec⟩, n.s, n.e, t⟩])

/-- comment nodes → `Comment`s, in document order -/
def commentsOf (parser : String) (text : Text) (nodes : List Node) : Except PErr (List Comment) :=
  nodes.foldlM (commentStep parser text) []

/-- `BlocksParser::parse` for one grammar; Markdown pairs its two comment families separately -/
def blocksOf (cfg : Cfg) (parser : String) (text : Text) (nodes : List Node) : Except PErr (List Block) :=
  let one (ns : List Node) : Except PErr (List Block) :=
    match commentsOf parser text ns with
    | .error e => .error e
    | .ok cs => match parseBlocksFromComments cfg cs with
      | .error e => .error (.blocks e)
      | .ok bs => .ok bs
  if parser = "markdown_parser" then
    match one (nodes.filter (·.kind != "md_html_comment")) with
    | .error e => .error e
    | .ok md => match one (nodes.filter (·.kind == "md_html_comment")) with
      | .error e => .error e
      | .ok html => .ok (mergeBlocks (md.length + html.length + 1) md html)
  else one nodes

/-- the `filter_map` of `parse_file`: `All` keeps every block, `ModifiedOnly` those whose start tag or
    content intersects a change; both flags are recorded -/
def selectBlocks (bs : List Block) (changes : List LC) (all : Bool) : List BlockCtx :=
  bs.filterMap (fun b =>
    let cm := contentModified b changes
    let tm := tagModified b changes
    if all || cm || tm then some ⟨b, tm, cm⟩ else none)

/-- `parse_file`: `none` = no grammar for this name -/
def parseFile (cfg : Cfg) (extra : List (Text × Text)) (path : Text) (text : Option Text) (nodes : List Node)
    (changes : List LC) (all : Bool) : Except PErr (Option FileCtx) :=
  match Lookup.lookup extra path with
  | none => .ok none
  | some parser =>
    match text with
    | none => .error .read
    | some text =>
      match blocksOf cfg parser text nodes with
      | .error e => .error e
      | .ok bs =>
        .ok (some ⟨path, text, selectBlocks bs changes all⟩)

/-- the file system and path checker as seen by `parse_blocks` -/
structure World where
  walk : List Text
  allow : Text → Bool
  ignore : Text → Bool
  read : Text → Option Text
  nodes : Text → List Node

/-- first loop of `parse_blocks`: walked files that are allowed and not ignored (only when scanning) -/
def walkedFiles (w : World) (scan : Bool) : List Text :=
  if scan then w.walk.filter (fun p => w.allow p && !w.ignore p) else []

/-- second loop: the diff's files that were not taken by the first loop and are not ignored -/
def restChanges (w : World) (changes : List (Text × List LC)) (scan : Bool) : List (Text × List LC) :=
  changes.filter (fun c => !(walkedFiles w scan).any (pathEq c.1) && !w.ignore c.1)

/-- the files `parse_blocks` examines, with their change lists and filters:
    walked ∩ allowed ∖ ignored (all blocks), then the remaining diff files ∖ ignored (modified only) -/
def scope (w : World) (changes : List (Text × List LC)) (scan : Bool) : List (Text × List LC × Bool) :=
  (walkedFiles w scan).map (fun p => (p, ((changes.find? (fun c => pathEq c.1 p)).map (·.2)).getD [], true)) ++
  (restChanges w changes scan).map (fun c => (c.1, c.2, false))

/-- `parse_blocks`: per-file results; files without blocks are dropped; any error aborts -/
def parseBlocks (cfg : Cfg) (extra : List (Text × Text)) (w : World) (changes : List (Text × List LC)) (scan : Bool) :
    List (Text × Except PErr (Option FileCtx)) :=
  (scope w changes scan).map (fun (p, cs, all) => (p, parseFile cfg extra p (w.read p) (w.nodes p) cs all))

/-- the files that failed, with their errors -/
def errorsOf (rs : List (Text × Except PErr (Option FileCtx))) : List (Text × PErr) :=
  rs.filterMap (fun r => match r.2 with | .error e => some (r.1, e) | .ok _ => none)

/-- the files that contribute blocks (files without a grammar or without blocks are dropped) -/
def okFiles (rs : List (Text × Except PErr (Option FileCtx))) : List FileCtx :=
  rs.filterMap (fun r => match r.2 with | .ok (some f) => if f.blocks.isEmpty then none else some f | _ => none)

def contextOf (rs : List (Text × Except PErr (Option FileCtx))) : Except (List (Text × PErr)) (List FileCtx) :=
  if (errorsOf rs).isEmpty then .ok (okFiles rs) else .error (errorsOf rs)

/-! ### validators over a context -/

/-- `block_content` of check-lua / check-ai: the trimmed content, or with `<rule>-pattern` the `value`
    group (else the whole match) of the first match in the whole content, empty when nothing matches;
    an uncompilable pattern is an error -/
def blockContent (re : Regex) (file : Text) (b : Block) (patternAttr : String) (e : ErrKind) : Except ErrKind Text :=
  match attrGet b.attrs patternAttr.toList with
  | some p =>
    if !re.compiles p then .error e
    else match re.captures p (content file b) with
      | some lm => let (s, t) := lm.value.getD lm.whole; .ok (sliceBytes s t (content file b))
      | none => .ok []
  | none => .ok (trim (content file b))

/-- what a script / the endpoint did with one block -/
inductive AsyncOut where
  | pass                          -- nil / "OK"
  | message (data : List (String × Text))
  | echo                          -- the script returns its arguments (serialised by `luaEcho`)
  | reply (r : Text)              -- the endpoint's reply text, classified by `isOkReply`
  | fail (e : ErrKind)
deriving Repr

/-- outcome oracle for the asynchronous validators (the Lua interpreter / the HTTP endpoint) -/
abbrev AsyncOracle := String → Text → Block → AsyncOut

def insertAttr (a : Text × Text) : List (Text × Text) → List (Text × Text)
  | [] => [a]
  | x :: xs => if lexCmp a.1 x.1 = .lt then a :: x :: xs else x :: insertAttr a xs

/-- attributes as the script sees them: one entry per name (last duplicate wins), sorted by name -/
def attrsSorted (attrs : List (Text × Text)) : List (Text × Text) :=
  ((attrs.map (·.1)).eraseDups.map (fun k => (k, (attrGet attrs k).getD []))).foldl (fun acc a => insertAttr a acc) []

/-- `message.eq_ignore_ascii_case("OK") || message.eq_ignore_ascii_case("OK.")` over the regenerated literals -/
def isOkReply (r : Text) : Bool := Gen.aiOkReplies.any (fun k => lower k.toList = lower r)

/-- split the `format!` frame of the user message at its two placeholders -/
def splitAt (pat : Text) : Text → Option (Text × Text)
  | [] => if pat.isEmpty then some ([], []) else none
  | c :: cs =>
    match stripPrefix pat (c :: cs) with
    | some rest => some ([], rest)
    | none => (splitAt pat cs).map (fun (a, b) => (c :: a, b))

/-- the user message of the chat-completion request -/
def aiUserMessage (condition content : Text) : Text :=
  match splitAt "{condition}".toList Gen.aiUserFrame.toList with
  | none => Gen.aiUserFrame.toList
  | some (pre, rest) =>
    match splitAt "{block_content}".toList rest with
    | none => pre ++ condition ++ rest
    | some (mid, post) => pre ++ condition ++ mid ++ content ++ post

def sep1 : Char := Char.ofNat 31
def sep2 : Char := Char.ofNat 30

/-- the echo script's rendering of `validate(ctx, content)`'s arguments -/
def luaEcho (path : Text) (line : Nat) (attrs : List (Text × Text)) (content : Text) : Text :=
  "file=".toList ++ path ++ [sep1] ++ "line=".toList ++ natText line ++ [sep1] ++ "attrs=".toList ++
  ((attrsSorted attrs).map (fun (k, v) => k ++ ['='] ++ v ++ [sep2])).flatten ++ [sep1] ++ "content=".toList ++ content

/-- `ValidatorDetector::detect` -/
def needs (v : String) (b : BlockCtx) : Bool :=
  match v with
  | "affects" => b.contentMod && (attrGet b.block.attrs "affects".toList).isSome
  | other => (attrGet b.block.attrs other.toList).isSome

/-- one validator on one block: `none` = nothing to do / passes -/
def checkBlock (re : Regex) (oracle : AsyncOracle) (v : String) (f : FileCtx) (b : BlockCtx) : Except ErrKind (Option Diag) :=
  match v, attrGet b.block.attrs v.toList with
  | _, none => .ok none
  | "keep-sorted", some a => keepSorted re f.text b.block a
  | "keep-unique", some a => keepUnique re f.text b.block a
  | "line-pattern", some a => linePattern re f.text b.block a
  | "line-count", some a => lineCount f.text b.block a
  | "check-lua", some a =>
    if (trim a).isEmpty then .error .emptyLuaPath else
    match blockContent re f.text b.block "check-lua-pattern" .luaError with
    | .error e => .error e
    | .ok c =>
      let finish (data : List (String × Text)) : Except ErrKind (Option Diag) :=
        match severityOf b.block.attrs with
        | .error e => .error e
        | .ok sev => .ok (some (tagDiag "check-lua" b.block sev data))
      match oracle "check-lua" f.path b.block with
      | .fail e => .error e
      | .pass => .ok none
      | .message data => finish data
      | .echo => finish [("script", a), ("lua_error", luaEcho f.path b.block.tagStart.line b.block.attrs c)]
      | .reply _ => .error .oracleMiss
  | "check-ai", some a =>
    if (trim a).isEmpty then .error .emptyAiCondition else
    match blockContent re f.text b.block "check-ai-pattern" .aiError with
    | .error e => .error e
    | .ok _ =>
      let finish (data : List (String × Text)) : Except ErrKind (Option Diag) :=
        match severityOf b.block.attrs with
        | .error e => .error e
        | .ok sev => .ok (some (tagDiag "check-ai" b.block sev data))
      match oracle "check-ai" f.path b.block with
      | .fail e => .error e
      | .pass => .ok none
      | .echo => .error .oracleMiss
      | .message data => finish data
      | .reply r => if isOkReply r then .ok none else finish [("condition", trim a), ("ai_message", r)]
  | _, _ => .ok none

/-- `named_modified_blocks.contains_key(&(file, name))`: some block of that file with that name has modified content -/
def hasModified (ctx : List FileCtx) (target name : Text) : Bool :=
  ctx.any (fun g => pathEq g.path target &&
    g.blocks.any (fun c => c.contentMod && attrGet c.block.attrs "name".toList = some name))

/-- one diagnostic per missing reference, in order; `create_violation` needs the block's severity, so an
    unknown severity is an error as soon as one reference is missing -/
def affectsDiags (path : Text) (b : Block) (missing : List (Option Text × Text)) : Except ErrKind (List Diag) :=
  match severityOf b.attrs with
  | .error e => if missing.isEmpty then .ok [] else .error e
  | .ok sev => .ok (missing.map (fun (fp, name) =>
      tagDiag "affects" b sev [("affected_block_file_path", fp.getD path), ("affected_block_name", name)]))

/-- `AffectsValidator::validate`: one diagnostic per reference without a modified block of that name -/
def affectsFile (ctx : List FileCtx) (f : FileCtx) : List (Except ErrKind (List Diag)) :=
  f.blocks.map (fun b =>
    if !b.contentMod then .ok [] else
    match attrGet b.block.attrs "affects".toList with
    | none => .ok []
    | some a =>
      match parseAffects a with
      | .error e => .error e
      | .ok refs =>
        let missing := refs.filter (fun (fp, name) => !hasModified ctx (fp.getD f.path) name)
        affectsDiags f.path b.block missing)

/-- the user messages of the requests check-ai sends: one per block with a non-blank condition whose
    content selection succeeds -/
def aiRequests (re : Regex) (ctx : List FileCtx) : List Text :=
  (ctx.map (fun f => f.blocks.filterMap (fun b =>
    match attrGet b.block.attrs "check-ai".toList with
    | none => none
    | some a =>
      if (trim a).isEmpty then none else
      match blockContent re f.text b.block "check-ai-pattern" .aiError with
      | .error _ => none
      | .ok c => some (aiUserMessage a c)))).flatten

/-- all per-block outcomes of one validator, tagged with the file -/
def validatorResults (re : Regex) (oracle : AsyncOracle) (ctx : List FileCtx) (v : String) :
    List (Text × Except ErrKind (List Diag)) :=
  if v = "affects" then
    (ctx.map (fun f => (affectsFile ctx f).map (fun r => (f.path, r)))).flatten
  else
    (ctx.map (fun f => f.blocks.map (fun b =>
      (f.path, (checkBlock re oracle v f b).map (fun o => o.toList))))).flatten

/-- `detect_validators`, result as a set: the chosen validators some block needs -/
def chosen (enabled disabled : List String) : List String :=
  Gen.detectorNames.filter (fun v => if !enabled.isEmpty then enabled.contains v else !disabled.contains v)

def detected (ctx : List FileCtx) (enabled disabled : List String) : List String :=
  (chosen enabled disabled).filter (fun v => ctx.any (fun f => f.blocks.any (needs v)))

/-- outcome of `run`: all diagnostics (as a multiset; file-tagged), or the set of errors any of which
    may surface first (depends on hash-map and completion order) -/
inductive RunOut where
  | ok (diags : List (Text × Diag))
  | err (kinds : List ErrKind)
deriving Repr

/-- every per-block outcome of every detected validator, tagged with the file -/
def runResults (re : Regex) (oracle : AsyncOracle) (ctx : List FileCtx) (enabled disabled : List String) :
    List (Text × Except ErrKind (List Diag)) :=
  ((detected ctx enabled disabled).map (validatorResults re oracle ctx)).flatten

def resultErrors (rs : List (Text × Except ErrKind (List Diag))) : List ErrKind :=
  rs.filterMap (fun r => match r.2 with | .error e => some e | .ok _ => none)

def resultDiags (rs : List (Text × Except ErrKind (List Diag))) : List (Text × Diag) :=
  (rs.map (fun r => match r.2 with | .ok ds => ds.map (fun d => (r.1, d)) | .error _ => [])).flatten

def run (re : Regex) (oracle : AsyncOracle) (ctx : List FileCtx) (enabled disabled : List String) : RunOut :=
  let rs := runResults re oracle ctx enabled disabled
  if (resultErrors rs).isEmpty then .ok (resultDiags rs) else .err (resultErrors rs).eraseDups

/-- exit status of `main` after `run` -/
def exitCode : RunOut → Nat
  | .err _ => 1
  | .ok ds => if ds.any (fun d => d.2.severity = 1) then 1 else 0

end Bw.Pipe
