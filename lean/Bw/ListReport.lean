import Bw.Pipeline
/-! Model of `FileBlocks::to_serializable_report` / `ValidationContext::to_serializable_report` (`blockwatch list`). -/
namespace Bw.ListReport
open Bw Bw.Pipe Bw.Blocks Bw.Diff

structure Entry where
  name : Text
  line : Nat
  column : Nat
  contentModified : Bool
  attrs : List (Text × Text)
deriving Repr, DecidableEq

/-- `Block::name_display` -/
def nameDisplay (attrs : List (Text × Text)) : Text := (Tag.attrGet attrs "name".toList).getD "(unnamed)".toList

def entryOf (b : BlockCtx) : Entry :=
  ⟨nameDisplay b.block.attrs, b.block.tagStart.line, b.block.tagStart.col, b.contentMod, b.block.attrs⟩

/-- one step of a stable sort by line: `e` goes before the first entry whose line is not smaller -/
def insertByLine (e : Entry) : List Entry → List Entry
  | [] => [e]
  | x :: xs => if e.line ≤ x.line then e :: x :: xs else x :: insertByLine e xs

/-- `listings.sort_by_key(|b| b["line"])` - `sort_by_key` is a stable sort -/
def sortByLine : List Entry → List Entry
  | [] => []
  | e :: es => insertByLine e (sortByLine es)

/-- the listing of one file -/
def fileReport (f : FileCtx) : List Entry := sortByLine (f.blocks.map entryOf)

/-- `blockwatch list`: one key per file of the context (files without selected blocks are not in the context) -/
def report (ctx : List FileCtx) : List (Text × List Entry) := ctx.map (fun f => (f.path, fileReport f))

end Bw.ListReport
