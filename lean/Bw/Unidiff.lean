import Bw.Text
/-! Model of `unidiff 0.4` `PatchSet::parse` as used by blockwatch (a specification to compare against;
    the crate itself is a dependency). Hunk-header numbers are ASCII digits (what git writes). -/
namespace Bw.Unidiff

inductive Kind where
  | add | rem | ctx | other
deriving Repr, DecidableEq

structure Line where
  kind : Kind
  value : Text
  srcNo : Option Nat
  tgtNo : Option Nat
deriving Repr, DecidableEq

structure Hunk where
  srcStart : Nat
  srcLen : Nat
  tgtStart : Nat
  tgtLen : Nat
  lines : List Line
deriving Repr, DecidableEq

structure File where
  source : Text
  target : Text
  hunks : List Hunk
deriving Repr, DecidableEq

inductive Err where
  | targetWithoutSource
  | unexpectedHunk
deriving Repr, DecidableEq

/-- `^--- (?P<filename>[^\t\n]+)` resp. `^\+\+\+ …`: the file name is the maximal run without a tab -/
def headerName (pre : Text) (line : Text) : Option Text :=
  match stripPrefix pre line with
  | none => none
  | some r =>
    let name := r.takeWhile (· != '\t')
    if name.isEmpty then none else some name

def takeDigits (t : Text) : Text × Text := (t.takeWhile isDigit, t.dropWhile isDigit)

/-- `\d+(?:,\d+)?` → (start, length defaulting to 1, rest) -/
def rangeSpec (t : Text) : Option (Nat × Nat × Text) :=
  let (d, r) := takeDigits t
  if d.isEmpty then none else
  match r with
  | ',' :: r' =>
    let (d2, r2) := takeDigits r'
    if d2.isEmpty then some (digitsVal d, 1, r) else some (digitsVal d, digitsVal d2, r2)
  | _ => some (digitsVal d, 1, r)

/-- `^@@ -S(,L)? \+S(,L)? @@` -/
def hunkHeader (line : Text) : Option (Nat × Nat × Nat × Nat) :=
  match stripPrefix "@@ -".toList line with
  | none => none
  | some r =>
    match rangeSpec r with
    | none => none
    | some (ss, sl, r1) =>
      match stripPrefix " +".toList r1 with
      | none => none
      | some r2 =>
        match rangeSpec r2 with
        | none => none
        | some (ts, tl, r3) =>
          if startsWith " @@".toList r3 then some (ss, sl, ts, tl) else none

/-- body of one hunk: consume lines until both counters reach their expected ends -/
def hunkBody (srcEnd tgtEnd : Nat) : List Text → Nat → Nat → List Line
  | [], _, _ => []
  | l :: ls, s, t =>
    let (kind, value) : Kind × Text := match l with
      | '+' :: v => (.add, v)
      | '-' :: v => (.rem, v)
      | ' ' :: v => (.ctx, v)
      | '\\' :: v => (.other, v)
      | v => (.ctx, v)
    let (line, s', t') : Line × Nat × Nat := match kind with
      | .add => (⟨kind, value, none, some t⟩, s, t + 1)
      | .rem => (⟨kind, value, some s, none⟩, s + 1, t)
      | .ctx => (⟨kind, value, some s, some t⟩, s + 1, t + 1)
      | .other => (⟨kind, value, none, none⟩, s, t)
    if s' ≥ srcEnd ∧ t' ≥ tgtEnd then [line] else line :: hunkBody srcEnd tgtEnd ls s' t'

structure St where
  files : List File := []
  current : Option File := none
  source : Option Text := none

/-- the outer loop of `PatchSet::parse`; note that it inspects *every* line, hunk bodies included -/
def parseLoop : List Text → St → Except Err St
  | [], st => .ok st
  | l :: ls, st =>
    match headerName "--- ".toList l with
    | some name =>
      let files := match st.current with
        | some f => st.files ++ [f]
        | none => st.files
      parseLoop ls { files := files, current := none, source := some name }
    | none =>
      match headerName "+++ ".toList l with
      | some name =>
        if st.current.isSome then .error .targetWithoutSource
        else parseLoop ls { st with current := some ⟨st.source.getD [], name, []⟩ }
      | none =>
        match hunkHeader l with
        | some (ss, sl, ts, tl) =>
          match st.current with
          | none => .error .unexpectedHunk
          | some f =>
            let h : Hunk := ⟨ss, sl, ts, tl, hunkBody (ss + sl) (ts + tl) ls ss ts⟩
            parseLoop ls { st with current := some { f with hunks := f.hunks ++ [h] } }
        | none => parseLoop ls st

def parse (input : Text) : Except Err (List File) :=
  match parseLoop (lines input) {} with
  | .error e => .error e
  | .ok st => .ok (match st.current with | some f => st.files ++ [f] | none => st.files)

def File.isRemoved (f : File) : Bool :=
  match f.hunks with
  | [h] => h.tgtStart == 0 && h.tgtLen == 0
  | _ => false

end Bw.Unidiff
