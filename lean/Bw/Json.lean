import Lean.Data.Json
import Bw.Pipeline
import Bw.Gen.Alnum
/-! JSON (de)serialisation for the line-protocol driver. Only `Main` and this file use `String`. -/
namespace Bw.J
open Lean Bw Bw.Blocks Bw.Diff Bw.Val Bw.Pipe

def cfg : Tag.Cfg := ⟨fun c => Gen.isAlnum c || c = '-' || c = '_'⟩

def str? (j : Json) (k : String) : Option Text :=
  match j.getObjVal? k with
  | .ok (.str s) => some s.toList
  | _ => none

def strD (j : Json) (k : String) : Text := (str? j k).getD []

def arr (j : Json) (k : String) : List Json :=
  match j.getObjVal? k with
  | .ok (.arr a) => a.toList
  | _ => []

def nat? (j : Json) : Option Nat := j.getNat?.toOption

def natK (j : Json) (k : String) : Nat := ((j.getObjVal? k).toOption >>= nat?).getD 0

def boolK (j : Json) (k : String) (d : Bool) : Bool := (j.getObjValAs? Bool k).toOption.getD d

def strList (j : Json) (k : String) : List String :=
  (arr j k).filterMap (fun x => match x with | .str s => some s | _ => none)

def pair? (j : Json) : Option (Nat × Nat) :=
  match j with
  | .arr a => match a.toList with
    | [x, y] => match nat? x, nat? y with
      | some a, some b => some (a, b)
      | _, _ => none
    | _ => none
  | _ => none

def lcOf (j : Json) : LC :=
  ⟨natK j "line", match j.getObjVal? "ranges" with
    | .ok (.arr rs) => some (rs.toList.filterMap pair?)
    | _ => none⟩

def opOf (j : Json) : Option Diff.Op :=
  match j with
  | .arr a => match a.toList with
    | [.str "equal", a, b, c] => do pure (.equal (← nat? a) (← nat? b) (← nat? c))
    | [.str "delete", a, b, c] => do pure (.delete (← nat? a) (← nat? b) (← nat? c))
    | [.str "insert", a, b, c] => do pure (.insert (← nat? a) (← nat? b) (← nat? c))
    | [.str "replace", a, b, c, d] => do pure (.replace (← nat? a) (← nat? b) (← nat? c) (← nat? d))
    | _ => none
  | _ => none

def nodeOf (j : Json) : Option Node :=
  match j with
  | .arr a => match a.toList with
    | [s, e, .str k] => do pure ⟨← nat? s, ← nat? e, k⟩
    | _ => none
  | _ => none

def tj (t : Text) : Json := Json.str (String.ofList t)

def attrsJson (attrs : List (Text × Text)) : Json :=
  -- last duplicate wins, keys sorted by the consumer
  Json.mkObj ((attrs.map (·.1)).eraseDups.map (fun k => (String.ofList k, tj ((Tag.attrGet attrs k).getD []))))

def posJ (p : Pos) : List Json := [p.line, p.col]

def blockJson (b : Block) : Json :=
  Json.mkObj [("attrs", attrsJson b.attrs),
    ("tag", Json.arr (posJ b.tagStart ++ posJ b.tagEnd).toArray),
    ("cbytes", Json.arr #[b.cStart, b.cEnd]),
    ("cpos", Json.arr (posJ b.cPosStart ++ posJ b.cPosEnd).toArray)]

def blockCtxJson (b : BlockCtx) : Json :=
  (blockJson b.block).mergeObj (Json.mkObj [("tag_modified", b.tagMod), ("content_modified", b.contentMod)])

def diagJson (file : Text) (d : Diag) : Json :=
  Json.mkObj [("file", tj file), ("code", d.code),
    ("range", Json.arr #[d.sLine, d.sCol, d.eLine, d.eCol]), ("severity", d.severity),
    ("data", Json.mkObj (d.data.map (fun (k, v) => (k, tj v))))]

def errKindStr (e : ErrKind) : String :=
  match e with
  | .badDirection => "bad-direction" | .badFormat => "bad-format" | .badRegex => "bad-regex"
  | .notANumber => "not-a-number" | .badConstraint => "bad-constraint" | .badAffects => "bad-affects"
  | .badSeverity => "bad-severity" | .emptyLuaPath => "empty-lua-path" | .emptyAiCondition => "empty-ai-condition"
  | .luaError => "lua-error" | .aiError => "ai-error" | .oracleMiss => "oracle-miss"

def errKindOf (s : String) : ErrKind :=
  match s with
  | "lua-error" => .luaError | "ai-error" => .aiError | "bad-regex" => .badRegex | _ => .oracleMiss

def pErrJson (p : Text) (e : PErr) : Json :=
  match e with
  | .blocks (.unclosed l) => Json.mkObj [("file", tj p), ("kind", "unclosed"), ("line", l)]
  | .blocks (.unexpectedClose l) => Json.mkObj [("file", tj p), ("kind", "unexpected-close"), ("line", l)]
  | .fault site => Json.mkObj [("file", tj p), ("kind", "panic"), ("site", site)]
  | .read => Json.mkObj [("file", tj p), ("kind", "read")]

end Bw.J
