import Bw.Text
/-! `globset` 0.4 glob matching with default options, as blockwatch uses it for positional and `--ignore`
    globs (`Glob::new(g)` → `GlobSet::is_match(path)`): the token parser (`Parser::parse`, `parse_star`) and the
    anchored byte regex the tokens denote (`Tokens::to_regex_with`).

    Modelled fragment: globs made of literal characters, `?`, `*` and `**` (every combination and position).
    and `\c` escapes (the escaped character is a literal). Character classes `[..]`, alternates `{..}` and a dangling `\` at
    the end are outside the fragment (`parse` returns `none`).
    Matching is over UTF-8 bytes, as the `(?-u)` regex is: `?` consumes one byte. -/
namespace Bw.Glob

abbrev Bytes := List UInt8

def encode : Text → Bytes
  | [] => []
  | c :: cs => String.utf8EncodeChar c ++ encode cs

inductive Tok where
  | lit (b : UInt8)     -- `Literal(c)`, one token per UTF-8 byte
  | any                 -- `?`   regex `.`
  | star                -- `*`   regex `.*`  (crosses `/`: literal_separator is off)
  | recPrefix           -- `**/` at the start        regex `(?:/?|.*/)`
  | recSuffix           -- `/**` at the end          regex `/.*`
  | recZeroOrMore       -- `/**/` in the middle      regex `(?:/|/.*/)`
deriving Repr, DecidableEq

def slash : UInt8 := 47

/-- a character that the modelled fragment does not cover -/
def outside (c : Char) : Bool := c = '[' || c = '{' || c = '}' || c = '\\'

/-- the `match self.pop_token()?` of `parse_star` (tokens are kept in reverse) -/
def collapse (isSuffix : Bool) : List Tok → List Tok
  | .recPrefix :: ts => .recPrefix :: ts
  | .recSuffix :: ts => .recSuffix :: ts
  | _ :: ts => (if isSuffix then .recSuffix else .recZeroOrMore) :: ts
  | [] => []   -- unreachable: `have_tokens` held

/-- `Parser::parse` on the fragment; `ts` are the tokens so far (reversed), `prev` the previous character -/
def parseAux : List Tok → Option Char → Text → Option (List Tok)
  | ts, _, [] => some ts.reverse
  | ts, prev, ['*', '*'] =>
    if ts.isEmpty then some [.recPrefix]
    else if prev ≠ some '/' then some (.star :: .star :: ts).reverse
    else some (collapse true ts).reverse
  | ts, prev, '*' :: '*' :: '/' :: r =>
    if ts.isEmpty then parseAux [.recPrefix] (some '/') r
    else if prev ≠ some '/' then parseAux (.star :: .star :: ts) (some '*') ('/' :: r)
    else parseAux (collapse false ts) (some '/') r
  | ts, _, '*' :: '*' :: c :: r => parseAux (.star :: .star :: ts) (some '*') (c :: r)
  | ts, _, '*' :: rest => parseAux (.star :: ts) (some '*') rest
  | ts, _, '?' :: rest => parseAux (.any :: ts) (some '?') rest
  | ts, _, '\\' :: c :: rest =>
    -- `parse_backslash` (backslash_escape is on): the next character is a literal whatever it is; it is also the `prev`
    -- the following token sees. (A backslash at the very end is an error: outside the fragment, below.)
    parseAux ((String.utf8EncodeChar c).reverse.map .lit ++ ts) (some c) rest
  | ts, _, c :: rest =>
    if outside c then none else parseAux ((String.utf8EncodeChar c).reverse.map .lit ++ ts) (some c) rest

def parse (g : Text) : Option (List Tok) := parseAux [] none g

/-- `f` holds of some suffix (`.*` followed by the rest) -/
def anySuffix (f : Bytes → Bool) : Bytes → Bool
  | [] => f []
  | c :: cs => f (c :: cs) || anySuffix f cs

/-- `f` holds of some suffix that directly follows a `/` (`.*/` followed by the rest) -/
def afterSlash (f : Bytes → Bool) : Bytes → Bool
  | [] => false
  | c :: cs => (c == slash && f cs) || afterSlash f cs

/-- the anchored regex the tokens denote, as a backtracking matcher -/
def matchToks : List Tok → Bytes → Bool
  | [], p => p.isEmpty
  | .lit b :: ts, p => match p with
    | d :: ps => b == d && matchToks ts ps
    | [] => false
  | .any :: ts, p => match p with
    | _ :: ps => matchToks ts ps
    | [] => false
  | .star :: ts, p => anySuffix (matchToks ts) p
  | .recPrefix :: ts, p =>
    matchToks ts p || afterSlash (matchToks ts) p
  | .recSuffix :: ts, p => match p with
    | d :: ps => d == slash && anySuffix (matchToks ts) ps
    | [] => false
  | .recZeroOrMore :: ts, p => match p with
    | d :: ps => d == slash && (matchToks ts ps || afterSlash (matchToks ts) ps)
    | [] => false

/-- `to_regex_with`: a glob that is just `**` matches everything -/
def matchGlobToks (ts : List Tok) (p : Bytes) : Bool :=
  if ts = [.recPrefix] then true else matchToks ts p

/-- `Glob::new(g)?.is_match(path)`; `none`: outside the modelled fragment -/
def globMatch (g path : Text) : Option Bool := (parse g).map (fun ts => matchGlobToks ts (encode path))

/-- `GlobSet::is_match` -/
def anyMatch (gs : List Text) (path : Text) : Option Bool :=
  gs.foldr (fun g acc => match globMatch g path, acc with
    | some a, some b => some (a || b)
    | _, _ => none) (some false)

end Bw.Glob
