import Bw.Json
import Bw.Merge
import Bw.Flags
import Bw.TreeWalk
import Bw.ListReport
import Bw.MainFlow
import Bw.Glob
import Bw.Walk
import Bw.Lemmas.WalkSim
open Lean Bw Bw.J Bw.Blocks Bw.Diff Bw.Val Bw.Pipe

/-- regex oracle table: pattern ↦ (compiles, text ↦ captures) -/
def regexOf (j : Json) : Val.Regex × (IO.Ref Nat → Unit) :=
  let texts : List Text := (arr j "regex_texts").filterMap (fun t => match t with | .str s => some s.toList | _ => none)
  let cap (w : Json) : Option (Option LineMatch) :=
    match w with
    | .null => some none
    | .arr w => match w.toList with
      | [ws, we] => do pure (some ⟨(← nat? ws, ← nat? we), none⟩)
      | [ws, we, vs, ve] => do pure (some ⟨(← nat? ws, ← nat? we), some (← nat? vs, ← nat? ve)⟩)
      | _ => none
    | _ => none
  let entries : List (Text × Bool × List (Text × Option LineMatch)) := (arr j "regex").map (fun e =>
    (strD e "p", boolK e "ok" true,
      -- indexed form: outcomes aligned with `regex_texts`; legacy form: (text, outcome) pairs
      ((texts.zip (arr e "mi")).filterMap (fun (t, w) => (cap w).map (fun c => (t, c)))) ++
      (arr e "m").filterMap (fun m =>
        match m with
        | .arr a => match a.toList with
          | [.str t, w] => (cap w).map (fun c => (t.toList, c))
          | _ => none
        | _ => none)))
  ({ compiles := fun p => match entries.find? (fun e => e.1 = p) with
      | some e => e.2.1
      | none => true
     captures := fun p t => match entries.find? (fun e => e.1 = p) with
      | some e => match e.2.2.find? (fun m => m.1 = t) with
        | some m => m.2
        | none => none
      | none => none }, fun _ => ())

/-- does the regex table cover (pattern, text)? used to flag oracle misses -/
def regexCovers (j : Json) (p t : Text) : Bool :=
  (arr j "regex").any (fun e => strD e "p" = p && (!(boolK e "ok" true) ||
    (arr j "regex_texts").any (fun s => match s with | .str s => s.toList = t | _ => false) ||
    (arr e "m").any (fun m =>
      match m with
      | .arr a => match a.toList with
        | .str s :: _ => s.toList = t
        | _ => false
      | _ => false)))

def asyncOf (j : Json) : AsyncOracle := fun v path b =>
  -- outcome oracle entries are keyed by validator, file and the attribute's value (script path / condition)
  let arg := (Tag.attrGet b.attrs v.toList).getD []
  match (arr j "async").find? (fun e =>
      (e.getObjValAs? String "v").toOption = some v &&
      (match str? e "file" with | some p => p = path | none => true) && strD e "arg" = arg) with
  | none => .fail .oracleMiss
  | some e =>
    match e.getObjVal? "out" with
    | .ok .null => .pass
    | .ok o =>
      match o.getObjValAs? String "err" with
      | .ok k => .fail (errKindOf k)
      | .error _ =>
        if (o.getObjValAs? Bool "echo").toOption = some true then .echo else
        match o.getObjValAs? String "reply" with
        | .ok r => .reply r.toList
        | .error _ =>
        match o.getObjVal? "data" with
        | .ok (.obj kvs) => .message (kvs.toList.filterMap (fun (k, v) =>
            match v with | .str s => some (k, s.toList) | _ => none))
        | _ => .fail .oracleMiss
    | .error _ => .fail .oracleMiss

def opsDiff (j : Json) : Text → Text → List (Nat × Nat) := fun old new =>
  match (arr j "ops").find? (fun e => strD e "old" = old && strD e "new" = new) with
  | some e => lineDiffOps new ((arr e "ops").filterMap opOf) none []
  | none => [(999999, 999999)]   -- oracle miss marker

def changesJson (cs : List (Text × List LC)) : Json :=
  Json.mkObj (cs.map (fun (p, l) => (String.ofList p, Json.arr (l.map (fun c =>
    Json.mkObj [("line", c.line), ("ranges", match c.ranges with
      | none => Json.null
      | some rs => Json.arr (rs.map (fun r => Json.arr #[r.1, r.2])).toArray)])).toArray)))

/-- `[start, end, kind, [children…]]`: the syntax tree restricted to the nodes of the kinds the grammar's closure looks at
    and their ancestors -/
partial def treeOf (j : Json) : Option (TreeWalk.Tree Node) :=
  match j with
  | .arr a => match a.toList with
    | [s, e, .str k, .arr cs] => do
      let n : Node := ⟨← nat? s, ← nat? e, k⟩
      pure (.node n (cs.toList.filterMap treeOf))
    | _ => none
  | _ => none

/-- the nodes handed to the comment closures: the cursor walk of `CommentsIterator` over the shipped tree (`Bw.TreeWalk.walk`,
    proved to be the document order), followed by the nodes of the second Markdown family (HTML comments of `html_block`s,
    found by a nested parse); files without a tree fall back to the flat list -/
def nodesOfFile (f : Json) : List Node :=
  let flat := (arr f "nodes").filterMap nodeOf
  match f.getObjVal? "tree" with
  | .ok tj' =>
    match treeOf tj' with
    | some t => TreeWalk.walk t ++ flat.filter (fun n => n.kind == "md_html_comment")
    | none => flat
  | .error _ => flat

/-- machinery self-check: the flat node list (the harness's own recursive walk over the FULL tree) must be what the modelled
    cursor walk yields over the shipped pruned tree (`C03.walk_pruned_tree` says it is, if the harness prunes as `TreeWalk.prune`) -/
def treeConsistent (f : Json) : Bool :=
  let flat := ((arr f "nodes").filterMap nodeOf).filter (fun n => n.kind != "md_html_comment")
  match f.getObjVal? "tree" with
  | .ok tj' =>
    match treeOf tj' with
    | some t => (TreeWalk.walk t).filter (fun n => flat.contains n) == flat
    | none => false
  | .error _ => true

def handlePipeline (j : Json) : Json :=
  let files := arr j "files"
  let fileOf (p : Text) : Option Json := files.find? (fun f => strD f "path" = p)
  let pathsOf (k : String) : List Text := (strList j k).map String.toList
  let allowL := pathsOf "allow"
  let ignoreL := pathsOf "ignore"
  let w : World := {
    walk := pathsOf "walk"
    allow := fun p => allowL.contains p
    ignore := fun p => ignoreL.contains p
    read := fun p => (fileOf p) >>= (fun f => str? f "text")
    nodes := fun p => match fileOf p with
      | some f => nodesOfFile f
      | none => [] }
  let extra : List (Text × Text) := match j.getObjVal? "extra" with
    | .ok (.obj kvs) => kvs.toList.filterMap (fun (k, v) => match v with | .str s => some (k.toList, s.toList) | _ => none)
    | _ => []
  let diffR : Except String (List (Text × List LC)) :=
    match j.getObjVal? "diff" with
    | .ok (.str d) =>
      match lineChangesFromDiff (opsDiff j) d.toList with
      | .ok cs => .ok cs
      | .error .targetWithoutSource => .error "diff-target-without-source"
      | .error .unexpectedHunk => .error "diff-unexpected-hunk"
    | _ =>
      match j.getObjVal? "changes" with
      | .ok (.obj kvs) => .ok (kvs.toList.map (fun (k, v) =>
          (k.toList, match v with | .arr a => a.toList.map lcOf | _ => [])))
      | _ => .ok []
  if !(files.all treeConsistent) then Json.mkObj [("harness_tree_inconsistent", true)] else
  -- the exit status `main` ends with, for a validation run and for `list`, by the model of its sequencing (`Bw.MainFlow`)
  let mainJ : Json :=
    let rawE := extra.map (fun (k, v) => k ++ '=' :: v)
    let en := (strList j "enabled").map String.toList
    let dis := (strList j "disabled").map String.toList
    let inp : MainFlow.Input := { world := w, changes := (match diffR with | .ok cs => some cs | .error _ => none), scan := boolK j "scan" true }
    let (re, _) := regexOf j
    Json.mkObj [("validate", MainFlow.exitStatus (MainFlow.run cfg re (asyncOf j) rawE en dis false inp)),
                ("list", MainFlow.exitStatus (MainFlow.run cfg re (asyncOf j) rawE en dis true inp))]
  (fun (o : Json) => o.setObjVal! "main" mainJ) <|
  match diffR with
  | .error e => Json.mkObj [("ctx", Json.mkObj [("err", Json.arr #[Json.mkObj [("kind", e)]])]), ("exit", 1)]
  | .ok changes =>
    let scan := boolK j "scan" true
    let rs := parseBlocks cfg extra w changes scan
    match contextOf rs with
    | .error errs =>
      Json.mkObj [("changes", changesJson changes),
        ("ctx", Json.mkObj [("err", Json.arr (errs.map (fun (p, e) => pErrJson p e)).toArray)]), ("exit", 1)]
    | .ok ctx =>
      let ctxJ := Json.mkObj (ctx.map (fun f => (String.ofList f.path, Json.arr (f.blocks.map blockCtxJson).toArray)))
      let (re, _) := regexOf j
      let en := strList j "enabled"
      let dis := strList j "disabled"
      let out := run re (asyncOf j) ctx en dis
      -- the report is computed the way the code computes it: per-validator maps merged per file (`Bw.Merge`); by
      -- `C11.merged_report_is_run_report` / `merged_exit` it is the report and the exit status of `run`
      let merged := Merge.runMerged re (asyncOf j) ctx en dis
      let runJ := match out with
        | .ok _ => Json.mkObj [("diags", Json.arr ((Merge.tagged merged).map (fun (f, d) => diagJson f d)).toArray),
                               ("files", Json.arr ((Merge.keys merged).map tj).toArray),
                               ("prints", Merge.printsReport merged)]
        | .err ks => Json.mkObj [("err", Json.arr (ks.map (fun k => Json.str (errKindStr k))).toArray)]
      let exit := match out with
        | .ok _ => Merge.exitMerged merged
        | .err _ => 1
      -- what `blockwatch list` prints (`Bw.ListReport.report`: per file the entries after the stable sort by line)
      let listJ := Json.mkObj ((ListReport.report ctx).map (fun (p, es) => (String.ofList p, Json.arr (es.map (fun e =>
        Json.mkObj [("name", tj e.name), ("line", e.line), ("column", e.column), ("is_content_modified", e.contentModified),
                    ("attributes", attrsJson e.attrs)])).toArray)))
      Json.mkObj [("changes", changesJson changes), ("ctx", Json.mkObj [("files", ctxJ)]), ("list", listJ),
        ("detected", Json.arr ((detected ctx en dis).map Json.str).toArray),
        ("ai_requests", Json.arr ((aiRequests re ctx).map tj).toArray),
        ("run", runJ), ("exit", exit)]

def tagJson (t : Tag.Tag) : Json :=
  match t with
  | .start s e attrs => Json.mkObj [("k", "start"), ("s", s), ("e", e), ("attrs", attrsJson attrs)]
  | .stop s e => Json.mkObj [("k", "end"), ("s", s), ("e", e)]

def handle (j : Json) : Json :=
  match j.getObjValAs? String "op" with
  | .ok "pipeline" => handlePipeline j
  | .ok "walk" =>
    let segs : List Walk.Seg := (strD j "segs").filterMap (fun c =>
      if c = 'k' then some .keep else if c = 'd' then some .del else if c = 'a' then some .add else none)
    let enc (l : List (Nat × Bool)) : Json := Json.arr (l.map (fun (n, e) => Json.arr #[n, e])).toArray
    Json.mkObj [("walk", enc (Walk.walk segs)), ("walkR", enc (Walk.walkR segs)), ("knownDel", Walk.knownDel segs)]
  | .ok "tags" => Json.arr ((Tag.scanAll cfg (strD j "text")).map tagJson).toArray
  | .ok "cblock" => tj (Comment.cBlock (strD j "text"))
  | .ok "lookup" =>
    let extra : List (Text × Text) := match j.getObjVal? "extra" with
      | .ok (.obj kvs) => kvs.toList.filterMap (fun (k, v) => match v with | .str s => some (k.toList, s.toList) | _ => none)
      | _ => []
    match Lookup.lookup extra (strD j "path") with
    | some p => Json.str p
    | none => Json.null
  | .ok "glob" =>
    let gs := (strList j "globs").map String.toList
    let is := (strList j "ignores").map String.toList
    let p := strD j "path"
    match Bw.Glob.anyMatch gs p, Bw.Glob.anyMatch is p with
    | some a, some i => Json.mkObj [("allow", a), ("ignore", i)]
    | _, _ => Json.mkObj [("outside", true)]
  | .ok "flags" =>
    let lst (k : String) : List Text := (strList j k).map String.toList
    match Flags.startup (lst "E") (lst "e") (lst "d") with
    | .error _ => Json.mkObj [("err", "rejected")]
    | .ok o =>
      let set (l : List Text) : Json := Json.arr (((l.map String.ofList).eraseDups.toArray.qsort (· < ·)).map Json.str)
      Json.mkObj [("ok", Json.mkObj [("extra", Json.mkObj (o.extra.map (fun (k, v) => (String.ofList k, tj v)))),
                                     ("enabled", set o.enabled), ("disabled", set o.disabled)])]
  | .ok "linediff" =>
    Json.arr ((lineDiffOps (strD j "new") ((arr j "ops").filterMap opOf) none []).map (fun r => Json.arr #[r.1, r.2])).toArray
  | _ => Json.mkObj [("r", "bad-op")]

partial def loop (h : IO.FS.Stream) (out : IO.FS.Stream) : IO Unit := do
  let line ← h.getLine
  if line.isEmpty then return ()
  match Json.parse line with
  | .error e => out.putStrLn (Json.mkObj [("r", "bad-json"), ("e", e)]).compress
  | .ok j => out.putStrLn (handle j).compress
  loop h out

def main : IO Unit := do loop (← IO.getStdin) (← IO.getStdout)
