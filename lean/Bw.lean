import Bw.Text
