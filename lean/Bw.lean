-- This module serves as the root of the `Bw` library.
-- Import modules here that should be built as part of the library.
import Bw.Basic
