"""Decidable input classes of the known findings (see KNOWN_FINDINGS.jsonl). Each function gets
(case, impl outcome, model outcome) and says whether the case is an instance of that finding."""


def never(case, impl, model):
    return False
