"""Decidable input classes of the known findings (see KNOWN_FINDINGS.jsonl). Each function gets
(case, impl outcome, model outcome) and says whether the case is an instance of that finding."""
import re


def never(case, impl, model):
    return False


def d10(case, impl, model):
    """unidiff re-reads hunk bodies: a removed line starting with `-- ` or an added line starting with `++ `"""
    d = case.get("diff") or ""
    for l in d.split("\n"):
        if l.startswith("--- ") and not l.startswith("--- a/") and not l.startswith("--- /dev/null"):
            return True
        if l.startswith("+++ ") and not l.startswith("+++ b/"):
            return True
    return False


def d1_d9(case, impl, model):
    """handled inside the drift oracle (registry.drift_eval): explained iff the code's walk differs from the repaired walk"""
    return False


def d13(case, impl, model):
    """tree-sitter-html: an HTML comment written inside a quoted attribute value or a <textarea>"""
    for f in case.get("files", []):
        t = f.get("text") or ""
        if f["path"].endswith((".html", ".htm")) and (re.search(r'="[^"]*<!--', t) or re.search(r"='[^']*<!--", t) or "<textarea" in t):
            return True
    return False
