"""Per-property check definitions: Lean module with the obligations, correspondence components, tiers."""
import json, os, sys
import check as K

TB_COMMON = [
    "Lean 4.33.0 kernel; axioms per theorem listed under coverage.theorems (subset of propext, Classical.choice, Quot.sound)",
    "hand-written Lean model of the Rust code, tied to /repo on every run by the correspondence check (bwh in-process vs bwmodel)",
    "tools/translate.py for the tables regenerated from the source (extension map, detector list, severity enum, constraint prefixes, Lua mode match)",
    "harness generators / canonicalisation (harness/src), check.py comparison",
    "not modelled: tree-sitter grammars (comment node ranges are read from tree-sitter by the harness), regex crate (oracle table shipped per case), similar (op lists shipped per case)",
]


DEFAULT_LEVEL_TEXT = ("Property theorems are proved in Lean 4 about an executable model of the code for all inputs (no bound on sizes); "
                      "the model is tied to /repo on every run by running model and implementation on the same generated cases and comparing "
                      "every property-level observable; a disagreement is a concrete failing input because Spec = Model is a theorem.")
DEFAULT_LEVEL_NOTE = ("Trusted: Lean kernel + axioms propext/Classical.choice/Quot.sound; the hand-written model (checked, not proved, against the code "
                      "by differential runs); translator for generated tables; harness generators. Not modelled: tree-sitter, regex, similar (oracles).")
NOT_YET = {}


def n_for(tier, quick, thorough):
    return thorough if tier == "thorough" else quick


def has_blocks(case, impl, model):
    files = impl.get("ctx", {}).get("files") or {}
    return any(len(b) > 0 for b in files.values())


def val_check(kind, quick_n, thorough_n, rule):
    def run(rep, tier, seed, tr):
        n = n_for(tier, quick_n, thorough_n)
        rows = K.run_component(rep.prop, "val", [kind], seed, n, tier)
        rep.rules.append(rule)
        def nontrivial(case, impl, model):
            return has_blocks(case, impl, model) and case.get("meta", {}).get("nlines", 0) >= 2
        K.correspondence(rep, rows, f"val:{kind}", nontrivial, known=K.load_known(rep.prop))
    return run


CHECKS = {
    "C06": {
        "module": "Bw.Props.C06", "trusted_base": TB_COMMON + ["f64 parsing/ordering modelled as exact decimals with IEEE total order classes (agrees on <= 15 significant digits); lexicographic order = code point order (UTF-8 order preservation assumed)"],
        "run": val_check("keep-sorted", 6000, 120000,
                         "one keep-sorted block per case over boundary alphabets (ordered/equal/prefix/indented/blank/numeric-looking/Unicode lines) x directions x patterns x formats x comment layouts; non-trivial = block parsed and >= 2 content lines"),
    },
    "C07": {
        "module": "Bw.Props.C07", "trusted_base": TB_COMMON,
        "run": val_check("keep-unique", 6000, 120000,
                         "one keep-unique block per case: repeated keys, indentation-only and outside-group-only differences, blank/non-matching lines x {no regex, group regex, plain regex}; non-trivial = block parsed and >= 2 content lines"),
    },
    "C08": {
        "module": "Bw.Props.C08", "trusted_base": TB_COMMON,
        "run": val_check("line-pattern", 6000, 120000,
                         "one line-pattern block per case: matching / non-matching / indented / blank / partially matching lines x anchored and unanchored patterns; non-trivial = block parsed and >= 2 content lines"),
    },
    "C09": {
        "module": "Bw.Props.C09", "trusted_base": TB_COMMON,
        "run": val_check("line-count", 6000, 120000,
                         "one line-count block per case: 5 operators x N in 0..7 and 2^64-1 x Unicode-blank padding x 0..6 content lines with blank/whitespace-only lines, content starting on the tag's line; malformed constraints stream; non-trivial = block parsed and >= 2 content lines"),
    },
}


def replay(prop, path):
    """re-run one recorded case against the current tree and the model; print both outcomes"""
    data = json.load(open(path))
    case = data.get("case")
    if case is None:
        print(json.dumps(data, indent=1))
        return 0
    with K.Lock():
        K.build_harness()
        K.translate()
        K.lake_build(["bwmodel"])
    d = os.path.join(K.WORK, prop, "replay")
    os.makedirs(d, exist_ok=True)
    cp = os.path.join(d, "cases.jsonl")
    with open(cp, "w") as f:
        f.write(json.dumps(case) + "\n")
    K.sh([K.BWH, "replay", "--out", d, cp])
    K.run_model(cp, os.path.join(d, "model.jsonl"))
    impl = json.loads(open(os.path.join(d, "impl.jsonl")).readline())
    model = json.loads(open(os.path.join(d, "model.jsonl")).readline())
    diffs = K.compare_outcome(impl, model)
    print("impl :", json.dumps(impl))
    print("model:", json.dumps(model))
    for f, a, b in diffs:
        print(f"DIFF {f}: impl={json.dumps(a)} model/spec={json.dumps(b)}")
    if diffs:
        print(f"VIOLATION property={prop} replay={path}")
        return 1
    print("no difference on the current tree")
    return 0
