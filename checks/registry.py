"""Per-property check definitions: Lean module with the obligations, correspondence components, tiers."""
import json, os, sys
import check as K

TB_COMMON = [
    "Lean 4.33.0 kernel; axioms per theorem listed under coverage.theorems (subset of propext, Classical.choice, Quot.sound)",
    "hand-written Lean model of the Rust code, tied to /repo on every run by the correspondence check (bwh in-process vs bwmodel)",
    "tools/translate.py for the tables regenerated from the source (extension map, detector list, severity enum, constraint prefixes, Lua mode match, AI literals), one table at a time; the extension table and the detector list are also compared with the running implementation (`bwh tables`) on every run",
    "harness generators / canonicalisation (harness/src), check.py comparison",
    "not modelled: tree-sitter grammars (the harness reads the syntax tree from the same grammar crates and ships it restricted to the nodes of interest and their ancestors; the cursor walk over it IS modelled), regex crate (oracle table shipped per case), similar (op lists shipped per case), clap (the value parsers and Args::validate are modelled, the argv splitting is exercised in-process and through the binary)",
]


DEFAULT_LEVEL_TEXT = ("Property theorems are proved in Lean 4 about an executable model of the code for all inputs (no bound on sizes); "
                      "the model is tied to /repo on every run by running model and implementation on the same generated cases and comparing "
                      "every property-level observable; a disagreement is a concrete failing input because Spec = Model is a theorem.")
DEFAULT_LEVEL_NOTE = ("Trusted: Lean kernel + axioms propext/Classical.choice/Quot.sound; the hand-written model (checked, not proved, against the code "
                      "by differential runs); translator for generated tables; harness generators. Not modelled: tree-sitter, regex, similar (oracles).")
NOT_YET = {}


def n_for(tier, quick, thorough):
    return thorough if tier == "thorough" else quick


def has_blocks(case, impl, model):
    files = impl.get("ctx", {}).get("files") or {}
    return any(len(b) > 0 for b in files.values())


def val_check(kind, quick_n, thorough_n, rule):
    def run(rep, tier, seed, tr):
        n = n_for(tier, quick_n, thorough_n)
        rows = K.run_component(rep.prop, "val", [kind], seed, n, tier)
        rep.rules.append(rule)
        def nontrivial(case, impl, model):
            return has_blocks(case, impl, model) and case.get("meta", {}).get("nlines", 0) >= 2
        K.correspondence(rep, rows, f"val:{kind}", nontrivial, known=K.load_known(rep.prop))
        del rows
        # the property's own quantifier: every configuration x every line sequence up to a length, enumerated exhaustively
        maxlen = {"quick": {"keep-sorted": 3, "keep-unique": 3, "line-pattern": 3, "line-count": 4},
                  "thorough": {"keep-sorted": 5, "keep-unique": 5, "line-pattern": 5, "line-count": 6}}[tier].get(kind)
        if maxlen:
            rep.rules.append(f"exhaustive: every configuration of the rule x every sequence of at most {maxlen} lines over the rule's boundary alphabet (ordered / equal / prefix-related / indented / blank / numeric-looking / matching and non-matching lines), in `#`, `//` and `/* */` layouts")
            rows = K.run_component(rep.prop, f"exhaustive {kind} {maxlen}", [], seed, 0, tier)
            K.correspondence(rep, rows, f"exhaustive:{kind}", nontrivial, known=K.load_known(rep.prop))
    return run


def impl_blocks_sorted(impl):
    files = impl.get("ctx", {}).get("files")
    if files is None:
        return None
    bl = [b for v in files.values() for b in v]
    bl.sort(key=lambda b: (b["tag"][0], b["tag"][1]))
    return bl


def oracle_expected_blocks(case, impl):
    """constructed ground truth: exactly the blocks the generator wrote inside comments, attributes as written, in source order"""
    exp = case.get("meta", {}).get("expected")
    if exp is None:
        return []
    if "panic" in impl:
        return [f"panic: {impl['panic']}"]
    bl = impl_blocks_sorted(impl)
    if bl is None:
        return [f"expected {len(exp)} blocks, implementation reports error {impl.get('ctx', {}).get('err')}"]
    got = [K.canon(b["attrs"]) for b in bl]
    want = [K.canon(e["attrs"]) for e in exp]
    if got != want:
        return [f"blocks differ from what was written in comments: want {want} got {got}"]
    # line/column of '<' and of '>' cut out of the file must delimit the tag as written
    text = case["files"][0]["text"]
    probs = []
    for b, e in zip(bl, exp):
        cut = cut_range(text, b["tag"])
        if ws_norm(cut) != ws_norm(e["tag"]):
            probs.append(f"tag range {b['tag']} cuts {cut!r}, the tag written is {e['tag']!r}")
        cb = text.encode()[b["cbytes"][0]:b["cbytes"][1]].decode(errors="replace")
        if "<block" in cb and b["cbytes"] != [0, 0]:
            pass  # nested blocks: content legitimately contains inner tags
    return probs


def ws_norm(t):
    """multi-line tags are re-indented by the file writer: compare modulo blank runs (and `*` decoration)"""
    import re as _re
    return _re.sub(r"\s*\n[ \t]*(\* )?\s*", " ", t).strip()


def file_lines(text):
    """lines the way positions count them: split on \n only (a \r stays on its line)"""
    return text.split("\n")


def cut_range(text, rng):
    """bytes from (line, col) to (line, col) inclusive, 1-based byte columns"""
    sl, sc, el, ec = rng
    ls = [l.encode() for l in file_lines(text)]
    try:
        if sl == el:
            return ls[sl - 1][sc - 1:ec].decode()
        parts = [ls[sl - 1][sc - 1:]] + ls[sl:el - 1] + [ls[el - 1][:ec]]
        return b"\n".join(parts).decode()
    except Exception as ex:  # out of range / not on a char boundary
        return f"<bad range {rng}: {ex}>"


KEY_CODES = {"keep-sorted", "keep-unique", "line-pattern"}


def oracle_diag_ranges(case, impl):
    """C10: cut the reported range out of the file: key diagnostics delimit exactly a key, tag diagnostics exactly the start tag"""
    probs = oracle_expected_blocks(case, impl)
    diags = impl.get("run", {}).get("diags")
    if not diags:
        return probs
    text = case["files"][0]["text"]
    exp = case.get("meta", {}).get("expected", [])
    bl = impl_blocks_sorted(impl) or []
    lines = [l.encode() for l in file_lines(text)]
    for d in diags:
        cut = cut_range(text, d["range"])
        if d["code"] in KEY_CODES:
            sl, sc, el, ec = d["range"]
            if sl != el or cut == "" or cut != cut.strip() or cut.startswith("<bad"):
                probs.append(f"{d['code']} range {d['range']} cuts {cut!r}: not a trimmed non-empty key on one line")
                continue
            line = lines[sl - 1]
            left, right = line[:sc - 1].decode(errors="replace"), line[ec:].decode(errors="replace")
            import re as _re
            verdicts = []
            for b in bl:
                a = b["attrs"]
                if not (b["cpos"][0] <= sl <= b["cpos"][2]) or d["code"] not in a:
                    continue
                regex_key = a.get("keep-unique") if d["code"] == "keep-unique" else a.get("keep-sorted-pattern") if d["code"] == "keep-sorted" else None
                if not regex_key:
                    first_line = b["cpos"][0] == sl and sc >= b["cpos"][1]
                    why = []
                    if right.strip("\r\n\t \u00a0\u3000") != "" and not right.lstrip().startswith(("/*", "<!--", "//", "#", "--")):
                        why.append(f"the line continues with {right!r}")
                    if left.strip() != "" and not first_line:
                        why.append(f"the line starts with {left!r}")
                    verdicts.append(why)
                else:
                    m = _re.search(r"\(\?P?<value>(.*?)\)", regex_key)
                    inner = m.group(1) if m else regex_key
                    try:
                        verdicts.append([] if _re.fullmatch(inner, cut) else [f"not a match of the value group {inner!r}"])
                    except _re.error:
                        verdicts.append([])
            if not verdicts:
                probs.append(f"{d['code']} range {d['range']} cuts {cut!r}: no block with that rule contains line {sl}")
            elif all(verdicts):
                probs.append(f"{d['code']} range {d['range']} cuts {cut!r}: {verdicts[0]}")
        else:
            if ws_norm(cut) not in [ws_norm(e["tag"]) for e in exp]:
                probs.append(f"{d['code']} range {d['range']} cuts {cut!r}: not a start tag written by the generator")
    return probs


def src_check(modes, quick_n, thorough_n, rule, oracle):
    def run(rep, tier, seed, tr):
        n = n_for(tier, quick_n, thorough_n)
        rep.rules.append(rule)
        for mode in modes:
            comp = mode if mode == "unbalanced" else f"src {mode}"
            rows = K.run_component(rep.prop, comp, [], seed, n, tier)
            def nontrivial(case, impl, model):
                m = case.get("meta", {})
                return m.get("ntags", 1) >= 2 or m.get("gen") == "unbalanced"
            K.correspondence(rep, rows, comp, nontrivial, known=K.load_known(rep.prop), oracle=oracle)
            del rows
        if "blocks" in modes or "unbalanced" in modes:
            tagseq_component(rep, tier, seed)
        if "tags" in modes:
            scanner_component(rep, tier, seed)
            tagseq_component(rep, tier, seed)
    return run


def scanner_component(rep, tier, seed):
    """the tag scanner alone (hook `tags` -> WinnowBlockTagParser) vs `Bw.Tag.scanAll` on every concatenation of at most 4
    (thorough: 5) pieces from {bare / attributed / quoted start tags, end tags, look-alikes, `<`, `>`, blank, letters, line break,
    unterminated tags}, WITHOUT separators: a tag as the very first / last bytes of the text, tags glued to each other"""
    maxlen = 4 if tier == "quick" else 5
    rep.rules.append(f"exhaustive: every concatenation of at most {maxlen} of 16 tag pieces without separators through the real scanner (hook) vs the Lean scanner: kind, byte range and attributes of every tag found; non-trivial = at least one tag found")
    rows = K.run_component(rep.prop, f"tags {maxlen}", [], seed, 0, tier)
    bad = 0
    for case, impl, model in rows:
        rep.evaluations += 1
        rep.traces += 1
        want = [({"k": "start", "s": t["s"], "e": t["e"], "attrs": t["attrs"]} if t.get("k") == "start" else {"k": "end", "s": t.get("s")}) for t in model] if isinstance(model, list) else model
        if isinstance(impl, list) and impl:
            rep.nontrivial.add(case["text"])
        rep.count("scanner:" + ("panic" if isinstance(impl, dict) else f"{min(len(impl), 3)}+tags" if len(impl) >= 3 else f"{len(impl)}tags"))
        if impl != want:
            bad += 1
            if bad <= 3:
                rep.violation({"property": rep.prop, "component": "tag scanner (hook)", "what": "the real tag scanner and the proved scanner find different tags in this comment text",
                               "case": case, "impl": impl, "model": want})
    if bad > 3:
        print(f"  ({bad} disagreeing texts in the scanner component; first 3 written as replays)")


def oracle_dyck(case, impl):
    """a file whose tags spell the word w over {start, end} parses iff w is a Dyck word; then it has len(w)/2 blocks"""
    w = case.get("meta", {}).get("word")
    if case.get("meta", {}).get("gen") != "tagseq" or w is None:
        return []
    depth, dyck = 0, True
    for ch in w:
        depth += 1 if ch == "0" else -1
        if depth < 0:
            dyck = False
            break
    dyck = dyck and depth == 0
    if "panic" in impl:
        return [f"panic: {impl['panic']}"]
    failed = "err" in impl.get("ctx", {})
    if dyck and failed:
        return [f"balanced tag word {w!r} rejected: {impl['ctx']['err']}"]
    if not dyck and not failed:
        return [f"unbalanced tag word {w!r} accepted"]
    if dyck:
        nb = sum(len(b) for b in (impl["ctx"].get("files") or {}).values())
        if nb != len(w) // 2:
            return [f"tag word {w!r}: {nb} blocks reported, {len(w) // 2} written"]
    return []


def tagseq_component(rep, tier, seed):
    maxlen = 10 if tier == "quick" else 14
    rep.rules.append(f"exhaustive: every word of at most {maxlen} start / end tags (balanced or not) in four comment layouts (one tag per comment in `#` and `//` comments, up to two tags per comment in `/* */` and `<!-- -->` comments); accepted iff the word is a Dyck word, with half as many blocks as tags")
    rows = K.run_component(rep.prop, f"tagseq {maxlen}", [], seed, 0, tier)
    K.correspondence(rep, rows, "tagseq", lambda c, i, m: c["meta"]["len"] >= 2, known=K.load_known(rep.prop), oracle=oracle_dyck)


def faithful_walk(segs):
    """line numbers the *code* reports (deletions under the OLD file's number, surplus removals dropped) - known findings D1/D9"""
    new_no, old_no, pending, prev_add, out = 1, 1, [], False, []
    def flush():
        nonlocal pending
        if not prev_add and pending:
            out.append((pending[0], False))
        pending = []
    for c in segs:
        if c == "k":
            flush(); new_no += 1; old_no += 1; prev_add = False
        elif c == "d":
            pending.append(old_no); old_no += 1; prev_add = False
        else:
            if pending:
                pending.pop(0); out.append((new_no, True))
            else:
                out.append((new_no, False))
            new_no += 1; prev_add = True
    flush()
    return out


def repaired_walk(segs):
    """what the property asks for: every added line at its number, every deletion gap at the line after it (new-file numbering)"""
    new_no, pending, out = 1, 0, []
    for c in segs:
        if c == "k":
            if pending:
                out.append((new_no, False)); pending = 0
            new_no += 1
        elif c == "d":
            pending += 1
        else:
            if pending:
                pending -= 1; out.append((new_no, True))
            else:
                out.append((new_no, False))
            new_no += 1
    if pending:
        out.append((new_no, False))
    return out


def d10_class(case):
    """unidiff re-reads hunk bodies for file headers: a removed line starting with `-- ` / an added line starting with `++ `"""
    d = case.get("diff") or ""
    return any(l.startswith("--- ") and not l.startswith("--- a/") and not l.startswith("--- /dev/null") for l in d.split("\n")) or \
        any(l.startswith("+++ ") and not l.startswith("+++ b/") for l in d.split("\n"))


def drift_eval(case, impl):
    """ground truth of the edit script vs the implementation: list of (problem, explained_by_known_finding)"""
    out = []
    meta = case["meta"]
    if "panic" in impl:
        return [(f"panic: {impl['panic']}", None)]
    err = impl.get("ctx", {}).get("err")
    if err:
        if str(err[0].get("kind", "")).startswith("diff-"):
            return [(f"a diff git can emit is rejected: {err[0]}", "D10" if d10_class(case) else None)]
        return [(f"unexpected error {err[0]}", None)]
    files = impl["ctx"]["files"]
    glob_files = meta.get("glob_files")
    for mf in meta["files"]:
        # path arguments list every block of the files they match; the other files of the diff follow the diff-mode rules
        # (a hidden file is never reached by the walk: a path argument matching it adds nothing, the diff rules apply to it)
        hidden = any(c.startswith(".") for c in mf["path"].split("/"))
        in_globs = bool(meta.get("globs")) and (glob_files is None or mf["path"] in glob_files) and not hidden
        # (blocks are identified by name AND start-tag line: a file may hold several blocks of one name, a line several tags)
        listed = {(b["attrs"].get("name"), b["tag"][0]): b for b in files.get(mf["path"], [])}
        adds, gaps = mf["adds"], mf["gaps"]
        F = faithful_walk(mf["segs"])
        known_possible = F != repaired_walk(mf["segs"])
        for b in mf["blocks"]:
            s, e, name = b["s"], b["e"], b["name"]
            inside_add = any(s < j < e for j in adds)
            inside_del = any(s <= g and g + 1 <= e for g in gaps)
            far = all(j < s - 1 or j > e + 1 for j in adds) and all(g + 1 < s - 1 or g > e + 1 for g in gaps)
            got = listed.get((name, s))
            f_content = any(s < l < e for l, _ in F) or any(l in (s, e) and not ed for l, ed in F)
            f_listed = any(s <= l <= e for l, _ in F)
            if (inside_add or inside_del) and not (got and got["content_modified"]):
                expl = "D1/D9" if (known_possible and not inside_add and not f_content) else None
                out.append((f"{mf['path']}:{name} (lines {s}-{e}): a line strictly inside was {'added/edited' if inside_add else 'deleted'} but the block is {'not listed' if not got else 'not marked content-modified'}", expl))
            if far and got and not in_globs:
                expl = "D1/D9" if (known_possible and f_listed) else None
                out.append((f"{mf['path']}:{name} (lines {s}-{e}): every change is at least two lines away from the block but it is listed (content_modified={got['content_modified']})", expl))
            if in_globs and not got:
                out.append((f"{mf['path']}:{name}: path arguments given but the block is not listed", None))
        for c in mf["classes"]:
            b = next(x for x in mf["blocks"] if x["name"] == c["block"] and ("s" not in c or x["s"] == c["s"]))
            s, e = b["s"], b["e"]
            others_inside = any(s < j < e for j in adds) or any(s <= g and g + 1 <= e for g in gaps)
            got = listed.get((c["block"], s))
            if c.get("content") is False and not others_inside and not in_globs:
                # isolated edit of the tag line / end-tag line
                near = [j for j in adds if s - 1 <= j <= e + 1] + [g for g in gaps if s - 1 <= g + 1 <= e + 1]
                expected_near = 1
                if len(near) == expected_near:
                    if c["listed"] and not got:
                        out.append((f"{mf['path']}:{c['block']}: {c['class']} must select the block", "D1/D9" if known_possible and not any(s <= l <= e for l, _ in F) else None))
                    if got and got["content_modified"]:
                        out.append((f"{mf['path']}:{c['block']}: {c['class']} must not mark the content modified", "D1/D9" if known_possible else None))
                    if not c["listed"] and got:
                        out.append((f"{mf['path']}:{c['block']}: {c['class']} must not select the block", "D1/D9" if known_possible else None))
    return out


def oracle_drift(case, impl):
    return [p for p, k in drift_eval(case, impl) if k is None]


def drift_known_counts(rows):
    c = {}
    for case, impl, _ in rows:
        for _, k in drift_eval(case, impl):
            if k:
                c[k] = c.get(k, 0) + 1
    return c


def oracle_expect(case, impl):
    """hand-written expectation: which blocks are listed with which flag"""
    exp = case.get("meta", {}).get("expect", {})
    probs = []
    if "panic" in impl:
        return [f"panic: {impl['panic']}"]
    files = impl.get("ctx", {}).get("files")
    if files is None:
        return [f"unexpected error {impl.get('ctx', {}).get('err')}"]
    for path, want in exp.get("files", {}).items():
        got = sorted(((b["attrs"].get("name"), b["content_modified"]) for b in files.get(path, [])), key=str)
        w = sorted(((x["name"], x["content_modified"]) for x in want), key=str)
        if got != w:
            probs.append(f"{path}: listed blocks (name, content_modified) {got}, expected {w}")
    return probs


def oracle_unbalanced(case, impl):
    """C12: the run must fail and name the damaged file"""
    bad = case["meta"]["bad"]
    if "panic" in impl:
        return [f"panic: {impl['panic']}"]
    err = impl.get("ctx", {}).get("err")
    if not err:
        return [f"file {bad} has an unbalanced tag ({case['meta']['op']}) but the run did not fail: {K.outcome_key(impl)}"]
    if err[0].get("file") != bad and not (err[0].get("file") is None and K.names_path(err[0].get("msg"), bad)):
        return [f"error does not name the damaged file {bad}: {err[0]}"]
    if impl.get("exit") != 1:
        return ["exit status is not 1"]
    return []


CHECKS = {
    "C01": {
        "module": "Bw.Props.C01", "trusted_base": TB_COMMON + ["unidiff 0.4 is modelled as a specification (Bw/Unidiff.lean) and compared; git's diff output is imitated by the generator (change groups, any -U width, new files, `\\ No newline` markers)"],
        "level_note": DEFAULT_LEVEL_NOTE + " The full-strength statement holds for the repaired walk; for the code it is violated exactly in the known classes D1/D9 (witness theorems d1_witness/d9_witness) and D10 (dependency).",
        "run": None,
    },
    "C02": {
        "module": "Bw.Props.C02", "trusted_base": TB_COMMON,
        "run": None,
    },
    "C03": {
        "module": "Bw.Props.C03", "trusted_base": TB_COMMON + ["which byte ranges are comment nodes is tree-sitter's decision: the harness reads the node list from the same grammar crates; the constructed ground truth (blocks the generator wrote inside comments, decoys in strings/code) checks the whole chain on the implementation"],
        "level_note": DEFAULT_LEVEL_NOTE + " Partial: tree-sitter grammars (which bytes are comments) are exercised against constructed ground truth, not proved.",
        "run": src_check(["blocks"], 7800, 156000,
                         "files of each of the 39 suffixes assembled from the language's comment forms (line/block/doc/star-decorated/Markdown link definitions/HTML comments), code lines, string-literal decoys, random Dyck nesting (depth<=3, <=4 pairs), 1-3 tags per comment, LF/CRLF, multi-byte text; non-trivial = >= 2 tags written",
                         oracle_expected_blocks),
    },
    "C05": {
        "module": "Bw.Props.C05", "trusted_base": TB_COMMON + ["Unicode alphanumeric table regenerated from the Rust std by `bwh tables` (Bw/Gen/Alnum.lean); Cfg.WF for it is decided by the kernel"],
        "run": src_check(["tags"], 7800, 156000,
                         "start tags printed from random attribute lists (0-6 attributes, Unicode names/values, bare/unquoted/single/double quoted, blanks and newlines around = and between attributes, duplicates), end tags with inner blanks, embedded in comment noise with look-alike families; all 39 suffixes; non-trivial = >= 2 tags written",
                         oracle_expected_blocks),
    },
    "C10": {
        "module": "Bw.Props.C10", "trusted_base": TB_COMMON,
        "run": src_check(["diag"], 7800, 156000,
                         "violating blocks (line-count<0 on every block, keep-unique, keep-sorted, line-pattern, regex keys) in every comment layout of every suffix; the reported range is cut out of the file bytes and compared with the key / the start tag as written; non-trivial = >= 2 tags written",
                         oracle_diag_ranges),
    },
    "C12": {
        "module": "Bw.Props.C12", "trusted_base": TB_COMMON,
        "run": src_check(["unbalanced"], 6000, 120000,
                         "1-3 files of mixed languages, one of them with one tag deleted or duplicated at a random position of a random nesting; scan mode and diff mode; file order shuffled; every case non-trivial",
                         oracle_unbalanced),
    },
    "C06": {
        "module": "Bw.Props.C06", "trusted_base": TB_COMMON + ["f64 parsing/ordering modelled as exact decimals with IEEE total order classes (agrees on <= 15 significant digits); lexicographic order = code point order (UTF-8 order preservation assumed)"],
        "run": val_check("keep-sorted", 6000, 120000,
                         "one keep-sorted block per case over boundary alphabets (ordered/equal/prefix/indented/blank/numeric-looking/Unicode lines) x directions x patterns x formats x comment layouts; non-trivial = block parsed and >= 2 content lines"),
    },
    "C07": {
        "module": "Bw.Props.C07", "trusted_base": TB_COMMON,
        "run": val_check("keep-unique", 6000, 120000,
                         "one keep-unique block per case: repeated keys, indentation-only and outside-group-only differences, blank/non-matching lines x {no regex, group regex, plain regex}; non-trivial = block parsed and >= 2 content lines"),
    },
    "C08": {
        "module": "Bw.Props.C08", "trusted_base": TB_COMMON,
        "run": val_check("line-pattern", 6000, 120000,
                         "one line-pattern block per case: matching / non-matching / indented / blank / partially matching lines x anchored and unanchored patterns; non-trivial = block parsed and >= 2 content lines"),
    },
    "C09": {
        "module": "Bw.Props.C09", "trusted_base": TB_COMMON,
        "run": val_check("line-count", 6000, 120000,
                         "one line-count block per case: 5 operators x N in 0..7 and 2^64-1 x Unicode-blank padding x 0..6 content lines with blank/whitespace-only lines, content starting on the tag's line; malformed constraints stream; non-trivial = block parsed and >= 2 content lines"),
    },
}


def walk_tie(rep, rows, comp):
    """ties the abstract walk of the C01 theorems (Bw/Walk.lean) to the code: for every file of every generated diff the
    (line, is-edit) entries the real `line_changes_from_diff` reports must equal `Walk.walk segs`; the known-finding class
    used by the oracle must be Lean's decidable `knownDel`"""
    d = os.path.join(K.WORK, rep.prop, "walk_" + comp.replace(" ", "_"))
    os.makedirs(d, exist_ok=True)
    items = []
    for case, impl, model in rows:
        if "changes" not in impl or "err" in impl.get("ctx", {}) and str(impl["ctx"]["err"][0].get("kind", "")).startswith("diff-"):
            continue
        for mf in case["meta"]["files"]:
            if mf.get("new_file") is None and "segs" not in mf:
                continue
            items.append((case, impl, mf))
    with open(os.path.join(d, "ops.jsonl"), "w") as f:
        for _, _, mf in items:
            f.write(json.dumps({"op": "walk", "segs": mf["segs"]}) + "\n")
    K.run_model(os.path.join(d, "ops.jsonl"), os.path.join(d, "out.jsonl"))
    bad = 0
    for (case, impl, mf), line in zip(items, open(os.path.join(d, "out.jsonl"))):
        w = json.loads(line)
        rep.evaluations += 1
        got = [[c["line"], c["ranges"] is not None] for c in impl["changes"].get(mf["path"], [])]
        if not any(ch in mf["segs"] for ch in "ad"):
            continue
        if mf["path"] not in impl["changes"] and mf["segs"].lstrip("d").count("d") == 0 and "a" not in mf["segs"]:
            # unidiff's is_removed_file(): a single hunk with target 0,0 (only the first lines of the file deleted) is
            # treated as a deleted file and skipped - modelled in Bw/Unidiff.lean (File.isRemoved), pinned by a unit test
            rep.count(f"{comp}:walk-tie:removed-file-rule")
            continue
        rep.count(f"{comp}:walk-tie:" + ("known-class" if w["knownDel"] else "exact"))
        py_known = faithful_walk(mf["segs"]) != repaired_walk(mf["segs"])
        problems = []
        if got != w["walk"]:
            problems.append({"field": "line change entries (line, is_edit)", "impl": got, "model_and_spec": w["walk"]})
        if (w["walk"] != w["walkR"]) != py_known or (not w["knownDel"] and w["walk"] != w["walkR"]):
            problems.append({"field": "known class", "lean_knownDel": w["knownDel"], "walk": w["walk"], "walkR": w["walkR"]})
        if problems:
            bad += 1
            if bad <= 3:
                rep.violation({"property": rep.prop, "component": comp + " (walk tie)", "what": "the code's hunk walk differs from the abstract walk the C01 theorems are about",
                               "segs": mf["segs"], "file": mf["path"], "diff": case.get("diff"), "differences": problems})


def diff_check(modes, quick_n, thorough_n, rule):
    def run(rep, tier, seed, tr):
        n = n_for(tier, quick_n, thorough_n)
        rep.rules.append(rule)
        for mode in modes:
            rows = K.run_component(rep.prop, f"diff {mode}", [], seed, n, tier)
            def nontrivial(case, impl, model):
                return any(f["adds"] or f["gaps"] for f in case["meta"]["files"]) and has_blocks(case, impl, model)
            K.correspondence(rep, rows, f"diff {mode}", nontrivial, known=K.load_known(rep.prop), oracle=oracle_drift)
            for k, v in drift_known_counts(rows).items():
                rep.count(f"diff {mode}:ground-truth-failure-in-known-class:{k}", v)
            walk_tie(rep, rows, f"diff {mode}")
            for case, _, _ in rows:
                for f in case["meta"]["files"]:
                    for c in f["classes"]:
                        rep.count(f"diff {mode}:class:{c['class']}")
            with K.Lock():
                K.build_repo_binary()
            git_e2e(rep, rows, tier, seed, n_for(tier, 120, 1500))
            del rows
            # small-scope exhaustive edit scripts over one fixed file with two linked blocks
            stride = 16 if tier == "quick" else 1
            rep.rules.append(f"exhaustive: a fixed 9-line file with two linked blocks; every assignment of keep / add / edit to its five non-tag lines x zero or one deleted line in each of its ten gaps (248 832 edit scripts; this tier: every {stride}-th), rendered with -U0 / -U1 / -U3 in turn; same ground truth")
            rows = K.run_component(rep.prop, f"exdiff {stride} {mode}", [], seed, 0, tier)
            K.correspondence(rep, rows, f"exdiff {mode}", nontrivial, known=K.load_known(rep.prop), oracle=oracle_drift)
            for k, v in drift_known_counts(rows).items():
                rep.count(f"exdiff {mode}:ground-truth-failure-in-known-class:{k}", v)
            walk_tie(rep, rows, f"exdiff {mode}")
    return run


CHECKS["C01"]["run"] = diff_check(["drift"], 6000, 100000,
    "1-3 files (py/rs/js/rb/sql/go/sh, directories incl. a/ b/ b/b/ and names with spaces) with 1-3 sibling or nested blocks carrying affects references (same-file, cross-file, comma lists, cycles, missing targets) and rules; abstract edit scripts (add / edit / delete groups anywhere, targeted classes inside-add, inside-edit, inside-del, tag-attr-edit, tag-line-noise-edit, end-tag-edit, outside) rendered as git writes them with -U0/1/3/10, new files, no-newline markers, shuffled file sections; ground truth from the edit script; non-trivial = some change and some block listed")
CHECKS["C02"]["run"] = diff_check(["select"], 6000, 100000,
    "as C01 with sibling blocks only, violating / non-violating rules on every block, one third of the cases with path arguments (every block of every matching file must be listed); targeted edit classes decide selected / content-modified per block; non-trivial = some change and some block listed")


def cli_correspondence(rep, rows, component, limit, subs=("validate",), known=None):
    """run the real binary on (a prefix of) the rows and compare exit status / stderr / stdout with the model"""
    import cli as C
    rows = [r for r in rows if "changes" not in r[0]][:limit]
    def one(row):
        case, impl, model = row
        out = []
        for sub in subs:
            if sub == "validate":
                res = C.run_case_cli(case)
                out.append(("validate", C.outcome_validate(res), res))
            else:
                res = C.run_case_cli(case, sub="list")
                out.append(("list", C.outcome_list(res), res))
        return out
    results = C.pmap(one, rows)
    bad = 0
    for (case, impl, model), outs in zip(rows, results):
        for sub, cli_out, res in outs:
            rep.evaluations += 1
            rep.traces += 1
            diffs = C.compare_cli_validate(cli_out, model) if sub == "validate" else C.compare_cli_list(cli_out, model)
            rep.count(f"{component}:cli-{sub}:" + ("panic" if "panic" in cli_out else f"exit{cli_out.get('exit')}"))
            if diffs:
                if any(e.get("status") == "open" and K.known_matches(e, case, impl, model) for e in (known or [])):
                    rep.count(f"{component}:cli-{sub}:known")
                    continue
                bad += 1
                if bad <= 3:
                    rep.violation({"property": rep.prop, "component": f"{component} (CLI {sub})",
                                   "what": "the binary built from the current tree disagrees with the proved model",
                                   "case": case, "cli": {k: v for k, v in res.items()}, "model": model,
                                   "differences": [{"field": f, "cli": a, "model_and_spec": b} for f, a, b in diffs]})
    if bad > 3:
        print(f"  ({bad} disagreeing CLI runs in {component})")
    return bad


def oracle_exit_severity(case, impl):
    """C11: exit 1 exactly when a diagnostic of severity error exists (or the run erred)"""
    if "panic" in impl:
        return [f"panic: {impl['panic']}"]
    if "err" in impl.get("ctx", {}) or "err" in impl.get("run", {}):
        return [] if impl.get("exit") == 1 else ["error outcome but exit status is not 1"]
    diags = impl.get("run", {}).get("diags", [])
    want = 1 if any(d["severity"] == 1 for d in diags) else 0
    probs = []
    if impl.get("exit") != want:
        probs.append(f"exit {impl.get('exit')} but severities are {[d['severity'] for d in diags]}")
    for d in diags:
        if d["severity"] not in (1, 2, 3, 4):
            probs.append(f"severity {d['severity']} outside 1..4")
    return probs


def multi_check(flags, quick_n, thorough_n, cli_quick, cli_thorough, rule, subs, extra=None):
    def run(rep, tier, seed, tr):
        n = n_for(tier, quick_n, thorough_n)
        rep.rules.append(rule)
        comp = "multi flags" if flags else "multi"
        rows = K.run_component(rep.prop, comp, [], seed, n, tier)
        def nontrivial(case, impl, model):
            return len(impl.get("run", {}).get("diags", [])) >= 1 or "err" in impl.get("run", {})
        K.correspondence(rep, rows, comp, nontrivial, known=K.load_known(rep.prop), oracle=oracle_exit_severity)
        cli_correspondence(rep, rows, comp, n_for(tier, cli_quick, cli_thorough), subs=subs, known=K.load_known(rep.prop))
        if extra:
            extra(rep, tier, seed, rows)
    return run


def c14_flag_errors(rep, tier, seed, rows):
    """both flags together / an unknown validator are rejected before anything is validated"""
    import cli as C
    import random
    rnd = random.Random(seed)
    names = [n for n, _ in []] or ["affects", "keep-sorted", "keep-unique", "line-pattern", "line-count", "check-ai", "check-lua"]
    scen = []
    for k in range(60 if tier == "quick" else 300):
        case = rows[k % len(rows)][0]
        kind = k % 3
        if kind == 0:
            args = ["-e", rnd.choice(names), "-d", rnd.choice(names)]
        elif kind == 1:
            # unknown names: fragments of valid names (and of their comma-joined list), other letter case, stray blanks, near misses
            base = rnd.choice(names)
            a, b = sorted(rnd.sample(range(len(base) + 1), 2))
            frag = base[a:b] if base[a:b] != base else base[:-1]
            args = [rnd.choice(["-e", "-d"]), rnd.choice(["keep-sort", "KEEP-SORTED", "", "all", "check_lua", " keep-unique", frag, frag, base.upper(), base + " ",
                                                          " " + base, base + ",", ", ", "-", base.replace("-", "_"), base + "s", ",".join(names[:2])])]
            if args[1] in names:          # `affects` has no hyphen to replace: the candidate must really be unknown
                args[1] = args[1] + "_"
        else:
            args = ["-d", rnd.choice(names), "--enable", rnd.choice(names), "-d", rnd.choice(names)]
        scen.append((case, args))
    def one(sc):
        case, args = sc
        root = C.tmp_root()
        try:
            # an unbalanced file: if anything were parsed the error text would mention it
            C.materialise(root, [(f["path"], f["text"]) for f in case["files"]] + [("zz_unbalanced.py", "# <block name=\"never-closed\">\n")])
            return C.run_bw(root, args, env={"BLOCKWATCH_TERMINAL_MODE": "1"})
        finally:
            import shutil
            shutil.rmtree(root, ignore_errors=True)
    for (case, args), res in zip(scen, C.pmap(one, scen)):
        rep.evaluations += 1
        rep.count("flag-errors:" + str(res["exit"]))
        ok = res["exit"] not in (0, None) and "panicked" not in res["stderr"] and "not closed" not in res["stderr"] and res["stdout"] == ""
        if not ok:
            rep.violation({"property": rep.prop, "component": "flag errors", "what": "invalid flag combination was not rejected up front",
                           "args": args, "cli": res})


def c11_severities(rep, tier, seed, rows):
    """every assignment of severities to three violating blocks (two files, three rules), in-process and through the binary:
    exit 1 iff some diagnostic has severity error; every diagnostic printed with its numeric severity"""
    import itertools
    import cli as C
    sevs = [None, "error", "warning", "info", "hint", "WARNING", "Error"] if tier == "quick" else [None, "error", "warning", "info", "hint", "WARNING", "Error", "Hint", "INFO"]
    num = {None: 1, "error": 1, "warning": 2, "info": 3, "hint": 4}
    rep.rules.append(f"exhaustive: every assignment of {len(sevs)} severity spellings (absent, error, warning, info, hint, other letter case) to three violating blocks in two files, in both block orders; exit status 1 iff an error-severity diagnostic exists; in-process and through the binary")
    raws = []
    def attr(sv):
        return "" if sv is None else f' severity="{sv}"'
    for a, b, c in itertools.product(sevs, repeat=3):
        for order in (0, 1):
            blk1 = f'# <block keep-sorted{attr(a)}>\nb\na\n# </block>\n'
            blk2 = f'# <block line-count="<1"{attr(b)}>\nx\n# </block>\n'
            f1 = blk1 + blk2 if order == 0 else blk2 + blk1
            f2 = f'// <block keep-unique{attr(c)}>\nk\nk\n// </block>\n'
            raws.append({"files": [{"path": "a.py", "text": f1}, {"path": "src/b.rs", "text": f2}], "walk": ["a.py", "src/b.rs"], "allow": ["a.py", "src/b.rs"],
                         "ignore": [], "scan": True, "meta": {"gen": "severities", "sev": [a, b, c], "order": order}})
    d = os.path.join(K.WORK, rep.prop, "severities")
    __import__("shutil").rmtree(d, ignore_errors=True); os.makedirs(d)
    with open(os.path.join(d, "raw.jsonl"), "w") as f:
        for r in raws:
            f.write(json.dumps(r) + "\n")
    K.sh([K.BWH, "replay", "--out", d, os.path.join(d, "raw.jsonl")])
    K.run_model(os.path.join(d, "cases.jsonl"), os.path.join(d, "model.jsonl"))
    srows = [(json.loads(x), json.loads(y), json.loads(z)) for x, y, z in zip(open(os.path.join(d, "cases.jsonl")), open(os.path.join(d, "impl.jsonl")), open(os.path.join(d, "model.jsonl")))]
    def oracle(case, impl):
        want = sorted(num[(s.lower() if s else None)] for s in case["meta"]["sev"])
        if "panic" in impl or "diags" not in impl.get("run", {}):
            return [f"no diagnostics: {K.outcome_key(impl)}"]
        got = sorted(d["severity"] for d in impl["run"]["diags"])
        probs = []
        if got != want:
            probs.append(f"severities {got}, expected {want}")
        if impl.get("exit") != (1 if 1 in want else 0):
            probs.append(f"exit {impl.get('exit')} with severities {want}")
        return probs
    K.correspondence(rep, srows, "severities", lambda c, i, m: True, oracle=oracle)
    cli_correspondence(rep, srows, "severities", n_for(tier, 200, 1500), subs=("validate",))


CHECKS["C11"] = {
    "module": "Bw.Props.C11", "needs_binary": True, "trusted_base": TB_COMMON + ["main.rs control flow is exercised through the real binary (exit status, stderr/stdout JSON), not modelled line by line"],
    "run": multi_check(False, 4000, 60000, 250, 2500,
        "1-4 files of mixed languages, 0-4 nested/sibling blocks each with 0-3 rules (violating or not) and every severity spelling; in-process run + the real binary (validate and list) on a prefix; non-trivial = at least one diagnostic or error",
        ("validate", "list"), extra=c11_severities),
}


def c14_subsets(rep, tier, seed, rows):
    """the property's own quantifier: every subset of the seven validators, given to --disable and to --enable, over the
    rule-richest generated file sets; plus the run-level law proved in Lean, checked on the implementation alone:
    the report under a flag is the unrestricted report filtered by diagnostic code"""
    import itertools
    names = ["affects", "keep-sorted", "keep-unique", "line-pattern", "line-count", "check-ai", "check-lua"]
    rich = sorted([r for r in rows if "err" not in r[2].get("ctx", {})], key=lambda r: -len(r[2].get("detected", [])))[:n_for(tier, 4, 24)]
    rep.rules.append("exhaustive: every subset of the seven validators x {--disable, --enable, neither} on the generated file sets with the most rule kinds; besides model = implementation, the implementation's report under the flag must equal its own unrestricted report filtered by diagnostic code")
    raws = []
    for case, impl, model in rich:
        base = {k: v for k, v in case.items() if k not in ("regex", "regex_texts", "ops", "enabled", "disabled")}
        base["patterns"] = [e["p"] for e in case.get("regex", [])]
        for k in range(len(names) + 1):
            for sub in itertools.combinations(names, k):
                for flag in (("disabled",), ("enabled",)) if sub else (("none",),):
                    c = dict(base); c["enabled"] = list(sub) if flag[0] == "enabled" else []; c["disabled"] = list(sub) if flag[0] == "disabled" else []
                    c["meta"] = {"gen": "flag-subsets", "flag": flag[0], "subset": list(sub), "base": case["meta"].get("i")}
                    raws.append(c)
    d = os.path.join(K.WORK, rep.prop, "subsets")
    __import__("shutil").rmtree(d, ignore_errors=True); os.makedirs(d)
    with open(os.path.join(d, "raw.jsonl"), "w") as f:
        for r in raws:
            f.write(json.dumps(r) + "\n")
    K.sh([K.BWH, "replay", "--out", d, os.path.join(d, "raw.jsonl")])
    K.run_model(os.path.join(d, "cases.jsonl"), os.path.join(d, "model.jsonl"))
    srows = [(json.loads(a), json.loads(b), json.loads(c)) for a, b, c in zip(open(os.path.join(d, "cases.jsonl")), open(os.path.join(d, "impl.jsonl")), open(os.path.join(d, "model.jsonl")))]
    K.correspondence(rep, srows, "flag subsets", lambda c, i, m: len(i.get("run", {}).get("diags", [])) >= 1, known=K.load_known(rep.prop))
    # every subset through the binary as well (`main` resolves the two flags before `detect_validators` sees them): the rows of
    # the first rule-rich case - 128 subsets x {--disable, --enable}, all seven validators disabled / enabled included
    first = srows[0][0]["meta"].get("base") if srows else None
    cli_correspondence(rep, [r for r in srows if r[0]["meta"].get("base") == first], "flag subsets", 300, subs=("validate",), known=K.load_known(rep.prop))
    # the filter law on the implementation alone (disable_removes_exactly_diags / enable_keeps_exactly_diags)
    base_diags = {}
    for case, impl, model in srows:
        if case["meta"]["flag"] == "none" and "diags" in impl.get("run", {}):
            base_diags[case["meta"]["base"]] = impl["run"]["diags"]
    bad = 0
    for case, impl, model in srows:
        m = case["meta"]
        if m["flag"] == "none" or m["base"] not in base_diags or "diags" not in impl.get("run", {}):
            continue
        keep = (lambda d: d["code"] not in m["subset"]) if m["flag"] == "disabled" else (lambda d: d["code"] in m["subset"])
        want = sorted(K.canon(d) for d in base_diags[m["base"]] if keep(d))
        got = sorted(K.canon(d) for d in impl["run"]["diags"])
        rep.evaluations += 1
        rep.count("flag subsets:filter-law-checked")
        if want != got:
            bad += 1
            if bad <= 2:
                rep.violation({"property": rep.prop, "component": "flag subsets (filter law)", "what": "the report under the flag is not the unrestricted report filtered by diagnostic code",
                               "case": case, "impl": impl, "expected_diags": want})


def c14_drift_flags(rep, tier, seed):
    """--enable / --disable in diff mode: drift scenarios (cross-file `affects`, targets that are plain named blocks in files
    without any rule) under random subsets of the validators"""
    rep.rules.append("2 000 (thorough: 40 000) drift scenarios (1-3 files, edit scripts rendered as git does, cross-file and same-file `affects`, plain named targets) under a random subset of the seven validators given to --enable or --disable")
    rows = K.run_component(rep.prop, "diff flags", [], seed, n_for(tier, 2000, 40000), tier)
    K.correspondence(rep, rows, "diff flags", has_blocks, known=K.load_known("C01"))
    cli_correspondence(rep, rows, "diff flags", n_for(tier, 500, 5000), subs=("validate",), known=K.load_known("C01"))


def c14_extra(rep, tier, seed, rows):
    c14_drift_flags(rep, tier, seed)
    flags_component(rep, tier, seed)
    c14_flag_errors(rep, tier, seed, rows)
    c14_subsets(rep, tier, seed, rows)


CHECKS["C14"] = {
    "module": "Bw.Props.C14", "needs_binary": True, "trusted_base": TB_COMMON + ["clap argument parsing (exercised through the binary)"],
    "run": multi_check(True, 4000, 60000, 250, 2500,
        "as C11 plus a random subset of the seven validators (with repeats) given to --enable or to --disable; the model filters the detector table regenerated from the source; invalid combinations (both flags, unknown names) must be rejected before any file is parsed",
        ("validate",), extra=c14_extra),
}


def oracle_fail_closed(case, impl):
    """C13: a malformed rule never crashes; an error always exits 1"""
    if "panic" in impl:
        return [f"panic: {impl['panic']}"]
    if ("err" in impl.get("run", {}) or "err" in impl.get("ctx", {})) and impl.get("exit") != 1:
        return ["error outcome but exit status is not 1"]
    # an error whose wording is not recognised is still an explanatory error (wording is not an observable)
    return []


def c13_run(rep, tier, seed, tr):
    rep.rules.append("rule kind (keep-sorted, keep-unique, line-pattern, line-count, affects, check-lua, check-ai) x malformation of its attribute value (empty, blanks, wrong case, trailing garbage, overflow, unbalanced brackets, missing colon, missing script, missing key) on a block among filler comments, plus unknown severities; every case malformed; in-process + the real binary on a prefix; non-trivial = the block parsed")
    per = n_for(tier, 1500, 20000)
    for kind in ["keep-sorted", "keep-unique", "line-pattern", "line-count", "affects", "check-lua", "check-ai"]:
        rows = K.run_component(rep.prop, f"val {kind} malformed", [], seed, per, tier)
        K.correspondence(rep, rows, f"val {kind} malformed", has_blocks, known=K.load_known(rep.prop), oracle=oracle_fail_closed)
        cli_correspondence(rep, rows, f"val {kind} malformed", n_for(tier, 40, 400), subs=("validate",), known=K.load_known(rep.prop))


CHECKS["C13"] = {
    "module": "Bw.Props.C13", "needs_binary": True,
    "trusted_base": TB_COMMON + ["Lua interpreter / HTTP client failures are outcome oracles of the model (the real code is run for: missing script, invalid check-lua-pattern, missing API key)"],
    "run": c13_run,
}


def permute_diff(diff, rnd):
    parts = diff.split("diff --git ")
    head, secs = parts[0], ["diff --git " + x for x in parts[1:]]
    rnd.shuffle(secs)
    return head + "".join(secs)


def c20_run(rep, tier, seed, tr):
    import cli as C, random, shutil as _sh
    rep.rules.append("generated repositories (multi-file rule sets; diff edit scripts): the binary is run 7 times per case - repeated (fresh hash seeds), pinned to one core, 1 and 16 runtime workers, files created in reverse order, diff file sections permuted, started from a subdirectory - and every canonical outcome must equal the first and the model's; in-process runs walk the files in shuffled order; non-trivial = at least one diagnostic or listed block")
    n = n_for(tier, 3000, 40000)
    k = n_for(tier, 60, 600)
    rnd = random.Random(seed)
    # `lua`: scripted blocks (several blocks per script, scripts that notice state left behind by an earlier block)
    for comp in ["multi", "diff drift", "lua"]:
        rows = K.run_component(rep.prop, comp, [], seed, n if comp != "lua" else n_for(tier, 300, 3000), tier)
        if comp == "lua":
            k = n_for(tier, 20, 200)
        def nontrivial(case, impl, model):
            return has_blocks(case, impl, model)
        K.correspondence(rep, rows, comp, nontrivial, known=K.load_known(rep.prop))
        sel = [r for r in rows if "err" not in r[2].get("ctx", {})][:k]
        def variants(case):
            subdirs = sorted({os.path.dirname(f["path"]) for f in case["files"] if "/" in f["path"]})
            sub = subdirs[0] if subdirs else "subdir"
            order = list(range(len(case["files"])))[::-1]
            vs = [("base", {}), ("repeat", {}), ("one-core", {"prefix": ["taskset", "-c", "0"]}),
                  ("workers-1", {"env_extra": {"TOKIO_WORKER_THREADS": "1"}}), ("workers-16", {"env_extra": {"TOKIO_WORKER_THREADS": "16"}}),
                  ("reverse-creation", {"order": order}), ("subdir", {"cwd_rel": sub})]
            return vs
        def one(row):
            case = row[0]
            outs = []
            for name, kw in variants(case):
                res = C.run_case_cli(case, **kw)
                outs.append((name, C.outcome_validate(res), res))
            if case.get("diff"):
                c2 = dict(case); c2["diff"] = permute_diff(case["diff"], random.Random(len(case["diff"])))
                res = C.run_case_cli(c2)
                outs.append(("diff-permuted", C.outcome_validate(res), res))
            return outs
        for (case, impl, model), outs in zip(sel, C.pmap(one, sel)):
            base = None
            for name, out, res in outs:
                rep.evaluations += 1
                rep.traces += 1
                rep.count(f"{comp}:cli:{name}")
                key = K.canon({"exit": out.get("exit"), "diags": sorted(K.canon(d) for d in out.get("run", {}).get("diags", [])),
                               "err": (out.get("run", {}).get("err") or out.get("ctx", {}).get("err") or [None])[0] if ("err" in out.get("run", {}) or "err" in out.get("ctx", {})) else None,
                               "panic": out.get("panic")})
                diffs = C.compare_cli_validate(out, model)
                known = any(e.get("status") == "open" and K.known_matches(e, case, impl, model) for e in K.load_known(rep.prop))
                if base is None:
                    base = key
                if (key != base or diffs) and not known:
                    rep.violation({"property": rep.prop, "component": f"{comp} (CLI variant {name})",
                                   "what": "outcome differs between two runs of the same input, or from the model",
                                   "case": case, "variant": name, "cli": res, "first_run": json.loads(base), "model": model,
                                   "differences": [{"field": f, "cli": a, "model_and_spec": b} for f, a, b in diffs]})
                    break


CHECKS["C20"] = {
    "module": "Bw.Props.C20", "needs_binary": True,
    "level_note": DEFAULT_LEVEL_NOTE + " Partial: real thread / task interleavings and hash seeds are sampled by repeated runs; the theorems cover every permutation of the model's file order.",
    "trusted_base": TB_COMMON + ["hash-map iteration order and thread completion order are modelled as arbitrary permutations; the OS scheduler is exercised, not modelled"],
    "run": c20_run,
}


C16_GROUPS = [
    ({}, "// ", ["go.mod", "legacy.mod", "x.y.go.mod", "sub/go.mod", "sub/other.mod", "mod"]),
    ({}, "// ", ["go.sum", "sha256.sum", "sub/go.sum", "x.sum"]),
    ({}, "// ", ["go.work", "x.work", "sub/go.work"]),
    ({}, "// ", ["a.d.ts", "b.ts", "c.d.ts.bak", "d.x.ts", "e.d.js"]),
    ({}, "# ", ["Makefile", "x.Makefile", "sub/makefile", "Makefile.bak", "sub/Makefile"]),
    ({"cxx": "cpp"}, "// ", ["t.cxx", "u.cxx", "v.x.cxx", "cxx", "w.cpp"]),
    ({"a.b": "py"}, "# ", ["x.a.b", "y.b", "a.b", "z.c.b", "sub/q.a.b"]),
    ({"mod": "py"}, "# ", ["go.mod", "legacy.mod", "x.go.mod"]),
    # -E keys that are whole file names
    ({"Dockerfile": "sh"}, "# ", ["Dockerfile", "docker/v1.2/Dockerfile", "app.Dockerfile", "Dockerfile.bak", "dockerfile"]),
    ({"BUILD": "py", "WORKSPACE": "py"}, "# ", ["BUILD", "pkg/sub.d/BUILD", "defs.BUILD", "WORKSPACE", "BUILD.old"]),
]


def c16_multi(rep, tier, seed):
    """several files in one run whose names share a last suffix but resolve differently (compound registered names,
    compound -E keys, extension-less names): the grammar of one file must not depend on the others or on the visiting order"""
    import random
    rep.rules.append("2-5 files per run drawn from families sharing their last suffix (go.mod / legacy.mod / x.y.go.mod, go.sum / sha256.sum, a.d.ts / b.ts, Makefile / x.Makefile, -E cxx=cpp, compound -E a.b=py, -E mod=py) in random visiting order, every file holding one block in the family's comment syntax; the files listed in-process and by the binary's `list` vs the per-file proved lookup")
    n = n_for(tier, 400, 4000)
    rnd = random.Random(seed * 31 + 5)
    raws = []
    for k in range(n):
        extra, c, names = rnd.choice(C16_GROUPS)
        picked = rnd.sample(names, rnd.randint(2, min(5, len(names))))
        if rnd.random() < 0.3:
            e2, c2, n2 = rnd.choice(C16_GROUPS)
            if not e2:
                picked += [x for x in rnd.sample(n2, 1) if x not in picked]
        files = [{"path": p, "text": f"{c}<block name=\"k{i}\">\nv{i}\n{c}</block>\n"} for i, p in enumerate(picked)]
        walk = list(picked); rnd.shuffle(walk)
        if k % 3 == 2:
            # the files are named by a diff only (no path arguments): the grammar is chosen the same way
            diff = "".join(f"diff --git a/{p} b/{p}\nindex 1..2 100644\n--- a/{p}\n+++ b/{p}\n@@ -2 +2 @@\n-old\n+v{i}\n" for i, p in enumerate(picked))
            raws.append({"files": files, "walk": [], "allow": [], "ignore": [], "scan": False, "extra": extra, "diff": diff,
                         "meta": {"gen": "lookup-multi", "k": k, "diff_only": True}})
            continue
        raws.append({"files": files, "walk": walk, "allow": list(picked), "ignore": [], "scan": True, "extra": extra,
                     "meta": {"gen": "lookup-multi", "k": k}})
    d = os.path.join(K.WORK, rep.prop, "multi")
    __import__("shutil").rmtree(d, ignore_errors=True); os.makedirs(d)
    with open(os.path.join(d, "raw.jsonl"), "w") as f:
        for r in raws:
            f.write(json.dumps(r) + "\n")
    K.sh([K.BWH, "replay", "--out", d, os.path.join(d, "raw.jsonl")])
    K.run_model(os.path.join(d, "cases.jsonl"), os.path.join(d, "model.jsonl"))
    rows = [(json.loads(a), json.loads(b), json.loads(c)) for a, b, c in zip(open(os.path.join(d, "cases.jsonl")), open(os.path.join(d, "impl.jsonl")), open(os.path.join(d, "model.jsonl")))]
    K.correspondence(rep, rows, "multi-file lookup", has_blocks)
    cli_correspondence(rep, rows, "multi-file lookup", n_for(tier, 120, 1200), subs=("list",))


def c16_run(rep, tier, seed, tr):
    import cli as C
    rep.rules.append("every registered suffix x 15 file-name shapes (s, b.s, b.x.s, .b.s, b.s.bak, upper case, directories with dots, spaces, trailing dot, ..) x 8 -E maps (none, new extensions, remap of a registered key, remap of a proper suffix of a compound key, remap onto Makefile), plus random dotted names: the grammar class chosen by the real lookup vs the Lean lookup over the regenerated table; -E validation through the binary; non-trivial = a grammar is chosen")
    n = n_for(tier, 3000, 60000)
    rows = K.run_component(rep.prop, "lookup", [], seed, n, tier)
    by_parser = {}
    for ext, parser in tr["ext"]:
        by_parser.setdefault(parser, []).append(ext)
    bad = 0
    for case, impl, model in rows:
        rep.evaluations += 1
        rep.traces += 1
        want = sorted(by_parser[model]) if isinstance(model, str) else None
        got = impl.get("class")
        rep.count("lookup:" + ("grammar" if got else "skipped"))
        if got:
            rep.nontrivial.add(K.canon(case))
        if len(rep.samples) < 3 and got:
            rep.samples.append({"case": case, "impl": impl, "model": model})
        if want != got:
            bad += 1
            if bad <= 3:
                rep.violation({"property": rep.prop, "component": "lookup", "what": "grammar chosen by the real lookup differs from the proved lookup over the regenerated table",
                               "case": case, "impl": impl, "model_parser": model, "model_class": want})
    c16_multi(rep, tier, seed)
    flags_component(rep, tier, seed)
    # -E validation and end-to-end use of a remap through the binary
    scen = [
        (["-E", "cxx=cpp", "list"], {"x.cxx": "// <block name=\"a\">\n// </block>\n"}, 0, "x.cxx"),
        (["-E", "c++=cpp", "-E", "hh=h", "list"], {"d/y.c++": "// <block name=\"a\">\n// </block>\n", "z.hh": "/* <block name=\"b\"> */\n/* </block> */\n"}, 0, "d/y.c++"),
        # a mapping may name a registered suffix that is itself a key (identity, swap): one step is taken, never a chain
        (["-E", "py=py", "list"], {"x.py": "# <block name=\"a\">\n# </block>\n"}, 0, "x.py"),
        (["-E", "h=c", "-E", "c=h", "list"], {"a.h": "// <block name=\"a\">\n// </block>\n", "b.c": "/* <block name=\"b\"> */\n/* </block> */\n"}, 0, "d/y.c++"),
        (["-E", "foo=bar", "list"], {"x.py": "# <block name=\"never-closed\">\n"}, "nonzero", None),
        (["-E", "foo=PY", "list"], {"x.py": "# <block name=\"never-closed\">\n"}, "nonzero", None),
        (["-E", "foo", "list"], {"x.py": "# ok\n"}, "nonzero", None),
        (["list"], {"x.unknown": "# <block name=\"never-closed\">\n", "README": "<block>", "x.PY": "# <block>\n", "x.py.bak": "# <block>\n"}, 0, None),
        (["list"], {"go.mod": "// <block name=\"m\">\n// </block>\n", "sub/go.sum": "// <block name=\"s\">\n// </block>\n", "Makefile": "# <block name=\"k\">\n# </block>\n", "t.d.ts": "// <block name=\"t\">\n// </block>\n"}, 0, "go.mod"),
    ]
    def one(sc):
        args, files, want, listed = sc
        root = C.tmp_root()
        try:
            C.materialise(root, list(files.items()))
            return C.run_bw(root, args, env={"BLOCKWATCH_TERMINAL_MODE": "1"})
        finally:
            import shutil as _sh
            _sh.rmtree(root, ignore_errors=True)
    for (args, files, want, listed), res in zip(scen, C.pmap(one, scen)):
        rep.evaluations += 1
        ok = (res["exit"] == 0) if want == 0 else (res["exit"] not in (0, None) and "not closed" not in res["stderr"])
        if ok and want == 0:
            try:
                obj = json.loads(res["stdout"])
                ok = (listed in obj) if listed else (obj == {})
                if listed == "go.mod":
                    ok = set(obj) == set(files)
                if listed == "d/y.c++":
                    ok = set(obj) == set(files)
            except Exception:
                ok = False
        rep.count("cli-E:" + ("ok" if ok else "bad"))
        if not ok or "panicked" in res["stderr"]:
            rep.violation({"property": rep.prop, "component": "-E through the binary", "args": args, "files": files, "cli": res})


def c16_search(rep, tier, seed, broken):
    """an obligation over the regenerated table broke: look for a registered suffix that no longer wins"""
    with K.Lock():
        K.build_harness()
    d = os.path.join(K.WORK, rep.prop, "search")
    os.makedirs(d, exist_ok=True)
    K.sh([K.BWH, "lookup", "--seed", str(seed), "--n", "0", "--out", d])
    tr = K.translate()
    keys = {e for e, _ in tr["ext"]}
    found = False
    for cl, il in zip(open(os.path.join(d, "cases.jsonl")), open(os.path.join(d, "impl.jsonl"))):
        case, impl = json.loads(cl), json.loads(il)
        if case["extra"]:
            continue
        path = case["path"]
        base = path.rsplit("/", 1)[-1]
        for key in keys:
            wins = base == key or base.endswith("." + key)
            shorter = any(k != key and len(k) < len(key) and (base.endswith("." + k)) for k in keys)
            if wins and not path.endswith("/") and ".." not in path:
                cls = impl.get("class") or []
                if key not in cls and not any(base.endswith("." + k) and len(k) > len(key) for k in keys):
                    rep.violation({"property": rep.prop, "what": f"file name {path!r} ends in the registered suffix {key!r} but is parsed with the grammar class {cls} (a shorter registered suffix shadows it: {shorter})",
                                   "broken_obligation": broken.what, "detail": broken.detail, "case": case, "impl": impl})
                    found = True
                    break
        if found:
            break
    return found


CHECKS["C16"] = {
    "search": c16_search,
    "module": "Bw.Props.C16", "needs_binary": True, "technique": "Lean 4 theorems decided over the extension table regenerated from the source by the translator + differential check of the lookup",
    "trusted_base": TB_COMMON + ["the translator reading `language_parsers()` (cross-checked: the real lookup's grammar classes come from Rc::ptr_eq on the live table)"],
    "run": c16_run,
}


def model_glob_table(prop, queries):
    """[(globs, ignores, path)] -> [(allow, ignore)] according to the Lean glob model (Bw.Glob, the proved matcher)"""
    d = os.path.join(K.WORK, prop, "globq")
    __import__("shutil").rmtree(d, ignore_errors=True); os.makedirs(d)
    with open(os.path.join(d, "cases.jsonl"), "w") as f:
        for g, i, p in queries:
            f.write(json.dumps({"op": "glob", "globs": g, "ignores": i, "path": p}) + "\n")
    K.run_model(os.path.join(d, "cases.jsonl"), os.path.join(d, "model.jsonl"))
    out = []
    for line in open(os.path.join(d, "model.jsonl")):
        m = json.loads(line)
        if "outside" in m:
            raise K.Broken("a generated glob is outside the modelled fragment")
        out.append((m["allow"], m["ignore"]))
    if len(out) != len(queries):
        raise K.Broken("glob model: stream length mismatch")
    return out


C15_EXT = [("py", "# "), ("rs", "// "), ("js", "// "), ("toml", "# "), ("sh", "# "), ("go", "// ")]


def c15_scenario(rnd, k):
    dirs = ["", "src/", "src/deep/", "a/", "b/", "b/b/", "docs/x y/", "v1.2/", "lib/"]
    files = {}
    n = rnd.randint(3, 9)
    for i in range(n):
        ext, c = rnd.choice(C15_EXT)
        d = rnd.choice(dirs)
        name = rnd.choice(["f", "main", "x.y", "n m", "mod"]) + str(i)
        files[f"{d}{name}.{ext}"] = f"{c}<block name=\"k{i}\">\nold{i}\n{c}</block>\n"
    # hidden, git-ignored and grammar-less files (must never be listed unless named by the diff)
    extras = {}
    if rnd.random() < 0.6:
        extras[".hidden.py"] = "# <block name=\"hid\">\nold\n# </block>\n"
    if rnd.random() < 0.4:
        extras[".cfg/inner.py"] = "# <block name=\"hid2\">\nold\n# </block>\n"
    gitignore = []
    if rnd.random() < 0.6:
        extras["secret.py"] = "# <block name=\"ign\">\nold\n# </block>\n"; gitignore.append("secret.py")
    if rnd.random() < 0.4:
        extras["out/gen.rs"] = "// <block name=\"ign2\">\nold\n// </block>\n"; gitignore.append("out/")
    if rnd.random() < 0.3:
        extras["notes.log.py"] = "# <block name=\"ign3\">\nold\n# </block>\n"; gitignore.append("*.log.py")
    if rnd.random() < 0.5:
        extras["README.txt"] = "# <block name=\"never-closed\">\n"
    allf = dict(files); allf.update(extras)
    if gitignore:
        allf[".gitignore"] = "\n".join(gitignore) + "\n"
    paths = sorted(files)
    # globs may also point INTO hidden or git-ignored places (a literal leading directory, an explicit path): the walk never
    # yields those files, so such a glob must not bring them into scope
    shy = sorted(p for p in extras if p != "README.txt")
    def some_glob():
        p = rnd.choice(shy) if shy and rnd.random() < 0.25 else rnd.choice(paths)
        ext = p.rsplit(".", 1)[1]
        d = p.rsplit("/", 1)[0] if "/" in p else None
        forms = ["*." + ext, p, "**/" + p.rsplit("/", 1)[-1], "**/*." + ext]
        if d:
            forms += [d + "/**", d.split("/")[0] + "/**", d + "/*." + ext]
        return rnd.choice(forms)
    globs = [some_glob() for _ in range(rnd.choice([0, 0, 1, 1, 2, 3]))]
    ignores = [some_glob() for _ in range(rnd.choice([0, 0, 1, 1, 2, 3]))]
    with_diff = rnd.random() < 0.6
    diff_files = []
    if with_diff:
        cand = paths + list(extras)
        cand = [c for c in cand if c != "README.txt"] + (["README.txt"] if "README.txt" in extras and rnd.random() < 0.3 else [])
        diff_files = rnd.sample(cand, min(len(cand), rnd.randint(0, 3)))
    diff = ""
    for p in diff_files:
        # one entry in three is a rename / copy: the `---` side names another path (existing or not, possibly ignored
        # or outside the globs); only the `+++` path is in scope
        src = p
        if rnd.random() < 0.33:
            src = rnd.choice([q for q in list(allf) if q != p] + ["legacy/old_" + p.rsplit("/", 1)[-1], "b/" + p])
        head = f"diff --git a/{src} b/{p}\n" + (f"similarity index 90%\nrename from {src}\nrename to {p}\n" if src != p else "")
        diff += head + f"index 1..2 100644\n--- a/{src}\n+++ b/{p}\n@@ -2 +2 @@\n-older\n+" + allf[p].split("\n")[1] + "\n"
    sub = rnd.choice(["", "", "src", "b/b", "docs/x y"])
    hidden = lambda p: any(part.startswith(".") for part in p.split("/"))
    ignored_git = lambda p: p == "secret.py" and "secret.py" in gitignore or p.startswith("out/") and "out/" in gitignore or p.endswith(".log.py") and "*.log.py" in gitignore
    terminal = not with_diff
    eff_globs = globs if globs else (["**"] if terminal else [])
    scan = bool(eff_globs)
    walk = [p for p in allf if not hidden(p) and not ignored_git(p)]
    # `allow` / `ignore` are filled in from the Lean glob model (c15_fill_scope)
    raw = {"files": [{"path": p, "text": t} for p, t in allf.items()], "walk": walk, "allow": None, "ignore": None, "scan": scan,
           "meta": {"gen": "scope", "k": k, "globs": globs, "eff_globs": eff_globs, "ignores": ignores, "sub": sub, "terminal": terminal, "diff_files": diff_files}}
    if with_diff:
        raw["diff"] = diff
    return raw


def c15_fill_scope(prop, raws):
    """which paths the positional / --ignore globs of each scenario select, per the Lean glob model"""
    queries, where = [], []
    for r in raws:
        for f in r["files"]:
            queries.append((r["meta"]["eff_globs"], r["meta"]["ignores"], f["path"]))
            where.append((r, f["path"]))
    for r in raws:
        r["allow"], r["ignore"] = [], []
    for (r, p), (a, i) in zip(where, model_glob_table(prop, queries)):
        if a and p in r["walk"]:
            r["allow"].append(p)
        if i:
            r["ignore"].append(p)


def flags_component(rep, tier, seed):
    """`-E` / `-e` / `-d` values through the real clap parser + `Args::validate` (in-process) vs `Bw.Flags.startup`"""
    rep.rules.append("0-3 `-E KEY=VALUE` values (registered / unregistered / upper-case / padded / empty targets, missing or doubled `=`, repeated keys) x `--enable` / `--disable` / both / neither with 1-3 names (registered, upper case, padded, fragments, empty, comma lists): accepted or rejected, and the accepted sets and `-E` map, by `Args::try_parse_from` + `Args::validate` in-process vs the Lean model of flags.rs; non-trivial = the command line is accepted")
    n = n_for(tier, 4000, 80000)
    rows = K.run_component(rep.prop, "flags", [], seed, n, tier)
    bad = 0
    for case, impl, model in rows:
        rep.evaluations += 1
        rep.traces += 1
        rep.count("flags:" + ("accepted" if "ok" in impl else "panic" if "panic" in impl else "rejected"))
        if "ok" in impl:
            rep.nontrivial.add(K.canon({k: case[k] for k in ("E", "e", "d")}))
        if impl != model:
            bad += 1
            if bad <= 3:
                rep.violation({"property": rep.prop, "component": "flags (in-process)",
                               "what": "the real option handling (clap value parsers + Args::validate) and the proved model of flags.rs disagree",
                               "case": case, "impl": impl, "model": model})


def c15_globs(rep, tier, seed):
    """globset + flag parsing + PathCheckerImpl (in-process) vs the Lean glob model on generated (glob set, path) pairs"""
    n = n_for(tier, 60000, 1500000)
    rows = K.run_component(rep.prop, "glob", [], seed, n, tier)
    bad = 0
    for case, impl, model in rows:
        rep.evaluations += 1
        rep.traces += 1
        if "outside" in model:
            rep.count("glob:outside-fragment")
            continue
        key = "glob:" + ("err" if "allow" not in impl else f"allow={impl['allow']},ignore={impl['ignore']}")
        rep.count(key)
        if impl.get("allow") or impl.get("ignore"):
            rep.nontrivial.add(K.canon(case))
        if impl != model:
            bad += 1
            if bad <= 3:
                rep.violation({"property": rep.prop, "component": "globs (in-process)",
                               "what": "the real glob set (flags -> globset -> PathCheckerImpl) and the proved glob matcher disagree on a path",
                               "case": case, "impl": impl, "model": model})
    if len(rep.samples) < 4 and rows:
        rep.samples.append({"case": rows[0][0], "impl": rows[0][1], "model": rows[0][2]})


def c15_escaped_globs(rep, tier, seed):
    """globs outside the modelled fragment, decided by a direct oracle on the implementation: a path whose characters are all
    escaped with a backslash is a glob that matches that path and no other (globset's documented escape; `[x]` matches x)"""
    import random
    rnd = random.Random(seed + 15)
    n = n_for(tier, 600, 6000)
    rep.rules.append(f"{n} escaped-literal globs (paths with `[ ] {{ }} * ? !` in their names, every metacharacter escaped with a backslash or wrapped in a one-character class) as positional and as --ignore globs, against the path itself and against damaged copies; direct oracle on the real flag parsing + globset: matches the path itself, nothing else")
    pieces = ["app", "[slug]", "[id]", "{a,b}", "x*y", "what?", "!neg", "[...rest]", "src", "n m", "é", "a.b", "(group)", "[[x]]", "]", "{"]
    meta = set("*?[]{}\\")
    def esc(p, mode):
        out = []
        for ch in p:
            if ch in meta:
                out.append("\\" + ch if mode == 0 or ch in "]\\" else "[" + ch + "]")
            else:
                out.append(ch)
        return "".join(out)
    queries = []
    for k in range(n):
        depth = rnd.randint(1, 3)
        path = "/".join(rnd.choice(pieces) for _ in range(depth)) + rnd.choice([".py", ".rs", "", ".md"])
        if not any(c in meta for c in path):
            path = "[slug]/" + path
        g = esc(path, rnd.randint(0, 1))
        # a damaged copy: one metacharacter of the path replaced by a letter, or dropped
        idx = [i for i, c in enumerate(path) if c in meta]
        i = rnd.choice(idx)
        other = path[:i] + rnd.choice(["x", ""]) + path[i + 1:]
        as_ignore = rnd.random() < 0.5
        for target, same in ((path, True), (other, False)):
            if other == path and not same:
                continue
            queries.append(({"op": "glob", "globs": ["**"] if as_ignore else [g], "ignores": [g] if as_ignore else [], "path": target,
                             "meta": {"gen": "escaped-glob"}}, same, as_ignore))
    d = os.path.join(K.WORK, rep.prop, "escaped_globs")
    _sh = __import__("shutil"); _sh.rmtree(d, ignore_errors=True); os.makedirs(d)
    with open(os.path.join(d, "raw.jsonl"), "w") as f:
        for q, _, _ in queries:
            f.write(json.dumps(q) + "\n")
    K.sh([K.BWH, "replay", "--out", d, os.path.join(d, "raw.jsonl")])
    impls = [json.loads(l) for l in open(os.path.join(d, "impl.jsonl"))]
    if len(impls) != len(queries):
        raise K.Broken("escaped globs: stream length mismatch")
    bad = 0
    for (q, same, as_ignore), im in zip(queries, impls):
        rep.evaluations += 1
        got = im.get("ignore") if as_ignore else im.get("allow")
        rep.count(f"escaped glob:{'ignore' if as_ignore else 'allow'}:{'self' if same else 'other'}:{got}")
        if same:
            rep.nontrivial.add(("escaped", q["path"], as_ignore))
        if "err" in im or got != same:
            bad += 1
            if bad <= 3:
                rep.violation({"property": rep.prop, "component": "escaped-literal globs (direct oracle)",
                               "what": f"the {'--ignore' if as_ignore else 'positional'} glob {(q['ignores'] or q['globs'])[0]!r} (every metacharacter of the path {q['path']!r} escaped) must {'match' if same else 'not match'} {q['path']!r}",
                               "case": q, "impl": im})
    if bad > 3:
        print(f"  ({bad} failing escaped-glob queries; first 3 written as replays)")


def c15_run(rep, tier, seed, tr):
    import cli as C, random
    c15_escaped_globs(rep, tier, seed)
    rep.rules.append("glob sets: 1-3 positional and 0-2 --ignore globs built from literal pieces (ASCII, spaces, dots, `]`, `,`, `!`, multi-byte UTF-8), `?`, `*`, `**`, `/` in every combination plus the documented forms, against paths derived from the globs (wildcards expanded, then damaged) or random; the real flag parsing + globset + PathCheckerImpl in-process vs the Lean matcher; non-trivial = some glob matches")
    c15_globs(rep, tier, seed)
    rep.rules.append("generated trees (nested directories incl. a/ b/ b/b/, names with spaces and dots, hidden files and directories, .gitignore with exact / directory / *.ext entries, grammar-less files) x 0-3 positional globs x 0-3 --ignore globs from the documented forms x diffs naming files inside / outside the globs (incl. hidden and git-ignored ones) x start directory (root or a subdirectory); the set of files `list` prints vs the model's scope formula and the in-process parse_blocks; non-trivial = at least one file listed")
    n = n_for(tier, 300, 3000)
    rnd = random.Random(seed)
    raws = [c15_scenario(rnd, k) for k in range(n)]
    c15_fill_scope(rep.prop, raws)
    d = os.path.join(K.WORK, rep.prop, "scope")
    _sh = __import__("shutil"); _sh.rmtree(d, ignore_errors=True); os.makedirs(d)
    with open(os.path.join(d, "raw.jsonl"), "w") as f:
        for r in raws:
            f.write(json.dumps(r) + "\n")
    K.sh([K.BWH, "replay", "--out", d, os.path.join(d, "raw.jsonl")])
    K.run_model(os.path.join(d, "cases.jsonl"), os.path.join(d, "model.jsonl"))
    rows = [(json.loads(a), json.loads(b), json.loads(c)) for a, b, c in zip(open(os.path.join(d, "cases.jsonl")), open(os.path.join(d, "impl.jsonl")), open(os.path.join(d, "model.jsonl")))]
    K.correspondence(rep, rows, "scope (in-process)", has_blocks)
    def one(row):
        case = row[0]; m = case["meta"]
        root = C.tmp_root()
        try:
            C.materialise(root, [(f["path"], f["text"]) for f in case["files"]])
            args = []
            for g in m["ignores"]:
                args += ["--ignore", g]
            args += ["list"] + m["globs"]
            env = {"BLOCKWATCH_TERMINAL_MODE": "1"} if m["terminal"] else {}
            cwd = os.path.join(root, m["sub"]) if m["sub"] else root
            os.makedirs(cwd, exist_ok=True)
            return C.run_bw(cwd, args, stdin=case.get("diff"), env=env)
        finally:
            _sh.rmtree(root, ignore_errors=True)
    for (case, impl, model), res in zip(rows, C.pmap(one, rows)):
        rep.evaluations += 1
        rep.traces += 1
        out = C.outcome_list(res)
        diffs = C.compare_cli_list(out, model)
        rep.count("scope:cli:" + ("panic" if "panic" in out else "err" if "ctx" in out else f"{len(out.get('list', {}))}files"))
        if diffs:
            rep.violation({"property": rep.prop, "component": "scope (CLI list)", "what": "the set of files / blocks listed by the binary differs from the scope formula",
                           "case": case, "cli": res, "model": model, "differences": [{"field": f, "cli": a, "model_and_spec": b} for f, a, b in diffs]})
    # repository root discovery
    def root_case(kind):
        root = C.tmp_root()
        try:
            if kind == "nested":
                C.materialise(root, [("a.py", "# <block name=\"outer\">\n# </block>\n"), ("inner/b.py", "# <block name=\"inner\">\n# </block>\n")])
                os.makedirs(os.path.join(root, "inner", ".git"))
                os.makedirs(os.path.join(root, "inner", "deep"))
                return C.run_bw(os.path.join(root, "inner", "deep"), ["list"], env={"BLOCKWATCH_TERMINAL_MODE": "1"})
            if kind == "hg-in-git":
                # the NEAREST directory holding a repository marker is the root, whatever kind of marker it is
                C.materialise(root, [("a.py", "# <block name=\"outer\">\n# </block>\n"), ("vendor/p/b.py", "# <block name=\"inner\">\n# </block>\n")])
                os.makedirs(os.path.join(root, "vendor", "p", ".hg"))
                os.makedirs(os.path.join(root, "vendor", "p", "lib"))
                return C.run_bw(os.path.join(root, "vendor", "p", "lib"), ["list"], env={"BLOCKWATCH_TERMINAL_MODE": "1"})
            if kind == "git-in-hg":
                C.materialise(root, [("a.py", "# <block name=\"outer\">\n# </block>\n"), ("vendor/p/b.py", "# <block name=\"inner\">\n# </block>\n")], git_marker=False)
                os.makedirs(os.path.join(root, ".hg"))
                os.makedirs(os.path.join(root, "vendor", "p", ".git"))
                return C.run_bw(os.path.join(root, "vendor", "p"), ["list"], env={"BLOCKWATCH_TERMINAL_MODE": "1"})
            if kind == "hg":
                C.materialise(root, [("a.py", "# <block name=\"x\">\n# </block>\n")], git_marker=False)
                os.makedirs(os.path.join(root, ".hg")); os.makedirs(os.path.join(root, "s"))
                return C.run_bw(os.path.join(root, "s"), ["list"], env={"BLOCKWATCH_TERMINAL_MODE": "1"})
            C.materialise(root, [("a.py", "# ok\n")], git_marker=False)
            return C.run_bw(root, ["list"], env={"BLOCKWATCH_TERMINAL_MODE": "1"})
        finally:
            _sh.rmtree(root, ignore_errors=True)
    for kind, check in [("nested", lambda r: r["exit"] == 0 and set(json.loads(r["stdout"])) == {"b.py"}),
                        ("hg", lambda r: r["exit"] == 0 and set(json.loads(r["stdout"])) == {"a.py"}),
                        ("hg-in-git", lambda r: r["exit"] == 0 and set(json.loads(r["stdout"])) == {"b.py"}),
                        ("git-in-hg", lambda r: r["exit"] == 0 and set(json.loads(r["stdout"])) == {"b.py"}),
                        ("none", lambda r: r["exit"] not in (0, None) and "panicked" not in r["stderr"] and r["stderr"].strip() != "" and r["stdout"].strip() == "")]:  # a readable error, whatever its wording
        res = root_case(kind)
        rep.evaluations += 1
        ok = False
        try:
            ok = check(res)
        except Exception:
            ok = False
        rep.count(f"root:{kind}:" + ("ok" if ok else "bad"))
        if not ok:
            rep.violation({"property": rep.prop, "component": f"repository root ({kind})", "cli": res})


CHECKS["C15"] = {
    "module": "Bw.Props.C15", "needs_binary": True,
    "level_note": DEFAULT_LEVEL_NOTE + " Partial: the `ignore` crate's walk (hidden / git-ignored files) is a dependency whose expectations are stated in the scenario generator; `globset` is modelled (parser + matcher, fragment without classes / alternates / escapes) and tied by the in-process correspondence.",
    "trusted_base": TB_COMMON + ["hidden/.gitignore expectations in checks/registry.py (c15_scenario)", "glob fragment: `[..]`, `{..}` and `\\` escapes are outside the Lean glob model"],
    "run": c15_run,
}


def oracle_no_crash(case, impl):
    if "panic" in impl:
        return [f"panic: {impl['panic']}"]
    if impl.get("exit") not in (0, 1):
        return [f"exit status {impl.get('exit')}"]
    return []


def c04_run(rep, tier, seed, tr):
    rep.rules.append("per suffix (39, round robin): token soups over comment delimiters of every language, tag fragments, quotes, brackets, newlines/CRLF, NBSP / emoji / combining / zero-width / U+2028 / NUL characters, and char-level mutations (delete, insert token, cut, swap, duplicate) of well-formed generated files; scan mode, diff mode with arbitrary line changes, one-hunk diffs, token-soup diffs; each case under catch_unwind in-process and a prefix through the binary with a 20 s timeout; non-trivial = the file has at least one comment node")
    n = n_for(tier, 40000, 600000)
    rows = K.run_component(rep.prop, "soup", [], seed, n, tier)
    def nontrivial(case, impl, model):
        return any(f.get("nodes") for f in case["files"])
    K.correspondence(rep, rows, "soup", nontrivial, known=K.load_known(rep.prop), oracle=oracle_no_crash)
    cli_correspondence(rep, rows, "soup", n_for(tier, 300, 3000), subs=("validate", "list"), known=K.load_known(rep.prop))
    c04_large(rep, tier)


def c04_large(rep, tier):
    """size is an input too: long comments, many stray `<`, many tags in one comment, deep nesting, many blocks, long lines,
    big diffs - through the binary (a stack overflow or an abort cannot be caught in-process), scan / list / diff mode"""
    import cli as C, shutil as _sh
    k = 60000 if tier == "quick" else 400000
    rep.rules.append(f"large inputs through the binary ({k} repetitions each): one comment with that many stray `<` / foreign tags / look-alikes / unterminated tags, that many tags in one comment, nesting that deep, that many sibling blocks, one line that long, a diff touching every line; scan, list and diff mode; terminates within 120 s with exit 0 or 1 and no panic / abort")
    deep = k // 20
    files = {
        "stray.xml": "<r>\n<!-- " + "<e>1</e>" * k + " -->\n<!-- <block name=\"a\" keep-sorted> -->\n<x>a</x>\n<x>b</x>\n<!-- </block> -->\n</r>\n",
        "angles.c": "/* " + "< " * k + " <block name=\"b\"> */\nint x;\n/* </block> */\n",
        "lookalike.py": "# " + "<blockquote> <block/> </ blok> " * (k // 8) + "\n# <block name=\"c\">\n# </block>\n",
        "openquote.js": "// " + "<block a=\"q " * (k // 8) + "\n// <block name=\"d\">\n// </block>\n",
        "manytags.rs": "/* " + "<block name=\"m\"> </block> " * (k // 20) + "*/\n",
        "deep.py": "".join(f"# <block name=\"n{i}\">\n" for i in range(deep)) + "x = 1\n" + "# </block>\n" * deep,
        "siblings.go": "package main\n" + "".join(f"// <block name=\"s{i}\" line-count=\">=0\">\nvar a{i} = {i}\n// </block>\n" for i in range(k // 20)),
        "longline.toml": "# <block name=\"l\" line-pattern=\"^k\">\nk = \"" + "v" * (k * 10) + "\"\n# </block>\n",
        "sorted.yaml": "# <block name=\"y\" keep-sorted keep-unique>\n" + "".join(f"- k{i:07d}\n" for i in range(k // 4)) + "# </block>\n",
    }
    def one(name):
        root = C.tmp_root()
        try:
            C.materialise(root, [(name, files[name])])
            out = []
            out.append(("scan", C.run_bw(root, [name], env={"BLOCKWATCH_TERMINAL_MODE": "1"}, timeout=120)))
            out.append(("list", C.run_bw(root, ["list", name], env={"BLOCKWATCH_TERMINAL_MODE": "1"}, timeout=120)))
            n = files[name].count("\n")
            body = "".join("+" + l + "\n" for l in files[name].split("\n")[:-1])
            diff = f"diff --git a/{name} b/{name}\nnew file mode 100644\nindex 0000000..1111111\n--- /dev/null\n+++ b/{name}\n@@ -0,0 +1,{n} @@\n" + body
            out.append(("diff", C.run_bw(root, [], stdin=diff, timeout=120)))
            return out
        finally:
            _sh.rmtree(root, ignore_errors=True)
    # options are input too: `-E` maps whose values are keys (identity, swap, longer cycles) with files on the cycle
    def cyc(args_files):
        args, fs = args_files
        root = C.tmp_root()
        try:
            C.materialise(root, list(fs.items()))
            return C.run_bw(root, args, env={"BLOCKWATCH_TERMINAL_MODE": "1"}, timeout=60)
        finally:
            _sh.rmtree(root, ignore_errors=True)
    cyc_cases = [(["-E", "py=py", "list"], {"x.py": "# <block name=\"a\">\n# </block>\n"}),
                 (["-E", "h=c", "-E", "c=h"], {"a.h": "// <block name=\"a\">\n// </block>\n", "b.c": "/* <block name=\"b\"> */\n/* </block> */\n"}),
                 (["-E", "js=ts", "-E", "ts=tsx", "-E", "tsx=js", "list"], {"a.js": "// <block name=\"a\">\n// </block>\n", "b.tsx": "// <block name=\"b\">\n// </block>\n"})]
    for (args, fs), res in zip(cyc_cases, C.pmap(cyc, cyc_cases, workers=3)):
        rep.evaluations += 1
        rep.traces += 1
        rep.nontrivial.add("cyclic-E:" + " ".join(args))
        bad = res.get("timeout") or res["exit"] not in (0, 1) or "panicked at" in res["stderr"]
        rep.count("cyclic -E:" + ("BAD" if bad else f"exit{res['exit']}"))
        if bad:
            rep.violation({"property": rep.prop, "component": "cyclic -E map", "what": "an -E map whose values are keys makes the binary hang or crash",
                           "args": args, "files": fs, "cli": {"exit": res.get("exit"), "timeout": res.get("timeout", False), "stderr": res["stderr"][:400]}})
    names = sorted(files)
    for name, outs in zip(names, C.pmap(one, names, workers=9)):
        for mode, res in outs:
            rep.evaluations += 1
            rep.traces += 1
            rep.nontrivial.add(f"large:{name}:{mode}")
            bad = res.get("timeout") or res["exit"] not in (0, 1) or "panicked at" in res["stderr"] or "overflowed its stack" in res["stderr"]
            rep.count(f"large:{mode}:" + ("BAD" if bad else f"exit{res['exit']}"))
            if bad:
                rep.violation({"property": rep.prop, "component": f"large inputs ({mode})", "what": "a large input makes the binary crash, abort or run out of time",
                               "file": name, "size_bytes": len(files[name]), "how_to_rebuild": "checks/registry.py c04_large builds the file from one repeated piece",
                               "head": files[name][:300], "cli": {"exit": res.get("exit"), "timeout": res.get("timeout", False), "stderr": res["stderr"][:600]}})


CHECKS["C04"] = {
    "module": "Bw.Props.C04", "needs_binary": True,
    "level_note": DEFAULT_LEVEL_NOTE + " Partial: panics of Rust slicing/arithmetic that the total Lean functions cannot exhibit, unidiff / regex / similar / tree-sitter C code, allocation failure and stack depth are exercised by the fuzzing correspondence (catch_unwind, timeouts), not proved.",
    "trusted_base": TB_COMMON + ["tree-sitter contract: HTML/XML comment nodes start with `<!--` and end with `-->` (assumed by xml_ok_of_contract, monitored: a violation shows up as a panic replay)"],
    "run": c04_run,
}


def c17_pre(prop):
    import lua_caps
    lua_caps.pre(prop)


def c17_run(rep, tier, seed, tr):
    import lua_caps as L
    rep.rules.append("the probe script is executed by the real binary in 7 settings of BLOCKWATCH_LUA_MODE (unset, sandboxed, safe, unsafe, garbage, empty, SAFE); the reachable graph (tables, functions, metatables; from _G, the string metatable and getmetatable of every value) is emitted as a Lean literal and the allow-list check is decided by the kernel (theorem default_dump_ok); plus a battery of 17 concrete escape attempts per mode; every run non-trivial")
    dumps = L.collect()
    for name, d in dumps.items():
        rep.evaluations += 1
        rep.nontrivial.add(name)
        if d.get("load_vs_validate_diff"):
            rep.violation({"property": rep.prop, "component": f"probe ({name})",
                           "what": "the functions reachable while the script is loaded differ from those reachable inside validate()",
                           "function_paths_only_in_one_phase": d["load_vs_validate_diff"]})
        rep.count(f"probe:{name}:nodes={d['n']}:functions={len(d['fns'])}")
    rep.samples.append({"mode": "unset", "globals": dumps["unset"]["globals"], "nodes": dumps["unset"]["n"], "edges": len(dumps["unset"]["edges"]),
                        "function_paths": [l for i, l in dumps["unset"]["labels"] if i in set(dumps["unset"]["fns"])][:40]})
    rep.extra["lua_mode_arms"] = tr["lua"]
    c17_escape(rep)
    c17_many_blocks(rep, tier)


def c17_many_blocks(rep, tier):
    """the environment every block's script sees when MANY scripted blocks share one run (more blocks than worker threads, so
    interpreters that are pooled, recycled or shared would be handed to later blocks): each of them must see exactly what the
    single block of a fresh run sees in that mode, and in the sandboxed modes none of the loaders / libraries"""
    import cli as C, lua_caps as L, shutil as _sh
    rep.rules.append("72 (thorough: 240) scripted blocks over 3 files in one run per mode (unset, garbage, safe): every block's fingerprint (global names with kinds at load time and inside validate(), outcome of 8 escape attempts) equals the fingerprint of a single-block run in the same mode")
    mprobe = open(os.path.join(K.ROOT, "tools", "lua", "mprobe.lua")).read()
    per_file = 24 if tier == "quick" else 80
    def run(mode, nfiles, nblocks):
        root = C.tmp_root()
        try:
            files = [("mprobe.lua", mprobe), ("secret.lua", "return \"secret-value\"\n")]
            for f in range(nfiles):
                files.append((f"m{f}.py", "".join(f"# <block name=\"p{f}_{b}\" check-lua=\"mprobe.lua\">\nx{b}\n# </block>\n" for b in range(nblocks))))
            C.materialise(root, files)
            env = {"BLOCKWATCH_TERMINAL_MODE": "1"}
            if mode is not None:
                env["BLOCKWATCH_LUA_MODE"] = mode
            return C.run_bw(root, [f"m{f}.py" for f in range(nfiles)], env=env, timeout=300)
        finally:
            _sh.rmtree(root, ignore_errors=True)
    def messages(res):
        try:
            obj = json.loads(res["stderr"])
            return [d["data"]["lua_error"] for ds in obj.values() for d in ds]
        except Exception:
            return None
    for name, mode in [("unset", None), ("garbage", "totally-unknown"), ("safe", "safe")]:
        single = messages(run(mode, 1, 1))
        res = run(mode, 3, per_file)
        many = messages(res)
        rep.evaluations += 1
        rep.traces += 1
        if not single or many is None or len(many) != 3 * per_file:
            rep.violation({"property": rep.prop, "component": f"many blocks ({name})", "what": "the fingerprint script did not report once per block",
                           "single": single, "reports": None if many is None else len(many), "cli": {k: (v[:2000] if isinstance(v, str) else v) for k, v in res.items()}})
            continue
        rep.nontrivial.add("many:" + name)
        odd = sorted(set(m for m in many if m != single[0]))
        leaked = [m for m in many + single if name != "safe" and m.count("esc[]") != 2]
        rep.count(f"many-blocks:{name}:{len(many)}blocks:" + ("all-equal-fresh" if not odd else "DIFFER"))
        if odd or leaked:
            rep.violation({"property": rep.prop, "component": f"many blocks ({name})",
                           "what": "a block's script saw another environment than the script of a fresh single-block run (or a sandboxed script reached a loader / library)",
                           "mode": mode, "fresh_single_block": single[0], "differing_fingerprints": odd[:3], "blocks_differing": sum(1 for m in many if m != single[0]), "of": len(many)})


def c17_escape(rep):
    """the battery of concrete escape attempts, per mode; returns True when an escape was found"""
    import lua_caps as L
    found = False
    escape = open(os.path.join(K.ROOT, "tools", "lua", "escape.lua")).read()
    sandbox_like = ["unset", "sandboxed", "garbage", "empty", "upper"]
    for name, mode in L.MODES:
        res, written, victim = L.run_script(escape, mode)
        msg = L.lua_message(res)
        rep.evaluations += 1
        rep.traces += 1
        if not msg:
            rep.violation({"property": rep.prop, "component": f"escape battery ({name})", "what": "the escape battery did not run", "cli": res})
            continue
        outcome = dict(x.split("=", 1) for x in msg.split("|"))
        rep.count(f"escape:{name}:escaped={sorted(k for k, v in outcome.items() if v != 'blocked')}")
        if name in sandbox_like:
            # loading an in-memory binary chunk made by string.dump stays inside the base/string facilities the
            # property allows (recorded as informational finding F6 in DESIGN.md); it is reported in the histogram only
            bad = {k: v for k, v in outcome.items() if v != "blocked" and not k.endswith("load-binary")}
            if bad or written or not victim:
                found = True
                rep.violation({"property": rep.prop, "component": f"escape battery ({name})",
                               "what": "a default-mode script reached the file system, the OS, a loader or the host",
                               "script": "tools/lua/escape.lua", "mode": mode, "escaped": bad, "file_written": written, "victim_removed": not victim, "cli": res})
        elif name == "safe":
            need = ["io.open", "os.getenv", "package.path", "dofile", "require", "load:io.open", "captured:io"]
            missing = [k for k in need if outcome.get(k) == "blocked" and k not in ("require",)]
            native = {k: v for k, v in outcome.items() if k.endswith("package.loadlib") and v != "blocked"}
            if missing or native or outcome.get("debug.getregistry") != "blocked" or outcome.get("_G.debug") != "blocked":
                rep.violation({"property": rep.prop, "component": "escape battery (safe)", "what": "safe mode must add io, os, package and nothing else (no debug, no loading of native modules: only `unsafe` adds those)", "outcome": outcome, "native_module_loading": native, "cli": res})
        elif name == "unsafe":
            if outcome.get("debug.getregistry") == "blocked" or outcome.get("io.open") == "blocked":
                rep.violation({"property": rep.prop, "component": "escape battery (unsafe)", "what": "unsafe mode must add debug and keep io/os/package", "outcome": outcome, "cli": res})


    # nothing written on the BLOCK may widen the sandbox: only BLOCKWATCH_LUA_MODE selects the mode. The battery once more in the
    # default mode with attributes a script author might try (or a later version might introduce) asking for more
    for label, attrs in [("asks-unsafe", ' check-lua-mode="unsafe" lua-mode="unsafe" mode="unsafe" sandbox="off" unsafe check-lua-unsafe="true" check-lua-sandbox="false" trusted="true" check-lua-libs="io,os,package,debug"'),
                         ("asks-safe", ' check-lua-mode="safe" lua-mode="safe" mode="safe" safe check-lua-safe="true" check-lua-env="safe"')]:
        res, written, victim = L.run_script(escape, None, extra_attrs=attrs)
        msg = L.lua_message(res)
        rep.evaluations += 1
        rep.traces += 1
        if not msg:
            rep.violation({"property": rep.prop, "component": f"escape battery (default mode, block {label})", "what": "the escape battery did not run", "cli": res})
            continue
        outcome = dict(x.split("=", 1) for x in msg.split("|"))
        bad = {k: v for k, v in outcome.items() if v != "blocked" and not k.endswith("load-binary")}
        rep.count(f"escape:block-{label}:escaped={sorted(bad)}")
        if bad or written or not victim:
            found = True
            rep.violation({"property": rep.prop, "component": f"escape battery (default mode, block {label})",
                           "what": "attributes on the block widened the default-mode sandbox (only BLOCKWATCH_LUA_MODE selects the mode)",
                           "block_attributes": attrs, "escaped": bad, "file_written": written, "victim_removed": not victim, "cli": res})
    return found


def c17_search(rep, tier, seed, broken):
    with K.Lock():
        K.build_repo_binary()
    return c17_escape(rep)


CHECKS["C17"] = {
    "module": "Bw.Props.C17", "needs_binary": True, "pre": c17_pre, "search": c17_search,
    "technique": "Lean 4 theorems: translated mode table + reachability soundness; the capability graph dumped from the real interpreter on every run is decided by the Lean kernel (decide +kernel)",
    "level_note": DEFAULT_LEVEL_NOTE + " Partial: the C bodies of the allow-listed Lua 5.4 built-ins and mlua's memory safety are trusted; what each built-in can do is taken from the Lua reference manual.",
    "trusted_base": ["Lean 4.33.0 kernel (decide +kernel on the dumped graph); axioms per theorem under coverage.theorems",
                     "tools/translate.py (match arms of lua_from_env)", "tools/lua/probe.lua runs inside the sandbox it inspects: a value it cannot enumerate (upvalues, registry) is not in the graph",
                     "checks/lua_caps.py labelling of function nodes by their shortest key path", "Lua 5.4 reference manual for the authority of each allow-listed built-in"],
    "run": c17_run,
}


def c18_run(rep, tier, seed, tr):
    import cli as C, random, shutil as _sh
    rep.rules.append("1-3 files with 1-12 (thorough: 1-40) scripted blocks; scripts: echo / busy-loop echo (arguments returned between separators and compared verbatim with the model's rendering of file, line, attributes, content), nil, fixed string, and failing ones (syntax error, runtime error, top-level error, missing validate, number / table / boolean result, missing file) on any subset; contents with Unicode, quotes, tabs, blank lines; check-lua-pattern with value group / whole match / no match / invalid regex; in-process runs plus the binary under 1 / 4 / 16 runtime workers and pinned to one core; a safe-mode counting script checks that every block is called exactly once; non-trivial = at least 2 scripted blocks")
    n = n_for(tier, 700, 8000)
    def nontrivial(case, impl, model):
        return case["meta"]["blocks"] >= 2
    # cases with 30-40 scripted blocks carry large oracle tables: chunks of 2 000 keep the harness and the driver small
    sel, chunk, k = [], 2000, 0
    want_sel = n_for(tier, 24, 300)
    while k * chunk < n:
        rows = K.run_component(rep.prop, "lua", [], seed + 7919 * k, min(chunk, n - k * chunk), tier)
        K.correspondence(rep, rows, "lua", nontrivial, known=K.load_known(rep.prop), oracle=oracle_fail_closed)
        sel += [r for r in rows if "err" not in r[2].get("ctx", {})][:max(0, want_sel - len(sel))]
        k += 1
        del rows
    variants = [("workers-1", {"env_extra": {"TOKIO_WORKER_THREADS": "1"}}), ("workers-4", {"env_extra": {"TOKIO_WORKER_THREADS": "4"}}),
                ("workers-16", {"env_extra": {"TOKIO_WORKER_THREADS": "16"}}), ("one-core", {"prefix": ["taskset", "-c", "0"]})]
    def one(row):
        return [(name, C.run_case_cli(row[0], **kw)) for name, kw in variants]
    for (case, impl, model), outs in zip(sel, C.pmap(one, sel, workers=8)):
        for name, res in outs:
            rep.evaluations += 1
            rep.traces += 1
            out = C.outcome_validate(res)
            diffs = C.compare_cli_validate(out, model)
            rep.count(f"lua:cli:{name}:" + ("panic" if "panic" in out else f"exit{out.get('exit')}"))
            if diffs:
                rep.violation({"property": rep.prop, "component": f"lua (CLI {name})", "what": "the binary disagrees with the model under this schedule",
                               "case": case, "cli": res, "model": model, "differences": [{"field": f, "cli": a, "model_and_spec": b} for f, a, b in diffs]})
                break
    # exactly one call per scripted block (safe mode script appends to a log)
    rnd = random.Random(seed)
    count_script = os.path.join(K.ROOT, "tools", "lua", "count.lua")
    def count_case(k):
        nblocks = rnd.randint(1, 12 if tier == "quick" else 40)
        nfiles = rnd.randint(1, 3)
        files, expected = {}, []
        for b in range(nblocks):
            p = f"c{b % nfiles}.py"
            cur = files.get(p, "")
            line = cur.count("\n") + 1
            scripted = rnd.random() < 0.8
            attr = f' check-lua="{count_script}"' if scripted else ""
            files[p] = cur + f"# <block name=\"n{b}\"{attr}>\nx{b}\n# </block>\n"
            if scripted:
                expected.append(f"{p}:{line}")
        return files, sorted(expected)
    cases = [count_case(k) for k in range(n_for(tier, 12, 80))]
    def run_count(c):
        files, expected = c
        root = C.tmp_root()
        try:
            C.materialise(root, list(files.items()))
            log = os.path.join(root, "calls.log")
            res = C.run_bw(root, [], env={"BLOCKWATCH_TERMINAL_MODE": "1", "BLOCKWATCH_LUA_MODE": "safe", "BW_COUNT_LOG": log,
                                          "TOKIO_WORKER_THREADS": str(rnd.choice([1, 2, 16]))})
            got = sorted(open(log).read().split()) if os.path.exists(log) else []
            return res, got
        finally:
            _sh.rmtree(root, ignore_errors=True)
    for (files, expected), (res, got) in zip(cases, C.pmap(run_count, cases, workers=8)):
        rep.evaluations += 1
        rep.traces += 1
        rep.count(f"lua:count:{len(expected)}blocks")
        if got != expected or res["exit"] != 0:
            rep.violation({"property": rep.prop, "component": "lua (call count)", "what": "validate() was not called exactly once per scripted block",
                           "files": files, "expected_calls": expected, "observed_calls": got, "cli": res})


CHECKS["C18"] = {
    "module": "Bw.Props.C18", "needs_binary": True,
    "level_note": DEFAULT_LEVEL_NOTE + " Partial: the Lua interpreter is an outcome oracle of the model except for the echo scripts, whose output the model predicts; real task interleavings are sampled (worker counts, CPU pinning, busy loops), the theorem covers every order of the model.",
    "trusted_base": TB_COMMON + ["mlua / Lua 5.4 (the echo scripts tie the arguments; other scripts' results are oracle entries by construction)", "tokio scheduling is exercised, not modelled"],
    "run": c18_run,
}


AI_REPLIES = ["OK", "ok", "Ok.", "OK.", "oK", " OK", "OK\n", "OK!", "OK..", "OKAY", "NOT OK", "", "the list is not sorted", "bad \"quoted\" thing\nline2", "ünïcode → reply"]
AI_FAULTS = ["no-key", "refused", "400-json", "401-plain", "404-json", "404-plain", "bad-json", "no-choices", "null-content", "empty-body", "mid-close"]
AI_CONTENT = ["alpha", "  beta  ", "say \"hi\"", "back\\slash", "tab\there", "é→ü", "{\"json\": [1, 2]}", "", "k=v1", "line'quote", "emoji 😀", "\\n literal",
              # text that looks like a template placeholder or a replacement reference travels verbatim too
              "WHERE {condition} LIMIT 10", "{block}", "{} {0} {{x}} %s %1$s", "$1 ${name} \\1 $&", "CONDITION: x", "BLOCK (lines 1 - 2):", "```"]


def c19_scenario(rnd, k, fault_kind):
    # one scenario in six has 9-24 AI blocks (more than any in-flight limit or pool of workers)
    nblocks = rnd.randint(9, 24) if k % 6 == 4 else rnd.randint(1, 5)
    files, plan, asyncs, patterns = {}, {}, [], []
    fault_at = rnd.randrange(nblocks) if fault_kind else None
    made = []
    for b in range(nblocks):
        p = f"{rnd.choice(['', 'src/'])}a{b % 2}.{rnd.choice(['py', 'sh'])}"
        cond = rnd.choice(["must be sorted", "no TODO left", "mentions <b> & co", "it's fine", "say \\ twice", "ünï → cond", "a=b; c", "keep {block} short", "no {condition} here", "use $1 and {}"]) + f" #{k}.{b}"
        attrs = f" check-ai=\"{cond}\"" if "\"" not in cond else f" check-ai='{cond}'"
        if rnd.random() < 0.3:
            attrs += f" name=\"n{b}\""
        # in half of the fault scenarios every block is of low severity: rejections elsewhere then produce diagnostics that do
        # not fail the run by themselves - the fault must
        if (fault_kind and k % 2 == 0) or rnd.random() < 0.25:
            attrs += f" severity=\"{rnd.choice(['warning', 'info', 'Hint'] if fault_kind and k % 2 == 0 else ['warning', 'info', 'Hint', 'error'])}\""
        if rnd.random() < 0.25:
            pat = rnd.choice(["k=(?P<value>\\w+)", "k=\\w+", "nomatch\\d{5}"])
            attrs += f" check-ai-pattern='{pat}'"
            patterns.append(pat)
        body = "".join(rnd.choice(AI_CONTENT) + "\n" for _ in range(rnd.randint(0, 3)))
        # twins: a later block may repeat the condition and the body of an earlier one (same or another file), with its own
        # pattern or none - every block still gets its own request carrying its own extract
        if made and rnd.random() < 0.35 and not (fault_kind and b == fault_at):
            cond, body = rnd.choice(made)
            attrs = f" check-ai=\"{cond}\"" if "\"" not in cond else f" check-ai='{cond}'"
            if rnd.random() < 0.5:
                pat = rnd.choice(["k=(?P<value>\\w+)", "k=\\w+", "nomatch\\d{5}", "(?P<value>\\S+)$", "k=(?<value>\\w+)", "k=(?P<val>\\w+)"])
                attrs += f" check-ai-pattern='{pat}'"
                patterns.append(pat)
        made.append((cond, body))
        files[p] = files.get(p, "") + f"# <block{attrs}>\n{body}# </block>\n"
        if fault_kind and b == fault_at:
            if fault_kind not in ("no-key", "refused"):
                plan[cond] = {"fault": fault_kind}
            asyncs.append({"v": "check-ai", "arg": cond, "out": {"err": "ai-error"}})
        elif cond in plan:
            # a twin: the endpoint answers by condition, so it gets its elder's answer (or its elder's fault)
            out = {"err": "ai-error"} if fault_kind in ("no-key", "refused") or "fault" in plan[cond] else {"reply": plan[cond]["reply"]}
            asyncs.append({"v": "check-ai", "arg": cond, "out": out})
        else:
            reply = rnd.choice(AI_REPLIES)
            plan[cond] = {"reply": reply}
            out = {"err": "ai-error"} if fault_kind in ("no-key", "refused") else {"reply": reply}
            asyncs.append({"v": "check-ai", "arg": cond, "out": out})
    # one scenario in three: a scripted block (check-lua, fixed complaint) next to the AI blocks of one of the files - the two
    # asynchronous validators then report on the same file, each diagnostic must survive
    if rnd.random() < 0.34 and files:
        script = os.path.join(K.ROOT, "tools", "lua", "str.lua")
        p = rnd.choice(sorted(files))
        sev = rnd.choice(["", "", " severity=\"warning\"", " severity=\"error\""])
        files[p] += f"# <block check-lua=\"{script}\"{sev}>\nscripted\n# </block>\n"
        asyncs.append({"v": "check-lua", "arg": script, "out": {"data": {"script": script, "lua_error": "fixed message"}}})
    # one scenario in three with several conditions: the answer to one of the EARLIER conditions is held back, so the
    # answers arrive in another order than the blocks were taken up (every verdict still belongs to its own block)
    conds = list(plan)
    if len(conds) >= 2 and rnd.random() < 0.34:
        plan[rnd.choice(conds[:-1])]["delay"] = 0.4
    paths = sorted(files)
    raw = {"files": [{"path": p, "text": t} for p, t in files.items()], "walk": paths, "allow": paths, "scan": True,
           "patterns": patterns, "async": asyncs, "meta": {"gen": "ai", "k": k, "fault": fault_kind, "blocks": nblocks}}
    return raw, plan


def c19_run(rep, tier, seed, tr, n_override=None):
    import cli as C, random, shutil as _sh
    sys.path.insert(0, os.path.join(K.ROOT, "tools"))
    import fake_openai
    rep.rules.append("1-5 AI blocks over 1-2 files with conditions and contents containing everything JSON must escape (quotes, backslashes, tabs, Unicode, emoji), optional check-ai-pattern; every reply from {OK, ok, Ok., OK., near misses ' OK', 'OK\\n', 'OK!', 'OK..', OKAY, NOT OK, empty, free text}; one of 11 faults (no key, connection refused, 400/401/404 with JSON or plain body, invalid JSON, no choices, null content, empty body, connection closed mid-body) injected on one request or none; a local fake endpoint records every request; non-trivial = every scenario")
    rnd = random.Random(seed)
    n = n_override or n_for(tier, 90, 900)
    scen = []
    for k in range(n):
        fault = None if k % 3 != 2 else AI_FAULTS[(k // 3) % len(AI_FAULTS)]
        scen.append(c19_scenario(rnd, k, fault))
    d = os.path.join(K.WORK, rep.prop, "ai")
    _sh.rmtree(d, ignore_errors=True); os.makedirs(d)
    with open(os.path.join(d, "raw.jsonl"), "w") as f:
        for raw, _ in scen:
            f.write(json.dumps(raw) + "\n")
    K.sh([K.BWH, "replay", "--out", d, "--no-impl", os.path.join(d, "raw.jsonl")])
    K.run_model(os.path.join(d, "cases.jsonl"), os.path.join(d, "model.jsonl"))
    cases = [json.loads(l) for l in open(os.path.join(d, "cases.jsonl"))]
    models = [json.loads(l) for l in open(os.path.join(d, "model.jsonl"))]
    def one(i):
        raw, plan = scen[i]
        fake = fake_openai.Fake(plan)
        root = C.tmp_root()
        try:
            C.materialise(root, [(f["path"], f["text"]) for f in raw["files"]])
            fault = raw["meta"]["fault"]
            env = {"BLOCKWATCH_TERMINAL_MODE": "1", "BLOCKWATCH_AI_MODEL": f"model-{i}", "BLOCKWATCH_AI_API_KEY": f"key-{i}",
                   "BLOCKWATCH_AI_API_URL": f"http://127.0.0.1:{fake.port}/v1", "NO_PROXY": "127.0.0.1", "no_proxy": "127.0.0.1"}
            # the surrounding environment may hold the OpenAI SDK's own variables: only BLOCKWATCH_AI_* may decide key,
            # endpoint and model (two scenarios in three carry such ambient values, pointing at a closed port)
            if i % 3 != 0:
                env.update({"OPENAI_API_KEY": "sk-ambient", "OPENAI_ADMIN_KEY": "sk-admin-ambient", "OPENAI_BASE_URL": "http://127.0.0.1:9/v1",
                            "OPENAI_API_BASE": "http://127.0.0.1:9/v1", "OPENAI_ORG_ID": "org-ambient", "OPENAI_PROJECT_ID": "proj-ambient"})
            if fault == "no-key":
                if i % 2 == 0:
                    del env["BLOCKWATCH_AI_API_KEY"]
                else:
                    env["BLOCKWATCH_AI_API_KEY"] = ""
            if fault == "refused":
                s = __import__("socket").socket(); s.bind(("127.0.0.1", 0)); port = s.getsockname()[1]; s.close()
                env["BLOCKWATCH_AI_API_URL"] = f"http://127.0.0.1:{port}/v1"
            res = C.run_bw(root, [], env=env, timeout=120)
            return res, list(fake.requests)
        finally:
            fake.stop()
            _sh.rmtree(root, ignore_errors=True)
    results = C.pmap(one, list(range(n)), workers=8)
    for i, (res, reqs) in enumerate(results):
        raw, plan = scen[i]
        case, model = cases[i], models[i]
        rep.evaluations += 1
        rep.traces += 1
        rep.nontrivial.add(i)
        out = C.outcome_validate(res)
        fault = raw["meta"]["fault"]
        rep.count(f"ai:{'fault:' + fault if fault else 'no-fault'}:" + ("panic" if "panic" in out else f"exit{out.get('exit')}"))
        if len(rep.samples) < 3:
            rep.samples.append({"files": raw["files"], "plan": plan, "cli_exit": res["exit"], "requests": [r["body"]["messages"][-1]["content"] for r in reqs if "messages" in r["body"]][:3]})
        problems = [{"field": f, "cli": a, "model_and_spec": b} for f, a, b in C.compare_cli_validate(out, model)]
        if not fault:
            want = sorted(model.get("ai_requests", []))
            got = sorted(r["body"]["messages"][-1]["content"] for r in reqs if isinstance(r["body"], dict) and "messages" in r["body"])
            if want != got:
                problems.append({"field": "requests (user messages, one per block)", "cli": got, "model_and_spec": want})
            for r in reqs:
                b = r["body"]
                if r["path"] != "/v1/chat/completions" or r["auth"] != f"Bearer key-{i}" or b.get("model") != f"model-{i}" or \
                        [m.get("role") for m in b.get("messages", [])] != ["system", "user"] or not b["messages"][0].get("content"):
                    problems.append({"field": "request shape (endpoint, key, model, system+user messages)", "cli": {"path": r["path"], "auth": r["auth"], "model": b.get("model")}, "model_and_spec": "POST /v1/chat/completions, Bearer key, configured model"})
        else:
            if res["exit"] in (0, None):
                problems.append({"field": "exit", "cli": res["exit"], "model_and_spec": "non-zero: an endpoint fault must fail the run"})
        if problems:
            rep.violation({"property": rep.prop, "component": "check-ai against the fake endpoint", "what": "request / reply handling differs from the model", "scenario": raw, "plan": plan,
                           "cli": res, "requests": reqs, "model": model, "differences": problems})


def c19_search(rep, tier, seed, broken):
    """an obligation broke (e.g. the reply literals changed): classify every catalogue reply through the binary and
    compare with the property's own rule (OK, any letter case, optional final period)"""
    import cli as C, shutil as _sh
    sys.path.insert(0, os.path.join(K.ROOT, "tools"))
    import fake_openai
    with K.Lock():
        K.build_repo_binary()
    found = False
    for reply in AI_REPLIES + ["Ok", "oK."]:
        cond = "cond"
        fake = fake_openai.Fake({cond: {"reply": reply}})
        root = C.tmp_root()
        try:
            C.materialise(root, [("a.py", f"# <block check-ai=\"{cond}\">\nx\n# </block>\n")])
            res = C.run_bw(root, [], env={"BLOCKWATCH_TERMINAL_MODE": "1", "BLOCKWATCH_AI_API_KEY": "k", "BLOCKWATCH_AI_API_URL": f"http://127.0.0.1:{fake.port}/v1"})
        finally:
            fake.stop(); _sh.rmtree(root, ignore_errors=True)
        passes = reply.lower() in ("ok", "ok.")
        got_pass = res["exit"] == 0 and res["stderr"].strip() == ""
        if passes != got_pass:
            found = True
            rep.violation({"property": rep.prop, "what": f"reply {reply!r} must {'pass' if passes else 'produce a check-ai diagnostic'} but the run {'passed' if got_pass else 'reported / failed'}",
                           "broken_obligation": broken.what, "detail": broken.detail, "reply": reply, "cli": res})
    return found


CHECKS["C19"] = {
    "search": c19_search,
    "module": "Bw.Props.C19", "needs_binary": True,
    "level_note": DEFAULT_LEVEL_NOTE + " Partial: the HTTP stack, JSON escaping on the wire and the client's retry policy (429/5xx are retried and are outside the quantifier) are exercised against a local endpoint, not modelled; each fault kind is an outcome-oracle entry of the model.",
    "trusted_base": TB_COMMON + ["tools/fake_openai.py (local endpoint, fault injection, request recording)", "async-openai / reqwest / hyper / tokio"],
    "run": c19_run,
}


def old_text_of(mf, new_text):
    """reconstruct the old file from the generator's segments (keep / del / add) and the new text"""
    new_lines = new_text.split("\n")
    if new_text.endswith("\n"):
        new_lines = new_lines[:-1]
    out, ni, di = [], 0, 0
    for c in mf["segs"]:
        if c == "k":
            out.append(new_lines[ni]); ni += 1
        elif c == "a":
            ni += 1
        else:
            out.append(mf["del_texts"][di]); di += 1
    return "".join(l + "\n" for l in out)


def segs_from_real_diff(diff, path, nlines):
    """independent reading of git's own diff for one file: segments over the whole new file (k/d/a)"""
    import re as _re
    lines = diff.split("\n")
    segs, new_no = [], 1
    in_file, i = False, 0
    while i < len(lines):
        l = lines[i]
        if l.startswith("diff --git "):
            in_file = False
        if l.startswith("+++ "):
            in_file = l[4:].split("\t")[0] == "b/" + path
        m = _re.match(r"@@ -(\d+)(?:,(\d+))? \+(\d+)(?:,(\d+))? @@", l) if in_file else None
        if m:
            ts, tl = int(m.group(3)), int(m.group(4) or 1)
            sl = int(m.group(2) or 1)
            start = ts if tl > 0 else ts + 1
            while new_no < start:
                segs.append("k"); new_no += 1
            i += 1
            rem, add = sl, tl
            while i < len(lines) and (rem > 0 or add > 0):
                b = lines[i]
                if b.startswith("+"):
                    segs.append("a"); new_no += 1; add -= 1
                elif b.startswith("-"):
                    segs.append("d"); rem -= 1
                elif b.startswith("\\"):
                    pass
                else:
                    segs.append("k"); new_no += 1; add -= 1; rem -= 1
                i += 1
            continue
        i += 1
    while new_no <= nlines:
        segs.append("k"); new_no += 1
    return "".join(segs)


def git_e2e(rep, rows, tier, seed, limit):
    """the same repositories through REAL git: old state committed, new state written, the diff asked for in several
    ways (-U0..-U10, unstaged / staged / commit-to-commit, renames with -M); the binary, the in-process code and the model
    all read git's own output; the ground truth is recomputed from that output by an independent reader"""
    import cli as C, random, shutil as _sh, subprocess as _sp
    rnd = random.Random(seed)
    sel = [r for r in rows if r[0]["meta"].get("gen") == "diff" and not any(f.get("new_file") and False for f in r[0]["meta"]["files"])][:limit]
    def git(root, *args):
        return _sp.run(["git", "-c", "user.name=v", "-c", "user.email=v@v", "-c", "core.autocrlf=false", "-c", "core.quotepath=off"] + list(args),
                       cwd=root, stdout=_sp.PIPE, stderr=_sp.PIPE, text=True)
    raws, metas = [], []
    for (case, impl, model) in sel:
        root = C.tmp_root()
        try:
            git(root, "init", "-q", ".")
            new_files = {f["path"]: f["text"] for f in case["files"]}
            meta_by = {m["path"]: m for m in case["meta"]["files"]}
            for p, t in new_files.items():
                m = meta_by[p]
                if m.get("new_file"):
                    continue
                old = old_text_of(m, t)
                os.makedirs(os.path.dirname(os.path.join(root, p)) or root, exist_ok=True)
                with open(os.path.join(root, p), "w", newline="") as f:
                    f.write(old)
            git(root, "add", "-A"); git(root, "commit", "-q", "-m", "old", "--allow-empty")
            renamed = {}
            mode = rnd.choice(["unstaged", "staged", "commits", "rename"])
            if mode == "rename":
                cands = [p for p in new_files if not meta_by[p].get("new_file")]
                if cands:
                    p = rnd.choice(cands)
                    # the new name keeps the grammar: `renamed_x.py`; a whole-name file (Makefile) moves to another directory
                    q = os.path.join(os.path.dirname(p), "renamed_" + os.path.basename(p)) if "." in os.path.basename(p) else os.path.join(os.path.dirname(p), "renamed", os.path.basename(p))
                    git(root, "mv", p, q)
                    renamed[p] = q
            for p, t in new_files.items():
                q = renamed.get(p, p)
                os.makedirs(os.path.dirname(os.path.join(root, q)) or root, exist_ok=True)
                with open(os.path.join(root, q), "w", newline="") as f:
                    f.write(t)
            u = rnd.choice([0, 0, 1, 3, 10])
            if mode == "unstaged":
                git(root, "add", "-N", ".")
                d = git(root, "diff", f"-U{u}").stdout
            elif mode == "staged" or mode == "rename":
                git(root, "add", "-A")
                d = git(root, "diff", "--cached", "-M", f"-U{u}").stdout
            else:
                git(root, "add", "-A"); git(root, "commit", "-q", "-m", "new", "--allow-empty")
                d = git(root, "diff", f"-U{u}", "HEAD~1", "HEAD").stdout
            files = [{"path": renamed.get(p, p), "text": t} for p, t in new_files.items()]
            mfiles = []
            for p, t in new_files.items():
                q = renamed.get(p, p)
                nl = len(t.split("\n")) - (1 if t.endswith("\n") else 0)
                segs = segs_from_real_diff(d, q, nl)
                # ground truth from git's own output: added lines; a deletion gap only for a PURE deletion group
                # (a group with removals and additions is a replacement: which removed line "was" which is ambiguous)
                adds, gaps, n, i2 = [], [], 0, 0
                while i2 < len(segs):
                    if segs[i2] == "k":
                        n += 1; i2 += 1
                        continue
                    j2 = i2
                    while j2 < len(segs) and segs[j2] != "k":
                        j2 += 1
                    group = segs[i2:j2]
                    if "a" not in group:
                        gaps.append(n)
                    for ch in group:
                        if ch == "a":
                            n += 1; adds.append(n)
                    i2 = j2
                mfiles.append({"path": q, "segs": segs, "adds": adds, "gaps": gaps, "classes": [], "blocks": meta_by[p]["blocks"]})
            raw = {"files": files, "scan": False, "diff": d, "patterns": ["^[a-z0-9]+$"],
                   "meta": {"gen": "diff", "globs": False, "files": mfiles, "git": {"mode": mode, "u": u, "renamed": renamed}}}
            res_list = C.run_bw(root, ["list"], stdin=d)
            res_val = C.run_bw(root, [], stdin=d)
            raws.append(raw); metas.append((res_list, res_val))
        finally:
            _sh.rmtree(root, ignore_errors=True)
    d = os.path.join(K.WORK, rep.prop, "git")
    _sh.rmtree(d, ignore_errors=True); os.makedirs(d)
    with open(os.path.join(d, "raw.jsonl"), "w") as f:
        for r in raws:
            f.write(json.dumps(r) + "\n")
    K.sh([K.BWH, "replay", "--out", d, os.path.join(d, "raw.jsonl")])
    K.run_model(os.path.join(d, "cases.jsonl"), os.path.join(d, "model.jsonl"))
    grows = [(json.loads(a), json.loads(b), json.loads(c)) for a, b, c in zip(open(os.path.join(d, "cases.jsonl")), open(os.path.join(d, "impl.jsonl")), open(os.path.join(d, "model.jsonl")))]
    def nontrivial(case, impl, model):
        return bool(case.get("diff")) and has_blocks(case, impl, model)
    K.correspondence(rep, grows, "real git diff", nontrivial, known=K.load_known(rep.prop), oracle=oracle_drift)
    for k, v in drift_known_counts(grows).items():
        rep.count(f"real git diff:ground-truth-failure-in-known-class:{k}", v)
    for (case, impl, model), (res_list, res_val) in zip(grows, metas):
        rep.count("real git diff:" + case["meta"]["git"]["mode"] + f":U{case['meta']['git']['u']}")
        known = any(e.get("status") == "open" and K.known_matches(e, case, impl, model) for e in K.load_known(rep.prop))
        for sub, res in (("list", res_list), ("validate", res_val)):
            rep.evaluations += 1
            rep.traces += 1
            out = C.outcome_list(res) if sub == "list" else C.outcome_validate(res)
            diffs = C.compare_cli_list(out, model) if sub == "list" else C.compare_cli_validate(out, model)
            if diffs and not known:
                rep.violation({"property": rep.prop, "component": f"real git diff (CLI {sub})", "what": "the binary reading git's own diff disagrees with the model",
                               "case": case, "cli": res, "model": model, "differences": [{"field": f, "cli": a, "model_and_spec": b} for f, a, b in diffs]})
                break


def c10_async_ranges(rep, tier, seed, tr):
    """C10 also speaks about the ranges of Lua and AI diagnostics (the start tag of the block the verdict belongs to): scripted
    blocks through real mlua in-process and check-ai blocks against the fake endpoint (answers partly delayed), ranges
    compared with the model's like every other observable"""
    rep.rules.append("plus 300 (thorough: 3000) runs with 1-12 scripted blocks and 30 (thorough: 300) check-ai scenarios: every check-lua / check-ai diagnostic carries the range of its own block's start tag")
    n = n_for(tier, 300, 3000)
    rows = K.run_component(rep.prop, "lua", [], seed, n, tier)
    K.correspondence(rep, rows, "lua (ranges)", lambda c, i, m: len(i.get("run", {}).get("diags", [])) >= 1, known=K.load_known(rep.prop))
    c19_run(rep, tier, seed, tr, n_override=n_for(tier, 30, 300))


_c18_src = CHECKS["C18"]["run"]
def _c18_run(rep, tier, seed, tr):
    _c18_src(rep, tier, seed, tr)
    # a scripted block's diagnostic must survive when the other asynchronous validator (check-ai) reports on the same file
    rep.rules.append("plus 30 (thorough: 300) runs through the binary where scripted blocks share files with check-ai blocks (fake endpoint, delayed answers)")
    c19_run(rep, tier, seed + 2, tr, n_override=n_for(tier, 30, 300))
CHECKS["C18"]["run"] = _c18_run


_c20_src = CHECKS["C20"]["run"]
def _c20_run(rep, tier, seed, tr):
    _c20_src(rep, tier, seed, tr)
    # the order in which the endpoint's answers arrive is a schedule too: several check-ai blocks, one answer held back
    rep.rules.append("plus 40 (thorough: 400) check-ai scenarios through the binary against the fake endpoint, one third of them with an answer to an earlier block held back (answers arrive in another order than the blocks were taken up): every verdict on its own block")
    c19_run(rep, tier, seed + 3, tr, n_override=n_for(tier, 40, 400))
CHECKS["C20"]["run"] = _c20_run


_c11_src = CHECKS["C11"]["run"]
def _c11_run(rep, tier, seed, tr):
    _c11_src(rep, tier, seed, tr)
    # both asynchronous validators reporting (partly on the same file, with low severities, with faults): the report and the
    # exit status through the binary against the fake endpoint
    rep.rules.append("plus 30 (thorough: 300) check-ai scenarios with scripted blocks in the same files through the binary, and 300 (thorough: 3000) runs with 1-40 scripted blocks in-process")
    c19_run(rep, tier, seed + 1, tr, n_override=n_for(tier, 30, 300))
    rows = K.run_component(rep.prop, "lua", [], seed, n_for(tier, 300, 3000), "thorough")   # the thorough tier's block counts (up to 40)
    K.correspondence(rep, rows, "lua (report)", lambda c, i, m: len(i.get("run", {}).get("diags", [])) >= 1, known=K.load_known(rep.prop))
CHECKS["C11"]["run"] = _c11_run


def c11_search(rep, tier, seed, broken):
    """the severity table no longer describes the running parser: look for a spelling among `warning|info|hint|error` in any
    letter case on which the binary contradicts the property itself (diagnostic printed with that level, exit 1 iff error)"""
    import cli as C, shutil as _sh
    bad = getattr(broken, "sev_bad", None)
    if not bad:
        return False
    levels = {"error": 1, "warning": 2, "info": 3, "hint": 4}
    found = False
    for sp, live, gen in bad:
        want = levels.get(sp.lower()) if sp.isascii() else None
        if want is None:
            continue        # not one of the four names the property speaks about
        root = C.tmp_root()
        try:
            text = f"# <block name=\"s\" keep-sorted severity=\"{sp}\">\nb\na\n# </block>\n"
            C.materialise(root, [("s.py", text)])
            res = C.run_bw(root, ["s.py"], env={"BLOCKWATCH_TERMINAL_MODE": "1"})
        finally:
            _sh.rmtree(root, ignore_errors=True)
        rep.evaluations += 1
        try:
            diags = json.loads(res["stderr"]).get("s.py", [])
        except Exception:
            diags = None
        ok = diags is not None and [d.get("severity") for d in diags] == [want] and res["exit"] == (1 if want == 1 else 0)
        if not ok:
            rep.violation({"property": rep.prop, "component": "severity spellings (search after the severity table broke)",
                           "what": f"a block with severity=\"{sp}\" and a violated rule must print its diagnostic with level {want} and exit {1 if want == 1 else 0}",
                           "files": [{"path": "s.py", "text": text}], "args": ["s.py"],
                           "cli": {"exit": res.get("exit"), "stderr": res["stderr"][:600]}, "broken": broken.what})
            found = True
            break
    return found


CHECKS["C11"]["search"] = c11_search


_c10_src = CHECKS["C10"]["run"]
def _c10_run(rep, tier, seed, tr):
    _c10_src(rep, tier, seed, tr)
    # the same kind of files through the binary (its own file reading, `FileSystemImpl`): ranges against the bytes ON DISK
    rep.rules.append("plus 300 (thorough: 3000) of the violating files through the binary: the printed ranges equal the model's (byte positions in the file as it is on disk, byte order mark included)")
    rows = K.run_component(rep.prop, "src diag", [], seed + 17, n_for(tier, 300, 3000), tier)
    cli_correspondence(rep, rows, "src diag", n_for(tier, 300, 3000), subs=("validate",), known=K.load_known(rep.prop))
    c10_async_ranges(rep, tier, seed, tr)
CHECKS["C10"]["run"] = _c10_run
CHECKS["C10"]["needs_binary"] = True


def replay(prop, path):
    """re-run one recorded case against the current tree and the model; print both outcomes"""
    data = json.load(open(path))
    case = data.get("case")
    if case is None:
        print(json.dumps(data, indent=1))
        return 0
    with K.Lock():
        K.build_harness()
        K.translate()
        K.lake_build(["bwmodel"])
    d = os.path.join(K.WORK, prop, "replay")
    os.makedirs(d, exist_ok=True)
    cp = os.path.join(d, "cases.jsonl")
    with open(cp, "w") as f:
        f.write(json.dumps(case) + "\n")
    K.sh([K.BWH, "replay", "--out", d, cp])
    K.run_model(cp, os.path.join(d, "model.jsonl"))
    impl = json.loads(open(os.path.join(d, "impl.jsonl")).readline())
    model = json.loads(open(os.path.join(d, "model.jsonl")).readline())
    if case.get("op") == "glob":
        diffs = [] if impl == model or "outside" in model else [("glob", impl, model)]
    elif case.get("op") == "flags":
        diffs = [] if impl == model else [("flags", impl, model)]
    elif case.get("op") == "tags":
        want = [({"k": "start", "s": t["s"], "e": t["e"], "attrs": t["attrs"]} if t.get("k") == "start" else {"k": "end", "s": t.get("s")}) for t in model] if isinstance(model, list) else model
        diffs = [] if impl == want else [("tags", impl, want)]
    elif case.get("op") == "lookup":
        by_parser = {}
        for ext, parser in K.translate()["ext"]:
            by_parser.setdefault(parser, []).append(ext)
        want = sorted(by_parser[model]) if isinstance(model, str) else None
        diffs = [] if impl.get("class") == want else [("lookup", impl.get("class"), want)]
    else:
        diffs = K.compare_outcome(impl, model)
    print("impl :", json.dumps(impl))
    print("model:", json.dumps(model))
    for f, a, b in diffs:
        print(f"DIFF {f}: impl={json.dumps(a)} model/spec={json.dumps(b)}")
    if diffs:
        print(f"VIOLATION property={prop} replay={path}")
        return 1
    print("no difference on the current tree")
    return 0


ORACLES = {
    "drift": lambda case, impl: drift_eval(case, impl),
    "expected_blocks": lambda case, impl: [(p, None) for p in oracle_expected_blocks(case, impl)],
    "diag_ranges": lambda case, impl: [(p, None) for p in oracle_diag_ranges(case, impl)],
    "expect": lambda case, impl: [(p, None) for p in oracle_expect(case, impl)],
    "unbalanced": lambda case, impl: [(p, None) for p in oracle_unbalanced(case, impl)],
}
