"""Running the real binary (built from /repo's current tree, guard off) in scratch repositories."""
import concurrent.futures, json, os, re, shutil, subprocess, tempfile

import check as K


def tmp_root():
    base = os.environ.get("TMPDIR", "/tmp")
    return tempfile.mkdtemp(prefix="bwv-", dir=base)


def materialise(root, files, git_marker=True):
    for path, text in files:
        if text is None:
            continue
        p = os.path.join(root, path)
        os.makedirs(os.path.dirname(p) or root, exist_ok=True)
        with open(p, "w", encoding="utf-8", newline="") as f:
            f.write(text)
    if git_marker:
        os.makedirs(os.path.join(root, ".git"), exist_ok=True)


def run_bw(cwd, args, stdin=None, env=None, timeout=60, prefix=None):
    e = dict(os.environ)
    for k in list(e):
        if k.startswith("BLOCKWATCH_"):
            del e[k]
    e["RUST_BACKTRACE"] = "0"
    if env:
        e.update(env)
    cmd = (prefix or []) + [K.BWBIN] + args
    # a run that exceeds its time limit is repeated once with five times the limit before it counts as a hang
    # (sixteen binaries run side by side; a busy machine must not look like a hanging blockwatch)
    for limit in (timeout, timeout * 5):
        try:
            p = subprocess.run(cmd, cwd=cwd, input=stdin if stdin is not None else "", env=e, stdout=subprocess.PIPE,
                               stderr=subprocess.PIPE, text=True, timeout=limit)
            return {"exit": p.returncode, "stdout": p.stdout, "stderr": p.stderr}
        except subprocess.TimeoutExpired:
            continue
    return {"exit": None, "stdout": "", "stderr": "", "timeout": True}


def classify_run_error(msg):
    tests = [
        ("keep-sorted expected values", "bad-direction"), ("keep-sorted-format has an unsupported", "bad-format"),
        ("Invalid keep-sorted-pattern", "bad-regex"), ("Invalid keep-unique regex", "bad-regex"),
        ("line-pattern expected a valid regular expression", "bad-regex"), ("is not a valid number", "not-a-number"),
        ("line-count expected a comparator", "bad-constraint"), ('Invalid "affects" attribute value', "bad-affects"),
        ('Failed to parse "severity" attribute', "bad-severity"), ("check-lua requires a non-empty script path", "empty-lua-path"),
        ("check-ai requires a non-empty condition", "empty-ai-condition"), ("check-lua", "lua-error"), ("check-ai", "ai-error"), ("API key", "ai-error"),
    ]
    for needle, kind in tests:
        if needle in msg:
            return kind
    return "other"


def classify_parse_error(msg):
    m = re.search(r'Failed to (?:parse|read) file "([^"]*)"', msg)
    file = m.group(1) if m else None
    out = None
    if "is not closed" in msg:
        n = re.search(r"Block at line (\d+)", msg)
        out = {"file": file, "kind": "unclosed", "line": int(n.group(1)) if n else None}
    elif "Unexpected closed block" in msg:
        n = re.search(r"Unexpected closed block at line (\d+)", msg)
        out = {"file": file, "kind": "unexpected-close", "line": int(n.group(1)) if n else None}
    elif "Failed to read file" in msg:
        out = {"file": file, "kind": "read"}
    elif "Unexpected hunk found" in msg:
        out = {"kind": "diff-unexpected-hunk"}
    elif "Target without source" in msg:
        out = {"kind": "diff-target-without-source"}
    if out is not None:
        out["msg"] = msg[:600]
    return out


def data_json(d):
    return {k: (v if isinstance(v, str) else json.dumps(v, separators=(",", ":"))) for k, v in (d or {}).items()}


def outcome_validate(res):
    """canonical outcome of a validation run of the CLI (same shape as the harness's in-process outcome, without ctx)"""
    if res.get("timeout"):
        return {"panic": "timeout"}
    err = res["stderr"]
    if "panicked at" in err or res["exit"] not in (0, 1):
        return {"panic": f"exit={res['exit']} stderr={err[:300]}"}
    if err.startswith("Error:"):
        pe = classify_parse_error(err)
        if pe:
            return {"ctx": {"err": [pe]}, "exit": res["exit"], "raw_stderr": err[:400]}
        return {"run": {"err": [classify_run_error(err)]}, "exit": res["exit"], "raw_stderr": err[:400]}
    diags = []
    if err.strip():
        try:
            obj = json.loads(err)
        except Exception:
            return {"panic": f"stderr is not one JSON object: {err[:300]}"}
        for path, ds in obj.items():
            for d in ds:
                r = d["range"]
                diags.append({"file": path, "code": d["code"],
                              "range": [r["start"]["line"], r["start"]["character"], r["end"]["line"], r["end"]["character"]],
                              "severity": d["severity"], "data": data_json(d.get("data"))})
    # `files`: the keys of the printed JSON object; `printed`: whether anything was written to stderr at all
    return {"run": {"diags": diags, "files": sorted(obj) if err.strip() else [], "printed": bool(err.strip())},
            "exit": res["exit"], "stdout_empty": res["stdout"] == ""}


def outcome_list(res):
    if res.get("timeout"):
        return {"panic": "timeout"}
    err = res["stderr"]
    if "panicked at" in err or res["exit"] not in (0, 1):
        return {"panic": f"exit={res['exit']} stderr={err[:300]}"}
    if err.startswith("Error:"):
        pe = classify_parse_error(err)
        return {"ctx": {"err": [pe or {"kind": "other", "msg": err[:300]}]}, "exit": res["exit"]}
    try:
        obj = json.loads(res["stdout"])
    except Exception:
        return {"panic": f"stdout is not one JSON object: {res['stdout'][:300]}"}
    return {"list": obj, "exit": res["exit"]}


def model_list(model):
    """what `list` must print according to the model's context"""
    if "list" in model:
        # computed by the Lean model of `to_serializable_report` (`Bw.ListReport.report`)
        return {path: [K.canon(e) for e in entries] for path, entries in model["list"].items()}
    files = model.get("ctx", {}).get("files")
    if files is None:
        return None
    out = {}
    for path, blocks in files.items():
        # `list` prints the blocks of a file in source order
        out[path] = [K.canon({"name": b["attrs"].get("name", "(unnamed)"), "line": b["tag"][0], "column": b["tag"][1],
                              "is_content_modified": b["content_modified"], "attributes": b["attrs"]}) for b in blocks]
    return out


def canon_list(obj):
    return {p: [K.canon(b) for b in bl] for p, bl in obj.items()}


def args_for_case(case, sub=None):
    """CLI arguments that reproduce a harness case whose allow-list is all walked files"""
    args = []
    for v in case.get("enabled", []):
        args += ["-e", v]
    for v in case.get("disabled", []):
        args += ["-d", v]
    for k, v in (case.get("extra") or {}).items():
        args += ["-E", f"{k}={v}"]
    if sub:
        args.append(sub)
    has_diff = case.get("diff") is not None
    if case.get("scan") and has_diff:
        allow, walk = case.get("allow") or [], case.get("walk") or []
        if sorted(allow) == sorted(walk):
            args.append("**")
        elif allow:
            args += allow                      # the path arguments cover only some of the files (literal paths are globs)
        else:
            args.append("zz-no-such-dir/**")   # path arguments that match nothing
    return args, has_diff


def run_case_cli(case, sub=None, cwd_rel="", env_extra=None, prefix=None, order=None):
    """materialise a harness case and run the binary on it"""
    root = tmp_root()
    try:
        files = [(f["path"], f["text"]) for f in case["files"]]
        if order:
            files = [files[i] for i in order]
        materialise(root, files)
        args, has_diff = args_for_case(case, sub)
        env = dict(env_extra or {})
        if not has_diff:
            env["BLOCKWATCH_TERMINAL_MODE"] = "1"
        cwd = os.path.join(root, cwd_rel) if cwd_rel else root
        os.makedirs(cwd, exist_ok=True)
        return run_bw(cwd, args, stdin=case.get("diff"), env=env, prefix=prefix)
    finally:
        shutil.rmtree(root, ignore_errors=True)


def pmap(fn, items, workers=16):
    with concurrent.futures.ThreadPoolExecutor(max_workers=workers) as ex:
        return list(ex.map(fn, items))


def compare_cli_validate(cli, model):
    """differences between the CLI's validation outcome and the model (exit status, diagnostics / error class)"""
    if "panic" in cli:
        return [("cli", cli["panic"], "no crash / timeout expected")]
    diffs = []
    mc = model.get("ctx", {})
    # an error whose wording is not recognised is still the error the model predicts (message texts are no observable)
    if cli.get("run", {}).get("err") == ["other"] and ("err" in mc or "err" in model.get("run", {})):
        if "err" in mc and any(me.get("file") for me in mc["err"]) and not K.err_matches({"kind": "other", "msg": cli.get("raw_stderr")}, mc["err"]):
            return [("cli.ctx.err", cli.get("raw_stderr"), mc["err"])]
        return [] if cli.get("exit") == 1 else [("cli.exit", cli.get("exit"), 1)]
    if "err" in mc or "err" in cli.get("ctx", {}):
        if "err" in mc and "err" in cli.get("ctx", {}):
            ie = cli["ctx"]["err"][0]
            if not K.err_matches(ie, mc["err"]):
                diffs.append(("cli.ctx.err", cli["ctx"]["err"], mc["err"]))
        else:
            diffs.append(("cli.ctx", cli.get("ctx") or cli.get("run"), mc))
        if cli.get("exit") != 1:
            diffs.append(("cli.exit", cli.get("exit"), 1))
        return diffs
    ir, mr = cli.get("run", {}), model.get("run", {})
    if "err" in ir or "err" in mr:
        if "err" in ir and "err" in mr:
            if ir["err"][0] not in mr["err"] and ir["err"][0] != "other":
                diffs.append(("cli.run.err", ir["err"], mr["err"]))
        else:
            diffs.append(("cli.run", ir, mr))
    else:
        a = sorted(K.canon(d) for d in ir.get("diags", []))
        b = sorted(K.canon(d) for d in mr.get("diags", []))
        if a != b:
            diffs.append(("cli.run.diags", ir.get("diags"), mr.get("diags")))
        if not cli.get("stdout_empty", True):
            diffs.append(("cli.stdout", "not empty", "validation prints nothing on stdout"))
        # the report: one JSON object keyed by the files that have diagnostics; nothing at all without diagnostics
        if "files" in ir and "files" in mr and sorted(ir["files"]) != sorted(mr["files"]):
            diffs.append(("cli.report.files", ir["files"], sorted(mr["files"])))
        if "printed" in ir and "prints" in mr and ir["printed"] != mr["prints"]:
            diffs.append(("cli.report.printed", ir["printed"], mr["prints"]))
    if cli.get("exit") != model.get("exit"):
        diffs.append(("cli.exit", cli.get("exit"), model.get("exit")))
    # the model of `main`'s sequencing (Bw.MainFlow: options, diff, parse, detect, run, merged report) ends with the same status
    if isinstance(model.get("main"), dict) and cli.get("exit") is not None and model["main"].get("validate") != cli.get("exit"):
        diffs.append(("cli.exit vs MainFlow", cli.get("exit"), model["main"].get("validate")))
    return diffs


def compare_cli_list(cli, model):
    if "panic" in cli:
        return [("cli", cli["panic"], "no crash / timeout expected")]
    mc = model.get("ctx", {})
    if "err" in mc or "err" in cli.get("ctx", {}):
        if not ("err" in mc and "err" in cli.get("ctx", {})):
            return [("cli.list", cli.get("ctx") or "ok", mc.get("err") or "ok")]
        return [] if cli.get("exit") == 1 else [("cli.list.exit", cli.get("exit"), 1)]
    want = model_list(model)
    got = canon_list(cli["list"])
    diffs = []
    if want != got:
        diffs.append(("cli.list", cli["list"], model.get("ctx", {}).get("files")))
    if cli.get("exit") != 0:
        diffs.append(("cli.list.exit", cli.get("exit"), 0))
    if isinstance(model.get("main"), dict) and model["main"].get("list") != cli.get("exit"):
        diffs.append(("cli.list.exit vs MainFlow", cli.get("exit"), model["main"].get("list")))
    return diffs
