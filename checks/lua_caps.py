"""C17: run the sandbox probe through the real binary in every Lua mode, canonicalise the capability
graph and emit it as a Lean literal (lean/Bw/Gen/CapsDump.lean) for the kernel to decide."""
import json, os, shutil
import check as K
import cli as C

MODES = [("unset", None), ("sandboxed", "sandboxed"), ("safe", "safe"), ("unsafe", "unsafe"), ("garbage", "totally-unknown"), ("empty", ""), ("upper", "SAFE")]


def run_script(script_text, mode, extra_files=None, extra_attrs=""):
    root = C.tmp_root()
    try:
        files = [("t.py", "# <block name=\"probe\" check-lua=\"probe.lua\"" + extra_attrs + ">\nx\n# </block>\n"), ("probe.lua", script_text),
                 ("secret.lua", "return \"secret-value\"\n"), ("victim.txt", "v\n")] + (extra_files or [])
        C.materialise(root, files)
        env = {"BLOCKWATCH_TERMINAL_MODE": "1"}
        if mode is not None:
            env["BLOCKWATCH_LUA_MODE"] = mode
        res = C.run_bw(root, ["t.py"], env=env)
        written = os.path.exists(os.path.join(root, "written.txt"))
        victim = os.path.exists(os.path.join(root, "victim.txt"))
        return res, written, victim
    finally:
        shutil.rmtree(root, ignore_errors=True)


def lua_message(res):
    try:
        obj = json.loads(res["stderr"])
        return obj["t.py"][0]["data"]["lua_error"]
    except Exception:
        return None


def parse_dump(msg):
    parts = dict(p.split("=", 1) for p in msg.split(" ", 2))
    n = int(parts["N"])
    kinds = parts["K"]
    edges = []
    for e in parts["E"].split(","):
        if not e:
            continue
        ab, label = e.split(":", 1)
        a, b = ab.split(">")
        edges.append((int(a), int(b), label))
    return n, kinds, edges


def canonical(n, kinds, edges):
    """label every node by its shortest key path from _G (node 1) / the string metatable, renumber by label"""
    label = {1: "_G"}
    strmeta = [(b, l) for a, b, l in edges if a == 0]
    seen = {1}
    for start in [[1]] + [[b] for b, _ in strmeta]:
        for b, l in strmeta:
            if b in start and b not in label:
                label[b] = l
        frontier = [x for x in start if x in label]
        seen.update(frontier)
        _bfs(frontier, seen, label, edges)
    return _finish(n, kinds, edges, label)


def _bfs(frontier, seen, label, edges):
    while frontier:
        nxt = []
        for a in sorted(frontier, key=lambda x: label[x]):
            for (x, b, l) in sorted((e for e in edges if e[0] == a), key=lambda e: e[2]):
                if b in seen:
                    continue
                seen.add(b)
                pl = label[a]
                if l in ("<meta>", "<key>"):
                    label[b] = f"{pl}{l}"
                elif pl == "_G":
                    label[b] = l
                else:
                    label[b] = f"{pl}.{l}"
                nxt.append(b)
        frontier = nxt


def _finish(n, kinds, edges, label):
    order = sorted(range(1, n + 1), key=lambda x: (label.get(x, "~"), x))
    new = {old: i + 1 for i, old in enumerate(order)}
    new[0] = 0
    c_edges = sorted({(new[a], new[b]) for a, b, _ in edges if a != 0})
    c_labels = [(new[x], label.get(x, "?")) for x in order]
    fns = [new[x] for x in order if kinds[x - 1] == "f"]
    roots = sorted({new[1]} | {new[b] for a, b, _ in edges if a == 0})
    globals_ = sorted({l for a, b, l in edges if a == 1 and l not in ("<meta>", "<key>")})
    return {"n": n, "edges": c_edges, "labels": c_labels, "fns": fns, "roots": roots, "globals": globals_}


def lean_str(s):
    return '"' + s.replace("\\", "\\\\").replace('"', '\\"') + '"'


def emit(dumps):
    lines = ["import Bw.Caps",
             "/-! GENERATED on every C17 run by checks/lua_caps.py from the probe script executed by the real binary — do not edit. -/",
             "namespace Bw.Gen", ""]
    d = dumps["unset"]
    lines.append("def capsDefaultEdges : List (Nat × Nat) := [" + ", ".join(f"({a}, {b})" for a, b in d["edges"]) + "]")
    lines.append(f"def capsDefaultNodes : List Nat := List.range' 1 {d['n']}")
    lines.append("def capsDefaultRoots : List Nat := [" + ", ".join(map(str, d["roots"])) + "]")
    lines.append("def capsDefaultFns : List Nat := [" + ", ".join(map(str, d["fns"])) + "]")
    lines.append("def capsDefaultLabels : List (Nat × String) := [" + ", ".join(f"({i}, {lean_str(l)})" for i, l in d["labels"]) + "]")
    for name, dd in dumps.items():
        lines.append(f"def luaGlobals_{name} : List String := [" + ", ".join(lean_str(g) for g in dd["globals"]) + "]")
        lines.append(f"def luaFunctionCount_{name} : Nat := {len(dd['fns'])}")
    lines += ["", "end Bw.Gen", ""]
    text = "\n".join(lines)
    path = os.path.join(K.LEAN, "Bw", "Gen", "CapsDump.lean")
    old = open(path).read() if os.path.exists(path) else None
    if old != text:
        with open(path, "w") as f:
            f.write(text)


def collect():
    """runs the probe in every mode; returns canonical dumps (raises Broken when the probe cannot run)"""
    probe = open(os.path.join(K.ROOT, "tools", "lua", "probe.lua")).read()
    dumps, raw = {}, {}
    for name, mode in MODES:
        res, _, _ = run_script(probe, mode)
        msg = lua_message(res)
        if not msg or not msg.startswith("N="):
            raise K.Broken(f"the sandbox probe did not run in mode {name}", json.dumps(res)[:1500])
        parts = msg.split("\n@@\n")
        d_load = canonical(*parse_dump(parts[0]))
        d_val = canonical(*parse_dump(parts[-1]))
        # the graph at load time is the one handed to Lean; the two inspections must see the same function paths
        fl = sorted(l for i, l in d_load["labels"] if i in set(d_load["fns"]))
        fv = sorted(l for i, l in d_val["labels"] if i in set(d_val["fns"]) and l != "validate")
        d_load["load_vs_validate_diff"] = sorted(set(fl) ^ set(fv))
        dumps[name] = d_load
        raw[name] = res
    return dumps


def pre(prop):
    emit(collect())
