#!/usr/bin/env python3
import sys
if __name__ == "__main__":
    print("check.py: under construction"); sys.exit(0)
