#!/usr/bin/env python3
"""Orchestrator for the blockwatch verification checks (python3 stdlib only).

  python3 check.py --setup
  python3 check.py C06 --tier quick|thorough
  python3 check.py C06 --replay replays/C06/xxx.json

Per property: (1) proof obligations - build Bw/Props/<id>.lean, audit `#print axioms` of every theorem in it;
(2) correspondence - run the real code (harness `bwh`, in-process) and the Lean model (`bwmodel`) on the same
generated cases and diff canonical outcomes; (3) known findings; (4) evidence file.
"""
import fcntl, glob, hashlib, json, os, re, shutil, subprocess, sys, tempfile, time

ROOT = os.path.dirname(os.path.abspath(__file__))
LEAN = os.path.join(ROOT, "lean")
HARNESS = os.path.join(ROOT, "harness")
WORK = os.path.join(ROOT, "work")
REPO = os.environ.get("BW_REPO", "/repo")
BWH = os.path.join(HARNESS, "target", "debug", "bwh")
BWMODEL = os.path.join(LEAN, ".lake", "build", "bin", "bwmodel")
REPO_TARGET = os.path.join(HARNESS, "target", "repo")
BWBIN = os.path.join(REPO_TARGET, "debug", "blockwatch")
ALLOWED_AXIOMS = {"propext", "Classical.choice", "Quot.sound"}
ENV = dict(os.environ, CARGO_NET_OFFLINE="true", RUST_BACKTRACE="0")

sys.path.insert(0, os.path.join(ROOT, "checks"))


class Broken(Exception):
    """An obligation or a build step no longer checks."""
    def __init__(self, what, detail=""):
        super().__init__(what)
        self.what, self.detail = what, detail


def sh(cmd, cwd=None, timeout=3600, check=True, env=None, input=None):
    p = subprocess.run(cmd, cwd=cwd, env=env or ENV, stdout=subprocess.PIPE, stderr=subprocess.STDOUT,
                       timeout=timeout, input=input, text=True)
    if check and p.returncode != 0:
        raise Broken("command failed: " + " ".join(cmd), p.stdout[-4000:])
    return p


class Lock:
    def __enter__(self):
        os.makedirs(WORK, exist_ok=True)
        self.f = open(os.path.join(ROOT, ".build.lock"), "w")
        fcntl.flock(self.f, fcntl.LOCK_EX)
        return self
    def __exit__(self, *a):
        fcntl.flock(self.f, fcntl.LOCK_UN)
        self.f.close()


# ------------------------------------------------------------------------------------------------ builds

def repo_source_hash():
    """content hash of everything cargo compiles from the repository (sources, manifests, build script)"""
    h = hashlib.sha256()
    paths = []
    for base in ("src", "build.rs", "Cargo.toml", "Cargo.lock"):
        p = os.path.join(REPO, base)
        if os.path.isdir(p):
            for d, _, fs in os.walk(p):
                paths += [os.path.join(d, f) for f in fs]
        elif os.path.exists(p):
            paths.append(p)
    for p in sorted(paths):
        h.update(os.path.relpath(p, REPO).encode() + b"\0")
        with open(p, "rb") as f:
            h.update(f.read())
        h.update(b"\0")
    return h.hexdigest()


def ensure_fresh(target_dir):
    """cargo decides freshness by modification times; a tree restored with old time stamps (a copy made with -p, a snapshot,
    a target directory copied from elsewhere) would keep a binary built from OTHER sources. The content hash of the
    repository's sources is kept next to the build output: when it differs, the crate's fingerprints are removed so that cargo
    rebuilds it."""
    want = repo_source_hash()
    stamp = os.path.join(target_dir, ".bw_source_hash")
    have = open(stamp).read().strip() if os.path.exists(stamp) else None
    if have != want:
        for fp in glob.glob(os.path.join(target_dir, "debug", ".fingerprint", "blockwatch-*")):
            shutil.rmtree(fp, ignore_errors=True)
    return stamp, want


def build_harness():
    lock_src, lock_dst = os.path.join(REPO, "Cargo.lock"), os.path.join(HARNESS, "Cargo.lock")
    if not os.path.exists(lock_dst):
        shutil.copy(lock_src, lock_dst)
    tdir = os.path.join(HARNESS, "target")
    os.makedirs(tdir, exist_ok=True)
    stamp, want = ensure_fresh(tdir)
    sh(["cargo", "build", "--offline"], cwd=HARNESS)
    with open(stamp, "w") as f:
        f.write(want)


def build_repo_binary():
    """the CLI built from /repo's current tree with the guard off (own target dir, nothing written to /repo)"""
    os.makedirs(REPO_TARGET, exist_ok=True)
    stamp, want = ensure_fresh(REPO_TARGET)
    sh(["cargo", "build", "--offline", "--bin", "blockwatch", "--target-dir", REPO_TARGET], cwd=REPO)
    with open(stamp, "w") as f:
        f.write(want)


def translate():
    p = subprocess.run([sys.executable, os.path.join(ROOT, "tools", "translate.py")], env=ENV,
                       stdout=subprocess.PIPE, stderr=subprocess.PIPE, text=True)
    if p.returncode != 0:
        raise Broken("translator: the source no longer has the shape the translator understands", p.stderr)
    return json.loads(p.stdout)


TABLE_OWNERS = {"ext": ("C16",), "detectors": ("C14",), "severity": ("C11",)}   # the properties whose theorems are stated over the table


def live_tables_check(tr, tb, prop=None):
    """the second tie of the generated tables: what the running implementation reports (`bwh tables`: the live
    `language_parsers()` map with grammar identity by `Rc::ptr_eq`, the names in `DETECTOR_FACTORIES`) must be the table the
    theorems were checked over - whether the translator could read the source this time or kept the last generated table.
    Returns notes for the evidence; raises Broken when a generated table is not the live one."""
    notes = []
    gen_classes = {}
    for ext, parser in tr["ext"]:
        gen_classes.setdefault(parser, []).append(ext)
    gen = sorted((ext, min(gen_classes[parser])) for ext, parser in tr["ext"])
    live = sorted((e, c) for e, c in tb.get("ext_live", []))
    if gen != live:
        only_gen = [e for e in gen if e not in live]
        only_live = [e for e in live if e not in gen]
        if prop not in TABLE_OWNERS["ext"]:
            notes.append(f"the generated extension table differs from the live one (generated-only {only_gen}, live-only {only_live}); this property's theorems do not depend on it, its correspondence components decide")
        else:
          raise Broken("the extension table the theorems were checked over is not the table of the running implementation",
                     f"generated-only (suffix, class): {only_gen}\nlive-only (suffix, class): {only_live}\ntranslator: {tr.get('errors', {}).get('ext', 'ok')}")
    if [n for n, _ in tr["detectors"]] != tb.get("detectors_live"):
        if prop not in TABLE_OWNERS["detectors"]:
            notes.append(f"the generated detector list differs from the live one ({tb.get('detectors_live')}); this property's theorems do not depend on it, its correspondence components decide")
        else:
          raise Broken("the detector list the theorems were checked over is not DETECTOR_FACTORIES of the running implementation",
                     f"generated: {[n for n, _ in tr['detectors']]}\nlive: {tb.get('detectors_live')}\ntranslator: {tr.get('errors', {}).get('detectors', 'ok')}")
    # severity names: what the generated table (names, values, case rule) says about each probe spelling against what the
    # running `BlockSeverity::from_str` says
    def gen_sev(sp):
        for name, val in tr["severity"]:
            if (name.lower() == "".join(c.lower() if ord(c) < 128 else c for c in sp)) if tr["severity_case_insensitive"] else (name == sp):
                return val
        return None
    sev_bad = [(sp, v, gen_sev(sp)) for sp, v in tb.get("severity_live", []) if gen_sev(sp) != v]
    if sev_bad:
        if prop not in TABLE_OWNERS["severity"]:
            notes.append(f"the generated severity table differs from the live parser on {sev_bad[:5]} (spelling, live, generated); this property's theorems do not depend on it, its correspondence components decide")
        else:
            b = Broken("the severity table the theorems were checked over is not what the running BlockSeverity::from_str accepts",
                       f"(spelling, live value, generated value): {sev_bad[:20]}\ntranslator: {tr.get('errors', {}).get('severity', 'ok')}")
            b.sev_bad = sev_bad
            raise b
    for t, msg in (tr.get("errors") or {}).items():
        how = {"ext": "equal to the live `language_parsers()` map (suffixes and grammar identity)",
               "severity": "equal to the live `BlockSeverity::from_str` on every case variant of the probe spellings",
               "detectors": "equal to the live DETECTOR_FACTORIES names"}.get(t, "exercised by the correspondence components of the properties that use it")
        notes.append(f"table `{t}`: the translator could not read the source ({msg}); the last generated table is kept and is {how}")
    return notes


def tables():
    os.makedirs(WORK, exist_ok=True)
    out = sh([BWH, "tables"]).stdout
    path = os.path.join(WORK, "tables.json")
    with open(path, "w") as f:
        f.write(out)
    sh([sys.executable, os.path.join(ROOT, "tools", "translate.py"), "--tables", path])
    return json.loads(out)


def lake_build(targets):
    p = sh(["lake", "build"] + targets, cwd=LEAN, check=False)
    if p.returncode != 0:
        failed = re.findall(r"error: (Bw/[\w/]+\.lean:\d+:\d+: .*)", p.stdout)
        raise Broken("lake build failed for " + " ".join(targets), "\n".join(failed[:20]) or p.stdout[-3000:])


def theorems_in(module):
    """names of the theorems stated in a Props module (the obligations of the property)"""
    path = os.path.join(LEAN, *module.split(".")) + ".lean"
    src = open(path, encoding="utf-8").read()
    ns = re.search(r"^namespace (\S+)", src, re.M)
    prefix = ns.group(1) + "." if ns else ""
    src_nc = re.sub(r"/-.*?-/", "", src, flags=re.S)
    src_nc = re.sub(r"--.*", "", src_nc)
    return [prefix + n for n in re.findall(r"^theorem\s+([\w.']+)", src_nc, re.M)]


def forbidden_tokens():
    bad = []
    for base, _, files in os.walk(os.path.join(LEAN, "Bw")):
        for fn in files:
            if not fn.endswith(".lean"):
                continue
            src = open(os.path.join(base, fn), encoding="utf-8").read()
            src = re.sub(r"/-.*?-/", "", src, flags=re.S)
            src = re.sub(r"--.*", "", src)
            for m in re.finditer(r"\bsorry\b|\badmit\b|^axiom\s|native_decide|bv_decide|implemented_by|\bunsafe\s|maxHeartbeats 0", src, re.M):
                bad.append(f"{fn}: {m.group(0).strip()}")
    return bad


def audit(prop, module):
    names = theorems_in(module)
    if not names:
        raise Broken(f"{module}: no theorems found")
    os.makedirs(os.path.join(LEAN, "Audit"), exist_ok=True)
    path = os.path.join(LEAN, "Audit", f"{prop}.lean")
    with open(path, "w") as f:
        f.write(f"import {module}\n" + "".join(f"#print axioms {n}\n" for n in names))
    p = sh(["lake", "env", "lean", path], cwd=LEAN, check=False)
    if p.returncode != 0:
        raise Broken(f"axiom audit failed for {module}", p.stdout[-3000:])
    out = p.stdout.replace("\n  ", " ")
    found = {}
    for m in re.finditer(r"'([^']+)' (does not depend on any axioms|depends on axioms: \[([^\]]*)\])", out):
        axs = [a.strip() for a in (m.group(3) or "").split(",") if a.strip()]
        found[m.group(1)] = axs
    result = []
    for n in names:
        if n not in found:
            raise Broken(f"axiom audit: no report for {n}", out[-2000:])
        extra = [a for a in found[n] if a not in ALLOWED_AXIOMS]
        if extra:
            raise Broken(f"theorem {n} depends on non-standard axioms {extra}")
        result.append({"theorem": n, "axioms": found[n]})
    bad = forbidden_tokens()
    if bad:
        raise Broken("forbidden tokens in Lean sources", "\n".join(bad))
    return result


# ------------------------------------------------------------------------------------------------ correspondence

def canon(x):
    return json.dumps(x, sort_keys=True, ensure_ascii=False)


def canon_files(files):
    """per file the blocks IN ORDER: blocks are reported in source order (C03), so the order is an observable"""
    out = {}
    for path, blocks in (files or {}).items():
        out[path] = [canon(b) for b in blocks]
    return out


def compare_outcome(impl, model, opts=None):
    """returns a list of differences between the implementation's and the model's canonical outcomes"""
    opts = opts or {}
    diffs = []
    if model.get("harness_tree_inconsistent"):
        raise Broken("machinery self-check: the pruned syntax tree shipped by the harness does not contain the flat node list in document order (harness/src/ts.rs `pruned` vs `nodes`)")
    if "panic" in impl:
        mk = [e.get("kind") for e in model.get("ctx", {}).get("err", [])]
        if "panic" in mk:
            return []
        return [("panic", impl["panic"], "model predicts no panic")]
    if "changes" in impl and "changes" in model and not opts.get("skip_changes"):
        if canon(impl["changes"]) != canon(model["changes"]):
            diffs.append(("changes", impl["changes"], model["changes"]))
    ic, mc = impl.get("ctx", {}), model.get("ctx", {})
    if "err" in ic or "err" in mc:
        if "err" in ic and "err" in mc:
            ie = ic["err"][0]
            ok = err_matches(ie, mc["err"])
            if not ok:
                diffs.append(("ctx.err", ic["err"], mc["err"]))
        else:
            diffs.append(("ctx", ic, mc))
        return diffs
    if canon_files(ic.get("files")) != canon_files(mc.get("files")):
        diffs.append(("ctx.files", ic.get("files"), mc.get("files")))
    if "detected_count" in impl and "detected" in model and impl["detected_count"] != len(model["detected"]):
        diffs.append(("detected", impl["detected_count"], model["detected"]))
    ir, mr = impl.get("run", {}), model.get("run", {})
    if "err" in ir or "err" in mr:
        if "err" in ir and "err" in mr:
            if ir["err"][0] not in mr["err"] and ir["err"][0] != "other":
                diffs.append(("run.err", ir["err"], mr["err"]))
        else:
            diffs.append(("run", ir, mr))
    else:
        a = sorted(canon(d) for d in ir.get("diags", []))
        b = sorted(canon(d) for d in mr.get("diags", []))
        if a != b:
            diffs.append(("run.diags", ir.get("diags"), mr.get("diags")))
        # the keys of the merged map (= the files of the printed report): one per file with at least one diagnostic
        if "files" in ir and "files" in mr and sorted(ir["files"]) != sorted(mr["files"]):
            diffs.append(("run.files", sorted(ir["files"]), sorted(mr["files"])))
    if impl.get("exit") != model.get("exit"):
        diffs.append(("exit", impl.get("exit"), model.get("exit")))
    return diffs


def names_path(msg, path):
    """does the message name this file path (not merely a longer path ending in it)?"""
    if not msg or not path:
        return False
    for m in re.finditer(re.escape(path), msg):
        before = msg[m.start() - 1] if m.start() > 0 else " "
        if not (before.isalnum() or before in "/._-"):
            return True
    return False


def err_matches(ie, model_errs):
    """is the implementation's parse error one of those the model predicts? Message WORDING is no observable of any property:
    the error class (`kind`) and the line are compared where the wording lets them be recognised, and the file by the path the
    message names - read from the recognised wording, else searched in the message text"""
    for me in model_errs:
        mf = me.get("file")
        f = ie.get("file")
        if f is None and mf is not None and names_path(ie.get("msg"), mf):
            f = mf
        if mf is not None and f is not None and f != mf:
            continue
        if mf is not None and f is None and ie.get("msg") is not None:
            continue                      # the message is there and does not name the file the model predicts
        if ie.get("kind") not in (None, "other") and "kind" in me and ie["kind"] != me["kind"]:
            continue
        if ie.get("kind") not in (None, "other") and ie.get("line") is not None and me.get("line") is not None and ie["line"] != me["line"]:
            continue
        return True
    return False


def run_model(cases_path, out_path):
    with open(cases_path) as fin, open(out_path, "w") as fout:
        p = subprocess.run([BWMODEL], stdin=fin, stdout=fout, stderr=subprocess.PIPE, text=True, timeout=3600)
    if p.returncode != 0:
        raise Broken("bwmodel crashed", p.stderr[-2000:])


def run_component(prop, name, args, seed, n, tier):
    """harness component -> cases + impl outcomes; model outcomes; returns rows"""
    d = os.path.join(WORK, prop, name.replace(" ", "_"))
    shutil.rmtree(d, ignore_errors=True)
    os.makedirs(d)
    hang = os.path.join(d, "hang.json")
    for attempt in (1, 2):
        if os.path.exists(hang):
            os.remove(hang)
        p = sh([BWH] + name.split() + ["--seed", str(seed), "--n", str(n), "--out", d, "--tier", tier] + args, timeout=7200, check=False,
               env=dict(ENV, BWH_HANG_FILE=hang))
        if not (p.returncode == 3 and os.path.exists(hang)):
            break
        # the watchdog saw a case running for longer than its limit. Before that counts as a hang the case is run once more on
        # its own, in a fresh process, with five times the limit (a machine that stalls - a paused virtual machine, a burst of
        # other work - must not look like a hanging blockwatch); only a case that does not finish there either is reported
        h = json.load(open(hang))
        single = os.path.join(d, "hang_case.jsonl")
        with open(single, "w") as f:
            f.write(json.dumps(h["case"]) + "\n")
        try:
            q = subprocess.run([BWH, "replay", single, "--out", os.path.join(d, "hang_replay")], env=ENV, stdout=subprocess.PIPE,
                               stderr=subprocess.STDOUT, text=True, timeout=5 * h["limit_s"])
            finished = q.returncode == 0
        except subprocess.TimeoutExpired:
            finished = False
        if not finished or attempt == 2:
            if finished:
                raise Broken(f"harness component `{name}`: the watchdog fired twice although the reported cases finish on their own (machine stalls?)", p.stdout[-1000:])
            b = Broken(f"harness component `{name}`: the implementation did not finish case {h['index']} within {h['limit_s']} s, nor within {5 * h['limit_s']} s on its own", p.stdout[-1000:])
            b.hang_case = h["case"]
            raise b
    if p.returncode != 0:
        raise Broken("command failed: " + BWH + " " + name, p.stdout[-4000:])
    run_model(os.path.join(d, "cases.jsonl"), os.path.join(d, "model.jsonl"))
    rows = []
    with open(os.path.join(d, "cases.jsonl")) as fc, open(os.path.join(d, "impl.jsonl")) as fi, \
            open(os.path.join(d, "model.jsonl")) as fm:
        for c, i, m in zip(fc, fi, fm):
            rows.append((json.loads(c), json.loads(i), json.loads(m)))
    if len(rows) != n and n > 0:
        # corpus-driven components may produce a different count; only a mismatch of streams is fatal
        pass
    return rows


# ------------------------------------------------------------------------------------------------ reporting

class Report:
    def __init__(self, prop, tier, seed):
        self.prop, self.tier, self.seed = prop, tier, seed
        self.t0 = time.time()
        self.violations = []        # (replay path, text)
        self.known = []
        self.evaluations = 0
        self.nontrivial = set()
        self.traces = 0
        self.samples = []
        self.hist = {}
        self.obligations = []
        self.rules = []
        self.assumptions = []
        self.extra = {}

    def count(self, key, k=1):
        self.hist[key] = self.hist.get(key, 0) + k

    def violation(self, payload, suffix=""):
        d = os.path.join(ROOT, "replays", self.prop)
        os.makedirs(d, exist_ok=True)
        h = hashlib.sha1(canon(payload).encode()).hexdigest()[:12]
        path = os.path.join(d, f"{h}.json")
        with open(path, "w") as f:
            json.dump(payload, f, indent=1, ensure_ascii=False)
        self.violations.append(path)
        print(f"VIOLATION property={self.prop} replay={path}{(' ' + suffix) if suffix else ''}", flush=True)

    def known_finding(self, text):
        self.known.append(text)
        print(f"KNOWN-FINDING: property={self.prop} {text}", flush=True)

    def write(self, meta):
        ev = {
            "property_id": self.prop, "tier": self.tier, "seed": self.seed, "level": "proof",
            "coverage": {
                "obligations": len(self.obligations), "discharged": len(self.obligations),
                "checker_cmd": f"cd {LEAN} && lake build {meta['module']} && lake env lean Audit/{self.prop}.lean  (#print axioms of every theorem; allowed: propext, Classical.choice, Quot.sound)",
                "trusted_base": meta.get("trusted_base", []),
                "theorems": self.obligations,
                "evaluations": self.evaluations, "distinct_nontrivial": len(self.nontrivial),
                "rule": " | ".join(self.rules), "samples": self.samples[:6],
                "traces_validated_against_impl": self.traces, "outcome_histogram": self.hist,
                "known_findings_replayed": self.known,
            },
            "assumptions": self.assumptions + meta.get("assumptions", []),
            "wall_s": round(time.time() - self.t0, 2), "violations": len(self.violations),
        }
        if not self.obligations:
            # nothing was discharged on this run (a build / proof step broke): do not claim proof coverage
            for k in ("obligations", "discharged"):
                ev["coverage"].pop(k, None)
            ev["coverage"]["explanation"] = "proof obligations were not discharged on this run; see violations"
        ev["coverage"].update(self.extra)
        os.makedirs(os.path.join(ROOT, "evidence"), exist_ok=True)
        with open(os.path.join(ROOT, "evidence", f"{self.prop}.json"), "w") as f:
            json.dump(ev, f, indent=1, ensure_ascii=False)


def load_known(prop):
    out = []
    p = os.path.join(ROOT, "KNOWN_FINDINGS.jsonl")
    if os.path.exists(p):
        for l in open(p):
            l = l.strip()
            if l and not l.startswith("#"):
                e = json.loads(l)
                if e.get("property") == prop or prop in e.get("also", []):
                    out.append(e)
    return out


def eval_batch(prop, cases, opts=None):
    """run the implementation and the model on raw cases; True where they still disagree"""
    d = os.path.join(WORK, prop, "shrink")
    shutil.rmtree(d, ignore_errors=True)
    os.makedirs(d)
    cp = os.path.join(d, "raw.jsonl")
    with open(cp, "w") as f:
        for c in cases:
            f.write(json.dumps(c) + "\n")
    sh([BWH, "replay", "--out", d, cp])
    run_model(os.path.join(d, "cases.jsonl"), os.path.join(d, "model.jsonl"))
    out = []
    with open(os.path.join(d, "impl.jsonl")) as fi, open(os.path.join(d, "model.jsonl")) as fm:
        for i, m in zip(fi, fm):
            out.append(bool(compare_outcome(json.loads(i), json.loads(m), opts)))
    return out


def shrink_case(prop, case, opts=None, rounds=12):
    """greedy reduction of a disagreeing pipeline case (fewer files, fewer lines, fewer flags) that keeps the implementation
    and the model disagreeing; every round evaluates all candidates in one batch. Returns the smallest case found."""
    if case.get("op") != "pipeline":
        return None
    raw = {k: v for k, v in case.items() if k not in ("regex", "regex_texts", "ops")}
    raw["files"] = [{"path": f["path"], "text": f.get("text")} for f in case.get("files", [])]
    raw["patterns"] = [e["p"] for e in case.get("regex", [])]
    try:
        if not eval_batch(prop, [raw], opts)[0]:
            return None
        lines_ok = raw.get("diff") is None and not raw.get("changes")
        for _ in range(rounds):
            cands = []
            files = raw["files"]
            if len(files) > 1:
                for k in range(len(files)):
                    c = dict(raw); gone = files[k]["path"]
                    c["files"] = files[:k] + files[k + 1:]
                    for key in ("walk", "allow", "ignore"):
                        if isinstance(c.get(key), list):
                            c[key] = [p for p in c[key] if p != gone]
                    cands.append(c)
            for key in ("enabled", "disabled"):
                if raw.get(key):
                    c = dict(raw); c[key] = []; cands.append(c)
            if lines_ok:
                for k, f in enumerate(files):
                    if not f.get("text"):
                        continue
                    ls = f["text"].splitlines(keepends=True)
                    n = len(ls)
                    spans = []
                    for size in sorted({max(1, n // 2), max(1, n // 4), 1}, reverse=True):
                        spans += [(a, min(n, a + size)) for a in range(0, n, size)]
                    for a, b in spans[:60]:
                        if b - a >= n:
                            continue
                        c = dict(raw)
                        c["files"] = files[:k] + [{"path": f["path"], "text": "".join(ls[:a] + ls[b:])}] + files[k + 1:]
                        cands.append(c)
            if not cands:
                break
            res = eval_batch(prop, cands, opts)
            better = [c for c, r in zip(cands, res) if r]
            if not better:
                break
            raw = min(better, key=lambda c: (len(c["files"]), sum(len(f.get("text") or "") for f in c["files"])))
        return raw
    except Exception:
        return None


def ops_consecutive(entry):
    """`Bw.Diff.Consec (new.length) 0 ops` for one shipped (old, new, ops) entry"""
    n, cur = len(entry.get("new", "")), 0
    for op in entry.get("ops", []):
        k = op[0]
        if k == "equal":
            if op[2] != cur: return False
            cur += op[3]
        elif k == "delete":
            if op[3] != cur or cur > n: return False
        elif k == "insert":
            if op[2] != cur or op[3] < 1 or cur + op[3] > n: return False
            cur += op[3]
        elif k == "replace":
            if op[3] != cur or op[4] < 1 or cur + op[4] > n: return False
            cur += op[4]
        else:
            return False
    return True


def correspondence(rep, rows, component, nontrivial, opts=None, known=None, oracle=None):
    """diff impl vs model on every row; disagreement on a property observable = failing input.
    `oracle(case, impl)` is an independent ground-truth check on the implementation's outcome."""
    bad = 0
    obad = 0
    for case, impl, model in rows:
        if oracle:
            problems = oracle(case, impl)
            rep.count(f"{component}:oracle-checked")
            if problems:
                k = None
                for e in (known or []):
                    if e.get("status") == "open" and known_matches(e, case, impl, model):
                        k = e
                        break
                if k:
                    rep.count(f"{component}:known:{k['id']}")
                else:
                    obad += 1
                    if obad <= 3:
                        rep.violation({"property": rep.prop, "component": component,
                                       "what": "implementation contradicts the constructed ground truth (direct oracle on the implementation)",
                                       "case": case, "impl": impl, "problems": problems})
        rep.evaluations += 1
        rep.traces += 1
        diffs = compare_outcome(impl, model, opts)
        # hypothesis of `C02.hit_exact` (completeness of the inner binary search), monitored on the implementation's own ranges
        for path, lcs in (impl.get("changes") or {}).items():
            for lc in lcs:
                rs = lc.get("ranges")
                if rs and not (all(a <= b for a, b in rs) and all(rs[i][1] <= rs[i + 1][0] for i in range(len(rs) - 1))):
                    diffs = diffs + [("changes.sorted-ranges", {path: lc}, "changed ranges of a line are non-inverted, ordered and disjoint")]
                if rs:
                    rep.count(f"{component}:ranges-sorted-checked")
        # `C02.line_diff_sorted` derives the sorted-ranges hypothesis from "similar's ops are consecutive over the new line".
        # That premise is NOT a contract of `similar` (for dissimilar pairs it reports a deletion's new index after the
        # following equal run): it is only counted here; the hypothesis itself is checked directly on every outcome above.
        for e in case.get("ops") or []:
            rep.count(f"{component}:ops-" + ("consecutive" if ops_consecutive(e) else "not-consecutive"))
        nt = nontrivial(case, impl, model)
        if nt:
            rep.nontrivial.add(hashlib.sha1(canon({k: v for k, v in case.items() if k != "meta"}).encode()).hexdigest())
        key = outcome_key(impl)
        rep.count(f"{component}:{key}")
        if len(rep.samples) < 3 and nt:
            rep.samples.append({"component": component, "case": shrink_for_sample(case), "impl": impl})
        if diffs:
            k = None
            for e in (known or []):
                if e.get("status") == "open" and known_matches(e, case, impl, model):
                    k = e
                    break
            if k:
                rep.count(f"{component}:known:{k['id']}")
                continue
            bad += 1
            if bad <= 3:
                shrunk = shrink_case(rep.prop, case, opts) if bad == 1 else None
                rep.violation({"property": rep.prop, "component": component, "what": "implementation disagrees with the proved model (Spec = Model is a theorem, so Code(x) != Spec(x))",
                               "case": case, "shrunk_case": shrunk, "impl": impl, "model": model,
                               "differences": [{"field": f, "impl": a, "model_and_spec": b} for f, a, b in diffs]})
    if bad > 3:
        print(f"  ({bad} disagreeing cases in {component}; first 3 written as replays)")
    if obad > 3:
        print(f"  ({obad} ground-truth failures in {component}; first 3 written as replays)")
    return bad + obad


def outcome_key(impl):
    if "panic" in impl:
        return "panic"
    if "err" in impl.get("ctx", {}):
        return "parse-err:" + str(impl["ctx"]["err"][0].get("kind"))
    r = impl.get("run", {})
    if "err" in r:
        return "run-err:" + r["err"][0]
    return f"ok:{len(r.get('diags', []))}diag"


def shrink_for_sample(case):
    c = {k: v for k, v in case.items() if k in ("files", "diff", "changes", "enabled", "disabled", "meta", "op", "text", "path", "extra")}
    if "files" in c:
        c["files"] = [{"path": f["path"], "text": f["text"]} for f in c["files"]]
    return c


def known_matches(entry, case, impl, model):
    import known_classes
    fn = getattr(known_classes, entry["class"], None)
    return bool(fn and fn(case, impl, model))


def known_findings_pass(rep, registry):
    """replay the witness of every known finding of this property: an open finding that still fails as
    recorded is printed as KNOWN-FINDING (exit status unaffected); a fixed one must pass"""
    entries = load_known(rep.prop)
    if not entries:
        return
    d = os.path.join(WORK, rep.prop, "known")
    shutil.rmtree(d, ignore_errors=True)
    os.makedirs(d)
    cp = os.path.join(d, "raw.jsonl")
    with open(cp, "w") as f:
        for e in entries:
            f.write(json.dumps(e["witness"]) + "\n")
    sh([BWH, "replay", "--out", d, cp])
    run_model(os.path.join(d, "cases.jsonl"), os.path.join(d, "model.jsonl"))
    import known_classes
    with open(os.path.join(d, "cases.jsonl")) as fc, open(os.path.join(d, "impl.jsonl")) as fi, open(os.path.join(d, "model.jsonl")) as fm:
        for e, c, i, m in zip(entries, fc, fi, fm):
            case, impl, model = json.loads(c), json.loads(i), json.loads(m)
            rep.evaluations += 1
            probs = registry.ORACLES[e["oracle"]](case, impl)
            cls = getattr(known_classes, e["class"], known_classes.never)
            explained = [p for p, k in probs if k is not None or cls(case, impl, model)]
            unexplained = [p for p, k in probs if k is None and not cls(case, impl, model)]
            diffs = compare_outcome(impl, model)
            if e["status"] == "open":
                if explained:
                    rep.known_finding(f"{e['id']}: {e['what']} [{e['call_site']}]")
                elif not probs:
                    print(f"  note: known finding {e['id']} no longer reproduces on this tree")
                if unexplained or diffs:
                    rep.violation({"property": rep.prop, "what": f"witness of known finding {e['id']} shows a failure outside the recorded class",
                                   "case": case, "impl": impl, "model": model, "problems": unexplained,
                                   "differences": [{"field": f, "impl": a, "model_and_spec": b} for f, a, b in diffs]})
            else:
                rep.count(f"fixed-witness:{e['id']}")
                if probs or diffs:
                    rep.violation({"property": rep.prop, "what": f"regression: the defect fixed by commit {e.get('commit')} ({e['id']}: {e['what']}) is back",
                                   "case": case, "impl": impl, "model": model, "problems": [p for p, _ in probs],
                                   "differences": [{"field": f, "impl": a, "model_and_spec": b} for f, a, b in diffs]})


def corpus_pass(rep):
    """minimised past disagreements (false alarms of the machinery that were corrected, interesting generator finds):
    they run first on every check; the implementation and the model must agree on each of them"""
    cdir = os.path.join(ROOT, "corpus", rep.prop)
    files = sorted(glob.glob(os.path.join(cdir, "*.json"))) if os.path.isdir(cdir) else []
    if not files:
        return
    d = os.path.join(WORK, rep.prop, "corpus")
    shutil.rmtree(d, ignore_errors=True)
    os.makedirs(d)
    cp = os.path.join(d, "raw.jsonl")
    with open(cp, "w") as f:
        for fn in files:
            f.write(json.dumps(json.load(open(fn))["case"]) + "\n")
    sh([BWH, "replay", "--out", d, cp])
    run_model(os.path.join(d, "cases.jsonl"), os.path.join(d, "model.jsonl"))
    with open(os.path.join(d, "cases.jsonl")) as fc, open(os.path.join(d, "impl.jsonl")) as fi, open(os.path.join(d, "model.jsonl")) as fm:
        for fn, c, i, m in zip(files, fc, fi, fm):
            case, impl, model = json.loads(c), json.loads(i), json.loads(m)
            rep.evaluations += 1
            rep.count("corpus")
            if case.get("op") == "glob":
                diffs = [] if impl == model else [("glob", impl, model)]
            else:
                diffs = compare_outcome(impl, model)
            if diffs:
                rep.violation({"property": rep.prop, "component": "corpus", "what": f"corpus case {os.path.basename(fn)}: implementation and model disagree",
                               "case": case, "impl": impl, "model": model,
                               "differences": [{"field": f, "impl": a, "model_and_spec": b} for f, a, b in diffs]})


# ------------------------------------------------------------------------------------------------ main

def setup():
    with Lock():
        build_harness()
        build_repo_binary()
        translate()
        tables()
        lake_build(["Bw", "bwmodel"])
    print("setup ok")


def prepare(prop, meta, need_binary):
    with Lock():
        build_harness()
        if need_binary:
            build_repo_binary()
        tr = translate()
        tb = tables()
        tr["notes"] = live_tables_check(tr, tb, prop)
        for n in tr["notes"]:
            print("  note: " + n)
        if "pre" in meta:
            meta["pre"](prop)
        lake_build([meta["module"], "bwmodel"])
        obligations = audit(prop, meta["module"])
    return tr, obligations


def write_manifest(registry):
    ids = [json.loads(l)["id"] for l in open(os.path.join(ROOT, "properties.jsonl"))]
    path = os.path.join(ROOT, "MANIFEST.json")
    m = json.load(open(path))
    m["engines"] = [
        {"name": "lean-model", "path": "lean", "serves_properties": sorted(registry.CHECKS), "kind_free_text": "Lean 4 model (Bw/*.lean), property theorems (Bw/Props/*.lean), line-protocol driver bwmodel (Main.lean)"},
        {"name": "harness", "path": "harness", "serves_properties": sorted(registry.CHECKS), "kind_free_text": "Rust crate bwh: generators + in-process run of /repo (path dependency, feature verif_hooks)"},
        {"name": "translator", "path": "tools/translate.py", "serves_properties": sorted(registry.CHECKS), "kind_free_text": "regenerates Lean tables (Bw/Gen/*.lean) from the Rust source on every run"},
        {"name": "orchestrator", "path": "check.py", "serves_properties": sorted(registry.CHECKS), "kind_free_text": "builds, audits axioms, diffs impl vs model, known findings, evidence"},
    ]
    checks = []
    for pid in ids:
        if pid not in registry.CHECKS:
            continue
        c = registry.CHECKS[pid]
        checks.append({
            "property_id": pid,
            "quick_cmd": f"python3 check.py {pid} --tier quick",
            "thorough_cmd": f"python3 check.py {pid} --tier thorough",
            "evidence_file": f"evidence/{pid}.json",
            "replay_cmd_template": f"python3 check.py {pid} --replay {{path}}",
            "engine": "lean-model",
            "level_claimed": {"category": "proof", "text": c.get("level_text", registry.DEFAULT_LEVEL_TEXT), "design_ref": f"DESIGN.md section 6/{pid}"},
            "level_note": c.get("level_note", registry.DEFAULT_LEVEL_NOTE),
            "technique": c.get("technique", "Lean 4 theorems about a hand-written model + differential correspondence check against the Rust code"),
        })
    m["checks"] = checks
    m["not_applicable"] = [{"property_id": i, "reason": registry.NOT_YET.get(i, "check not built yet in this framework; to be claimed once its Lean theorems and correspondence run exist")}
                           for i in ids if i not in registry.CHECKS]
    json.dump(m, open(path, "w"), indent=1)
    print(f"manifest: {len(checks)} checks, {len(m['not_applicable'])} not applicable")


def main():
    args = sys.argv[1:]
    if not args:
        print(__doc__)
        return 2
    if args[0] == "--setup":
        setup()
        return 0
    if args[0] == "--manifest":
        import registry
        write_manifest(registry)
        return 0
    prop = args[0]
    tier = os.environ.get("VERIF_TIER", "quick")
    replay = None
    i = 1
    while i < len(args):
        if args[i] == "--tier":
            tier = args[i + 1]; i += 2
        elif args[i] == "--replay":
            replay = args[i + 1]; i += 2
        else:
            i += 1
    seed = int(os.environ.get("VERIF_SEED", "1"))
    import registry
    if prop not in registry.CHECKS:
        print(f"unknown property {prop}")
        return 2
    meta = registry.CHECKS[prop]
    rep = Report(prop, tier, seed)
    if replay:
        return registry.replay(prop, replay)
    try:
        tr, obligations = prepare(prop, meta, meta.get("needs_binary", False))
        rep.obligations = obligations
        rep.extra["translated_tables"] = {k: (len(v) if isinstance(v, list) else v) for k, v in tr.items() if k in ("ext", "detectors")}
        rep.extra["live_tables"] = "extension table and detector list compared with the running implementation (bwh tables)"
        if tr.get("notes"):
            rep.extra["translator_notes"] = tr["notes"]
        known_findings_pass(rep, registry)
        corpus_pass(rep)
        meta["run"](rep, tier, seed, tr)
    except Broken as b:
        # an obligation / build / correspondence step no longer checks: search for a failing input, else report no-failing-input-found
        found = False
        if getattr(b, "hang_case", None) is not None:
            rep.violation({"property": prop, "what": "the implementation does not terminate on this input within the time limit (in-process run under the harness watchdog)",
                           "broken": b.what, "case": b.hang_case})
            found = True
        try:
            if "search" in meta:
                found = meta["search"](rep, tier, seed, b)
        except Broken:
            pass
        if not found and not rep.violations:
            rep.violation({"property": prop, "what": "a proof obligation or build step no longer checks",
                           "broken": b.what, "detail": b.detail}, "no-failing-input-found")
    rep.write(meta)
    if rep.violations:
        return 1
    print(f"{prop}: ok ({len(rep.obligations)} theorems audited, {rep.evaluations} cases, {len(rep.nontrivial)} distinct non-trivial, {round(time.time() - rep.t0, 1)} s)")
    return 0


if __name__ == "__main__":
    # the check modules `import check`: make that the running module, so `Broken` raised through them is the class caught in main()
    sys.modules.setdefault("check", sys.modules[__name__])
    sys.exit(main())
